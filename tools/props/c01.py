"""C01 — OSC 1.0 wire format: encoding is spec-exact and decoding is lossless."""
import os
import re
import struct
import subprocess

PROP = "C01"
ENGINE = "osc"
LEAN_MODULES = ["RtoscModel.Props.C01", "RtoscModel.Props.C01Tables"]
THEOREMS = [
    "Rtosc.Osc.sizeNull_eq_spec_length",
    "Rtosc.Osc.amessage_eq_spec",
    "Rtosc.Osc.amessage_null_buffer",
    "Rtosc.Osc.amessage_null_blob",
    "Rtosc.Osc.vmessage_eq_spec",
    "Rtosc.Osc.avmessage_eq_spec",
    "Rtosc.Osc.three_constructors_agree",
    "Rtosc.Osc.ringLength_encode_partial",
    "Rtosc.Osc.messageLength_encode_partial",
    "Rtosc.Osc.messageLength_encode_counterexample",
    "Rtosc.Osc.read_encode_argString",
    "Rtosc.Osc.read_encode_type",
    "Rtosc.Osc.read_encode_argument",
    "Rtosc.Osc.read_encode_iterator",
    "Rtosc.Osc.narguments_eq_iterator_count",
    "Rtosc.Osc.tables_agree",
]
HARNESS = {"src": ["osc.cpp"], "deps": ["common.h"]}
RULE = ("every type string over the 17 symbols up to length 3 (exhaustive: 5219 strings) with value vectors from "
        "boundary sets, random type strings up to 40 tags and a stream with 41..300 tags, addresses of every length "
        "1..64 starting with '/', a stream of addresses of printable bytes that do not start with '/' ('#'-leading ones, "
        "\"#bundle\"+suffix and a few times exactly \"#bundle\" included), strings and blobs of 0..64 bytes everywhere and of "
        "127..1100 bytes (a few of 4 KiB..70 KiB) in a stream of their own, each through rtosc_amessage / rtosc_vmessage "
        "(hand-built va_list) / rtosc_avmessage, plus 12 literal rtosc_message call sites; destination capacity = "
        "size + 0..8, exactly size, too small, or NULL; destination and the block handed to the readers placed at every "
        "address residue mod 4; random trailing bytes behind the message for rtosc_message_length and the readers (1..12 "
        "bytes, in an extra stream 0..64). Non-trivial = at least one payload-carrying argument; distinct = distinct op line")
ASSUMPTIONS = ["address non-empty and NUL-free, string arguments NUL-free, blob length 0 <= len < 2^31 and not larger "
               "than the data block (NULL data allowed: encodes as zero bytes)",
               "message shorter than 2^32 bytes (Msg.WF.size; `unsigned pos` in the C code); the iterator and "
               "argument-count theorems need it shorter than 2^31 bytes (`int size` in rtosc_itr_next)",
               "length clause (ringLength_encode_partial / messageLength_encode_partial): the address is not exactly "
               "\"#bundle\" - the encoding of such a message begins with the eight bytes by which rtosc_message_length "
               "recognises a bundle, so the clause is false for it (messageLength_encode_counterexample, known finding "
               "C01-K1). Every other address, '#'-leading ones included, is covered. An OSC 1.0 address starts with '/', "
               "so \"#bundle\" is not an OSC address, but the constructors accept it and the property text says 'any address'",
               "varargs clause (vmessage_eq_spec, three_constructors_agree): narrow(widen v) = v for the values v passed "
               "under an 'f' tag (float -> double promotion at the call site, double -> float in rtosc_v2args); nothing "
               "is assumed about i/c/r values",
               "arg-val lists contain no ranges ('-') and no arrays ('a') (range expansion is C16); array brackets are "
               "given as '[' / ']' elements",
               "double -> float conversion of the varargs path is the target's (round to nearest even, NaN quieted)",
               "outside this property (C02): bytes behind the message and the content of a too small buffer (for a too small "
               "buffer only the return value is compared, with the model; the oracle demands nothing of it); "
               "(C07): rtosc_message_length on bytes that are not an encoded message; type strings with bytes that "
               "are not type tags"]
TRUSTED = ["hand-written models RtoscModel/Osc/{Encode,Read,Length}.lean of src/rtosc.c and src/cpp/arg-val.c",
           "x86-64 SysV va_list layout (hand-built va_list in harness/osc.cpp)",
           "regex extraction of the per-tag switch tables (translate_tables) - the tables are tied to the "
           "specification's classification `kind`, not to the model functions, which hard-code the tags"]
LEVEL_TEXT = ("Lean theorems: the three constructors produce exactly Spec.encode and return its length for every "
              "well-formed message shorter than 2^32 bytes (varargs: given that the float conversions round-trip on the "
              "'f'-tagged values); rtosc_message_length of those bytes followed by anything is that length for every "
              "address except exactly \"#bundle\" (for which it is proved false: known finding C01-K1); "
              "argument string, type by index, argument by index and (messages shorter than 2^31 bytes) the iterator "
              "reproduce tags and values bit-identically; rtosc_narguments equals the iterator count. The models are "
              "compared with the compiled implementation (ASan/UBSan, every pointer residue mod 4) on tens of thousands "
              "of generated messages per run and the property is evaluated directly on the implementation's output by "
              "an independent Python codec")
LEVEL_NOTE = ("Trusted: Lean kernel; the hand-written model is tied to the code by differential execution only; see "
              "evidence trusted_base. Length clause partial: *_partial theorems + messageLength_encode_counterexample (C01-K1); "
              "ringLength_encode's split-ring generality is proved but this engine only exercises the unsplit block "
              "(split rings are C06's engine)")

VERIF = os.path.dirname(os.path.dirname(os.path.dirname(os.path.abspath(__file__))))
TAGS = b"ifsbhtdScrmTFNI[]"
PAYLOAD = b"isbfhtdSrmc"
W32 = b"icrf"
W64 = b"htd"


def hx(b):
    return bytes(b).hex() if b else "-"


def unhx(s):
    return b"" if s == "-" else bytes.fromhex(s)


# ---------------------------------------------------------------------------------------
# independent reference codec (the specification, in Python)
# ---------------------------------------------------------------------------------------
def pad_str(s):
    return s + b"\0" * (4 - len(s) % 4)


def enc_arg(tag, a):
    """a: int for 32/64-bit and midi tags, bytes for strings, (len, data|None) for blobs."""
    t = bytes([tag])
    if t in W32:
        return struct.pack(">I", a)
    if t in W64:
        return struct.pack(">Q", a)
    if t == b"m":
        return struct.pack(">I", a)
    if t in b"sS":
        return pad_str(a)
    if t == b"b":
        n, d = a
        body = (b"\0" * n) if d is None else d[:n]
        return struct.pack(">I", n) + body + b"\0" * ((4 - n % 4) % 4)
    raise ValueError(tag)


def encode(addr, tags, args):
    out = pad_str(addr) + pad_str(b"," + tags)
    k = 0
    for t in tags:
        if bytes([t]) in PAYLOAD:
            out += enc_arg(t, args[k])
            k += 1
    return out


def narrow(dbits):
    """binary64 -> binary32 on bit patterns, round to nearest even, NaN quieted."""
    s = dbits >> 63
    e = (dbits >> 52) & 0x7ff
    m = dbits & ((1 << 52) - 1)
    if e == 0x7ff:
        if m == 0:
            return (s << 31) | 0x7f800000
        return (s << 31) | 0x7f800000 | 0x400000 | ((m >> 29) & 0x3fffff)
    x = struct.unpack(">d", struct.pack(">Q", dbits))[0]
    try:
        return struct.unpack(">I", struct.pack(">f", x))[0]
    except OverflowError:
        return (s << 31) | 0x7f800000


def widen(fbits):
    """binary32 -> binary64 on bit patterns, exact; NaN payload kept in the top bits."""
    s = fbits >> 31
    e = (fbits >> 23) & 0xff
    m = fbits & 0x7fffff
    if e == 0xff:
        return (s << 63) | (0x7ff << 52) | (m << 29)
    x = struct.unpack(">f", struct.pack(">I", fbits))[0]
    return struct.unpack(">Q", struct.pack(">d", x))[0]


# ---------------------------------------------------------------------------------------
# op lines
# ---------------------------------------------------------------------------------------
def tok(mode, tag, a):
    t = bytes([tag])
    if t == b"f" and mode in "VL":
        return "q%016x" % a          # promoted double
    if t in W32:
        return "w%08x" % a
    if t in W64:
        return "q%016x" % a
    if t == b"m":
        return "m%08x" % a
    if t in b"sS":
        return "s" + hx(a)
    n, d = a
    return "b%d:%s" % (n, "N" if d is None else hx(d))


def op_line(mode, cap, addr, tags, rest, args):
    toks = []
    k = 0
    for t in tags:
        if bytes([t]) in PAYLOAD:
            toks.append(tok(mode[0], t, args[k]))
            k += 1
    return " ".join([mode, "N" if cap is None else str(cap), hx(addr), hx(tags), hx(rest)] + toks)


def parse_op(op):
    """-> (mode, cap, addr, tags, rest, args as the *abstract* values the reader must return)"""
    w = op.split()
    mode, cap, addr, tags, rest = w[0], (None if w[1] == "N" else int(w[1])), unhx(w[2]), unhx(w[3]), unhx(w[4])
    toks = w[5:]
    args = []
    k = 0
    for t in tags:
        tb = bytes([t])
        if tb not in PAYLOAD:
            continue
        x = toks[k]
        k += 1
        if x[0] == "w":
            args.append(int(x[1:], 16))
        elif x[0] == "q":
            v = int(x[1:], 16)
            args.append(narrow(v) if tb == b"f" else v)
        elif x[0] == "m":
            args.append(int(x[1:], 16))
        elif x[0] == "s":
            args.append(unhx(x[1:]))
        else:
            n, d = x[1:].split(":")
            args.append((int(n), None if d == "N" else unhx(d)))
    return mode, cap, addr, tags, rest, args


F32_SET = [0, 1, 0x3f800000, 0xbf800000, 0x80000000, 0x7f800000, 0xff800000, 0x7fc00000, 0x7fc00001, 0xffc12345,
           0x7fffffff, 0x00000001, 0x007fffff, 0x00800000, 0x7f7fffff, 0x3eaaaaab, 0x42280000]
I32_SET = [0, 1, 2, 0x7fffffff, 0x80000000, 0xffffffff, 0x7ffffffe, 0x80000001, 0x000000ff, 0x0000ff00, 0x00ff0000,
           0xff000000, 0x12345678]
I64_SET = [0, 1, 0x7fffffffffffffff, 0x8000000000000000, 0xffffffffffffffff, 0x7ff8000000000001, 0x7ff0000000000001,
           0xfff8000000000000, 0x7ff0000000000000, 0x3ff0000000000000, 0x8000000000000000, 0x0123456789abcdef,
           0x00000000ffffffff, 0xffffffff00000000, 0x0000000000000001]
D2F_SET = [0x36a0000000000000, 0x369fffffffffffff, 0x36a0000000000001, 0x47efffffe0000000, 0x47effffff0000000,
           0x47efffffefffffff, 0x3ff0000010000000, 0x3ff0000030000000, 0x3ff0000010000001, 0x380fffffffffffff,
           0x3810000000000000, 0x3690000000000000, 0x0000000000000001, 0x7ff0000000000001, 0xfff4000000000000,
           0x7fefffffffffffff, 0x380ffffff0000000, 0x37f0000000000000]
STR_LENS = [0, 1, 2, 3, 4, 5, 7, 8, 11, 12, 15, 16, 17, 31, 32, 40]
BLOB_LENS = [0, 1, 2, 3, 4, 5, 6, 7, 8, 9, 12, 16, 31, 32, 33]


def rand_nonnul(rng, n):
    r = rng.random()
    if r < 0.7:
        return bytes(rng.randint(0x20, 0x7e) for _ in range(n))
    return bytes(rng.randint(1, 255) for _ in range(n))


def rand_arg(rng, tag, mode, stats):
    t = bytes([tag])
    if t == b"f":
        if mode in "VL":
            r = rng.random()
            if r < 0.6:
                d = widen(rng.choice(F32_SET) if rng.random() < 0.6 else rng.getrandbits(32))
            elif r < 0.8:
                d = rng.choice(D2F_SET)
            else:
                d = rng.getrandbits(64)
                if rng.random() < 0.5:   # in float range
                    d = (d & ~(0x7ff << 52)) | (rng.randint(870, 1160) << 52)
            stats["f_via_double"] += 1
            return d
        return rng.choice(F32_SET) if rng.random() < 0.6 else rng.getrandbits(32)
    if t in W32:
        return rng.choice(I32_SET) if rng.random() < 0.6 else rng.getrandbits(32)
    if t in W64:
        return rng.choice(I64_SET) if rng.random() < 0.6 else rng.getrandbits(64)
    if t == b"m":
        return rng.getrandbits(32)
    if t in b"sS":
        n = rng.choice(STR_LENS) if rng.random() < 0.8 else rng.randint(0, 64)
        if n == 0:
            stats["empty_str"] += 1
        return rand_nonnul(rng, n)
    n = rng.choice(BLOB_LENS) if rng.random() < 0.8 else rng.randint(0, 64)
    r = rng.random()
    if r < 0.12:
        stats["null_blob"] += 1
        return (n, None)
    data = bytes(rng.getrandbits(8) if rng.random() < 0.8 else 0 for _ in range(n))
    if r < 0.25:
        data += bytes(rng.getrandbits(8) for _ in range(rng.randint(1, 5)))   # block longer than len
    return (n, data)


BIG_LENS = [127, 128, 129, 130, 131, 255, 256, 257, 258, 300, 511, 512, 513, 1023, 1024, 1025, 1100]
HUGE_LENS = [4095, 4096, 4097, 5000, 8191, 8192, 65535, 65536, 65537, 70000]
BUNDLE = b"#bundle"


def rand_addr(rng, n=None):
    if n is None:
        n = rng.randint(1, 64) if rng.random() < 0.3 else rng.randint(1, 12)
    return b"/" + bytes(rng.randint(0x21, 0x7e) for _ in range(n - 1))


def odd_addr(rng, stats):
    """addresses of printable bytes that need not start with '/' (never exactly "#bundle")"""
    r = rng.random()
    if r < 0.35:
        a = BUNDLE + bytes(rng.randint(0x21, 0x7e) for _ in range(rng.randint(1, 6)))
        stats["addr_bundle_prefix"] += 1
    elif r < 0.50:
        a = BUNDLE[:rng.randint(1, 6)] + bytes(rng.randint(0x21, 0x7e) for _ in range(rng.randint(0, 3)))
    elif r < 0.65:
        a = b"#" + bytes(rng.randint(0x20, 0x7e) for _ in range(rng.randint(0, 9)))
    elif r < 0.75:
        a = bytes(rng.choice(b",#/ ") for _ in range(rng.randint(1, 5)))
    else:
        a = bytes(rng.randint(0x20, 0x7e) for _ in range(rng.randint(1, 12)))
    if a == BUNDLE:
        a += b"s"
    if a[:1] == b"#":
        stats["addr_hash"] += 1
    if a[:1] != b"/":
        stats["addr_no_slash"] += 1
    return a


def big_arg(rng, tag, mode, stats, lens, p=0.3):
    t = bytes([tag])
    if t == b"b" and rng.random() < p:
        n = rng.choice(lens)
        stats["big_blob"] += 1
        r = rng.random()
        if r < 0.1:
            return (n, None)
        data = bytes(rng.getrandbits(8) for _ in range(n + (rng.randint(1, 5) if r < 0.2 else 0)))
        return (n, data)
    if t in b"sS" and rng.random() < p:
        stats["big_str"] += 1
        return rand_nonnul(rng, rng.choice(lens))
    return rand_arg(rng, tag, mode, stats)


def fresh_stats():
    return {"mode_A": 0, "mode_V": 0, "mode_M": 0, "literal": 0, "raw": 0, "cap_slack": 0,
            "cap_exact": 0, "cap_too_small": 0, "cap_null": 0, "with_rest": 0, "addr_mod4": [0, 0, 0, 0],
            "ntags_hist": {}, "tag_count": {}, "leading_bracket": 0, "empty_str": 0, "null_blob": 0,
            "f_via_double": 0, "exhaustive_len3": 0, "big_str": 0, "big_blob": 0, "huge": 0, "addr_hash": 0,
            "addr_no_slash": 0, "addr_bundle_prefix": 0, "addr_exactly_bundle": 0, "msg_size_hist": {}}


def _bucket(n, edges):
    for e in edges:
        if n <= e:
            return "<=%d" % e
    return ">%d" % edges[-1]


def make_case(rng, stats, tags, mode=None, addr=None, args=None, cap_kind=None):
    mode = mode or rng.choice("AVM")
    addr = addr or rand_addr(rng)
    if args is None:
        args = [rand_arg(rng, t, mode, stats) for t in tags if bytes([t]) in PAYLOAD]
    abstract = [narrow(a) if (bytes([t]) == b"f" and mode in "VL") else a
                for t, a in zip([t for t in tags if bytes([t]) in PAYLOAD], args)]
    total = len(encode(addr, tags, abstract))
    r = rng.random()
    if cap_kind is None:
        cap_kind = "slack" if r < 0.70 else "exact" if r < 0.85 else "too_small" if r < 0.93 else "null"
    if cap_kind == "slack":
        cap = total + rng.randint(0, 8)
    elif cap_kind == "exact":
        cap = total
    elif cap_kind == "too_small":
        cap = rng.randint(0, total - 1)
    else:
        cap = None
    stats["cap_" + cap_kind] += 1
    rest = b""
    if rng.random() < 0.5:
        rest = bytes(rng.getrandbits(8) if rng.random() < 0.7 else rng.choice(b"\0,/#ib") for _ in range(rng.randint(1, 12)))
        stats["with_rest"] += 1
    stats["mode_" + mode] += 1
    stats["addr_mod4"][len(addr) % 4] += 1
    k = _bucket(len(tags), [0, 3, 8, 16, 40, 120, 300])
    stats["ntags_hist"][k] = stats["ntags_hist"].get(k, 0) + 1
    k = _bucket(total, [16, 64, 256, 1024, 4096, 65536])
    stats["msg_size_hist"][k] = stats["msg_size_hist"].get(k, 0) + 1
    for t in tags:
        stats["tag_count"][chr(t)] = stats["tag_count"].get(chr(t), 0) + 1
    if tags[:1] in (b"[", b"]"):
        stats["leading_bracket"] += 1
    return op_line(mode, cap, addr, tags, rest, args)


def wide_case(rng, stats):
    """the classes the white-box review found untested: long strings/blobs, many tags, odd addresses"""
    mode = rng.choice("AVM")
    r = rng.random()
    if r < 0.15:
        tags = rand_tags(rng, 41, 120)
    elif r < 0.165:
        tags = rand_tags(rng, 121, 300)
    elif r < 0.5:
        tags = bytes(rng.choice(b"sSbsSbifhTm[]") for _ in range(rng.randint(1, 5)))
    else:
        tags = rand_tags(rng, 0, 6)
    r = rng.random()
    if r < 0.25:
        addr = odd_addr(rng, stats)
    elif r < 0.30:
        addr = rand_addr(rng, rng.choice(BIG_LENS[:10]))         # long addresses
    else:
        addr = rand_addr(rng)
    p = 0.3 if len(tags) <= 8 else 0.05
    args = [big_arg(rng, t, mode, stats, BIG_LENS, p) for t in tags if bytes([t]) in PAYLOAD]
    return make_case(rng, stats, tags, mode=mode, addr=addr, args=args)


def huge_case(rng, stats, n):
    """one string or blob of n bytes (4 KiB .. 70 KiB); blobs only above 8 KiB (the model's
    rtosc_message_length is quadratic in the length of a string)"""
    stats["huge"] += 1
    kind = rng.choice("sSb") if n <= 8192 else "b"
    pre = rand_tags(rng, 0, 2)
    post = rand_tags(rng, 0, 2)
    tags = pre + kind.encode() + post
    mode = rng.choice("AVM")
    args = []
    for k, t in enumerate(tags):
        if bytes([t]) not in PAYLOAD:
            continue
        if k == len(pre):
            args.append((n, bytes(rng.getrandbits(8) for _ in range(n))) if kind == "b" else rand_nonnul(rng, n))
        else:
            args.append(rand_arg(rng, t, mode, stats))
    return make_case(rng, stats, tags, mode=mode, args=args, cap_kind=rng.choice(["slack", "exact", "null"]))


def _f(x):
    return widen(struct.unpack(">I", struct.pack(">f", x))[0])


def _d(x):
    return struct.unpack(">Q", struct.pack(">d", x))[0]


def _i(x):
    return x & 0xffffffff


def _h(x):
    return x & 0xffffffffffffffff


BLOB5 = bytes([1, 2, 3, 4, 5])
# keep in sync with call_l() in harness/osc.cpp
LITERALS = [
    (b"/page/poge", b"TIF", []),
    (b"/testing", b"is", [23, b"this string"]),
    (b"/oscillator/4/frequency", b"f", [_f(440.0)]),
    (b"/foo", b"iisff", [1000, _i(-1), b"hello", _f(1.234), _f(5.678)]),
    (b"/dest", b"[ifsbhtdScrmTFNI]", [42, _f(0.25), b"string", (3, b"string\0"), _h(-125), 22412, _d(0.125), b"Symbol",
                                       25, 0x12345678, 0x903c7f00]),
    (b"/b", b"bb", [(5, BLOB5), (0, None)]),
    (b"/path", b"sss", [b"", b"", b""]),
    (b"/dddddddddd", b"dddddddddd", [_d(1.0), _d(2.0), _d(3.0), _d(4.0), _d(5.0), _d(6.0), _d(7.0), _d(8.0), _d(9.0),
                                     _d(-0.0)]),
    (b"/mix", b"ifdhifdhifdh", [1, _f(1.5), _d(2.5), 3, 4, _f(4.5), _d(5.5), 6, 7, _f(7.5), _d(8.5), 9]),
    (b"/a", b"[ii]", [1, 2]),
    (b"/nil", b"", []),
    (b"/x", b"sSb", [b"abc", b"abcd", (4, BLOB5)]),
]


def all_tag_strings(maxlen):
    cur = [b""]
    yield b""
    for _ in range(maxlen):
        nxt = []
        for s in cur:
            for t in TAGS:
                x = s + bytes([t])
                nxt.append(x)
                yield x
        cur = nxt


def rand_tags(rng, lo, hi):
    n = rng.randint(lo, hi)
    w = rng.random()
    if w < 0.2:
        alph = b"ifsb[]"
    elif w < 0.3:
        alph = b"sSb"
    else:
        alph = TAGS
    return bytes(rng.choice(alph) for _ in range(n))


def generate(rng, tier, stats):
    quick = tier == "quick"
    stats.update(fresh_stats())
    # literal call sites
    for k, (addr, tags, args) in enumerate(LITERALS):
        total = len(encode(addr, tags, [narrow(a) if bytes([t]) == b"f" else a
                                        for t, a in zip([t for t in tags if bytes([t]) in PAYLOAD], args)]))
        for cap in (total + 4, total, None, max(total - 1, 0)):
            stats["literal"] += 1
            yield op_line("L%d" % k, cap, addr, tags, b"", args)
    # exhaustive small type strings
    reps = 2 if quick else 12
    for tags in all_tag_strings(3):
        for _ in range(reps):
            stats["exhaustive_len3"] += 1
            yield make_case(rng, stats, tags)
    # every address length
    for n in range(1, 65):
        for _ in range(2 if quick else 20):
            yield make_case(rng, stats, rand_tags(rng, 0, 6), addr=rand_addr(rng, n))
    # long strings / blobs, many tags, addresses that do not start with '/'
    for _ in range(3000 if quick else 60000):
        yield wide_case(rng, stats)
    # odd addresses with ordinary arguments, every mode
    for _ in range(600 if quick else 10000):
        yield make_case(rng, stats, rand_tags(rng, 0, 6), addr=odd_addr(rng, stats))
    # exactly "#bundle" (known finding C01-K1: rtosc_message_length takes the message for a bundle)
    for _ in range(12 if quick else 200):
        stats["addr_exactly_bundle"] += 1
        yield make_case(rng, stats, rand_tags(rng, 0, 4), addr=BUNDLE, cap_kind=rng.choice(["slack", "exact"]))
    # a few really long arguments
    for n in (rng.sample(HUGE_LENS[:6], 3) + rng.sample(HUGE_LENS[6:], 2) if quick else HUGE_LENS * 3):
        yield huge_case(rng, stats, n)
    # random longer type strings
    for _ in range(10000 if quick else 400000):
        yield make_case(rng, stats, rand_tags(rng, 0, 40) if rng.random() < 0.5 else rand_tags(rng, 0, 8))
    # rtosc_message_length alone: an encoded message followed by 0..64 arbitrary bytes
    for _ in range(3000 if quick else 100000):
        stats["raw"] += 1
        tags = rand_tags(rng, 0, 6) if rng.random() < 0.8 else rand_tags(rng, 7, 40)
        tmp = fresh_stats()
        args = [big_arg(rng, t, "A", tmp, BIG_LENS, 0.05) for t in tags if bytes([t]) in PAYLOAD]
        addr = odd_addr(rng, tmp) if rng.random() < 0.15 else rand_addr(rng)
        m = encode(addr, tags, [a if not isinstance(a, tuple) else (a[0], None if a[1] is None else a[1][:a[0]])
                                for a in args])
        r = rng.random()
        if r < 0.2:
            tail = b""
        elif r < 0.5:
            tail = bytes(rng.choice(b"\0\0/,#isb\xff\x01") for _ in range(rng.randint(1, 64)))
        else:
            tail = bytes(rng.getrandbits(8) for _ in range(rng.randint(1, 64)))
        yield "R %s %d" % (hx(m + tail), len(m))


def nontrivial(op):
    w = op.split()
    return w[0] not in ("R", "Q") and len(w) > 5


# ---------------------------------------------------------------------------------------
# the property, evaluated on the implementation's output
# ---------------------------------------------------------------------------------------
def show_val(tag, a, off):
    t = bytes([tag])
    p = "%02x:" % tag
    if t in W32:
        return p + "%08x" % a
    if t in W64:
        return p + "%016x" % a
    if t == b"m":
        return p + "%08x" % a
    if t in b"sS":
        return p + "@%d:%s" % (off, hx(a))
    if t == b"b":
        n, d = a
        body = (b"\0" * n) if d is None else d[:n]
        return p + "%d@%d:%s" % (n, off + 4, hx(body))
    if t == b"T":
        return p + "1"
    if t == b"F":
        return p + "0"
    return p + "-"


def expected(mode, cap, addr, tags, rest, args):
    """what the property demands of the output line: {field: value}.  Only C01's observables:
    the size query, and - when the buffer is large enough - return value, the message bytes
    buffer[0..ret) and every reader.  Bytes behind the message and the too-small case are C02's."""
    spec = encode(addr, tags, args)
    total = len(spec)
    exp = {"z": str(total)}
    if cap is None:
        exp["r"] = str(total)
        exp["b"] = "NULL"
        return exp
    if cap < total:
        return exp
    exp["r"] = str(total)
    exp["b"] = hx(spec)
    # values in order, with the offsets the specification assigns
    off = len(pad_str(addr)) + len(pad_str(b"," + tags))
    vals = []
    k = 0
    for t in tags:
        tb = bytes([t])
        if tb in b"[]":
            continue
        if tb in PAYLOAD:
            vals.append(show_val(t, args[k], off))
            off += len(enc_arg(t, args[k]))
            k += 1
        else:
            vals.append(show_val(t, None, 0))
    types = bytes(t for t in tags if bytes([t]) not in b"[]")
    v = ",".join(vals) if vals else "-"
    exp.update({"len": str(total), "as": "%d:%s" % (len(pad_str(addr)) + 1, hx(tags)), "n": str(len(types)),
                "ty": hx(types), "av": v, "it": v})
    return exp


def wellformed(addr, tags, args):
    if not addr or 0 in addr:
        return False
    if any(bytes([t]) not in TAGS for t in tags):
        return False
    for a in args:
        if isinstance(a, bytes) and 0 in a:
            return False
        if isinstance(a, tuple) and (a[0] < 0 or (a[1] is not None and a[0] > len(a[1]))):
            return False
    return True


NAMES = {"r": "return value", "z": "size for NULL buffer", "b": "message bytes", "len": "rtosc_message_length",
         "as": "rtosc_argument_string", "n": "rtosc_narguments", "ty": "rtosc_type", "av": "rtosc_argument",
         "it": "rtosc_itr_*"}


def _fields(out):
    return dict(x.split("=", 1) for x in out.split() if "=" in x)


def bad_fields(op, out):
    """fields of the output line that differ from what the property demands (None: op outside the property)"""
    mode, cap, addr, tags, rest, args = parse_op(op)
    if not wellformed(addr, tags, args):
        return None
    exp = expected(mode, cap, addr, tags, rest, args)
    fo = _fields(out)
    return [(k, exp[k], fo.get(k)) for k in exp if fo.get(k) != exp[k]]


def _short(x):
    x = str(x)
    return x if len(x) <= 80 else x[:60] + "...(%d chars)" % len(x)


def oracle(op, out):
    if out.startswith("crash"):
        return "implementation crashed: " + out
    w = op.split()
    if w[0] == "Q":            # outside the property: regression witnesses of C07 fixes
        return None if out == "len<=n" else "rtosc_message_length: " + out
    if w[0] == "R":
        m = re.fullmatch(r"len=(\d+)", out)
        if not m:
            return "unparsable output"
        if len(w) > 2 and int(m.group(1)) != int(w[2]):
            return "rtosc_message_length returned %s for an encoded message of %s bytes followed by %d bytes" % (
                m.group(1), w[2], len(unhx(w[1])) - int(w[2]))
        if int(m.group(1)) > len(unhx(w[1])):
            return "rtosc_message_length returned %s for %d bytes" % (m.group(1), len(unhx(w[1])))
        return None
    if "stored-in-front-of-buffer" in out:
        return "the constructor stored in front of the destination buffer"
    bad = bad_fields(op, out)
    if bad:
        return "OSC 1.0 codec disagrees on: " + ", ".join("%s (expected %s, got %s)" % (
            NAMES.get(k, k), _short(e), _short(g)) for k, e, g in bad[:3])
    return None


def known(op, impl_out, model_out, defs):
    """C01-K1: a message whose address is exactly "#bundle" is taken for a bundle by rtosc_message_length.
    Attributed only if the trigger holds, rtosc_message_length is the *only* observable that is off, and the
    output is what the defect-mirroring model predicts (when the model ran)."""
    if not any(d.get("id") == "C01-K1" for d in defs):
        return None
    w = op.split()
    if w[0] in ("R", "Q") or impl_out.startswith("crash"):
        return None
    if unhx(w[2]) != BUNDLE:
        return None
    if model_out is not None and model_out != impl_out:
        return None
    bad = bad_fields(op, impl_out)
    if bad and [k for k, _, _ in bad] == ["len"]:
        return "C01-K1"
    return None


def neighbours(op, rng):
    """inputs near a disagreement: same type string, other values / modes"""
    if op.split()[0] in ("R", "Q"):
        return
    mode, cap, addr, tags, rest, args = parse_op(op)
    st = fresh_stats()
    for m in "AVM":
        for _ in range(200):
            yield make_case(rng, st, tags, mode=m)
    for _ in range(200):
        yield make_case(rng, st, tags, addr=addr)
    for n in range(1, min(len(tags), 40) + 1):
        for _ in range(20):
            yield make_case(rng, st, tags[:n])
            yield make_case(rng, st, tags[-n:])


# ---------------------------------------------------------------------------------------
# translator: the per-tag switch tables of rtosc.c -> lean/RtoscModel/Generated/OscTables.lean
# ---------------------------------------------------------------------------------------
def _switch_cases(body):
    """body of one `switch(..) {..}`: list of (case characters, statements) groups."""
    groups = []
    cur = []
    pos = 0
    for m in re.finditer(r"case\s+'(\\?.)'\s*:|default\s*:", body):
        stmts = body[pos:m.start()].strip()
        if stmts and cur:
            groups.append((cur, stmts))
            cur = []
        cur.append(m.group(1) if m.group(1) else "default")
        pos = m.end()
    stmts = body[pos:].strip()
    if cur:
        groups.append((cur, stmts))
    return groups


def _func_body(src, name):
    m = re.search(r"\b%s\s*\([^;{]*\)\s*\{" % re.escape(name), src)
    if not m:
        raise ValueError("function %s not found" % name)
    i = m.end()
    depth = 1
    while depth:
        c = src[i]
        depth += c == "{"
        depth -= c == "}"
        i += 1
    return src[m.end():i - 1]


def _switches(body):
    out = []
    for m in re.finditer(r"switch\s*\([^)]*\)\s*\{", body):
        i = m.end()
        depth = 1
        while depth:
            c = body[i]
            depth += c == "{"
            depth -= c == "}"
            i += 1
        out.append(body[m.end():i - 1])
    return out


TABLE_SOURCES = [   # (table, function of src/rtosc.c, index of the switch in it, classifier)
    ("hasReservedTab", "has_reserved", 0, "reserved"),
    ("argSizeTab", "arg_size", 0, "argsize"),
    ("sizeNullTab", "vsosc_null", 0, "size"),
    ("writeTab", "rtosc_amessage", 0, "write"),
    ("extractTab", "extract_arg", 1, "extract"),
    ("ringLengthTab", "rtosc_message_ring_length", 0, "size"),
]
TABLES_PATH = os.path.join(VERIF, "lean", "RtoscModel", "Generated", "OscTables.lean")
_PSEUDO = []          # obligations added by the translator for this run (see translate_tables)


def extract_tables(src):
    """-> ({table: rows}, {table: reason it could not be read})"""
    src = re.sub(r"//[^\n]*", "", src)
    src = re.sub(r"/\*.*?\*/", "", src, flags=re.S)

    def cls_reserved(st):
        m = re.search(r"return\s+(\d)", st)
        return int(m.group(1))

    def cls_size(st):                      # vsosc_null / ring_length: pos += 8 / 4 / string / blob
        if re.search(r"pos\s*\+=\s*8", st):
            return 8
        if "strlen" in st or re.search(r"while\s*\(\s*deref\(", st):
            return 1                       # string
        if re.search(r"b\.len|i\s*\|=", st):
            return 2                       # blob
        if re.search(r"pos\s*\+=\s*4\s*;", st):
            return 4
        return 0

    def cls_argsize(st):
        m = re.search(r"return\s+(\d)\s*;", st)
        if m:
            return int(m.group(1))
        if "blob_length" in st:
            return 2
        if "while" in st:
            return 1
        return 0

    def cls_write(st):
        n = len(re.findall(r"buffer\[pos\+\+\]\s*=", st))
        if "b.len" in st or "b.data" in st:
            return 2
        if re.search(r"while\s*\(\s*\*s\s*\)", st):
            return 1
        return n                           # 8 / 4 stores

    def cls_extract(st):
        n = len(re.findall(r"\*arg_pos\+\+", st))
        if "b.data" in st:
            return 2
        if "result.s" in st:
            return 1
        return n

    classifiers = {"reserved": cls_reserved, "size": cls_size, "argsize": cls_argsize, "write": cls_write,
                   "extract": cls_extract}
    tabs, errs = {}, {}
    for name, func, which, ck in TABLE_SOURCES:
        try:
            sw = _switches(_func_body(src, func))[which]
            rows = []
            for chars, stmts in _switch_cases(sw):
                v = classifiers[ck](stmts)
                for c in chars:
                    if c != "default":
                        rows.append((ord(c[-1]), v))
            if not rows:
                raise ValueError("no case labels")
            tabs[name] = sorted(rows)
        except Exception as e:
            errs[name] = "%s: %s" % (func, e)
    return tabs, errs


def render_tables(tabs):
    lines = ["/-", "  GENERATED by tools/props/c01.py (translate_tables) from src/rtosc.c — do not edit.",
             "  One row per `case` label of the per-tag switch statements: (tag, class) with class",
             "  8 / 4 = fixed payload of that many bytes, 1 = NUL-terminated padded string, 2 = blob,",
             "  0 = no payload; for `has_reserved` the class is the returned value.", "-/",
             "namespace Rtosc.Osc.Generated", ""]
    for name, _, _, _ in TABLE_SOURCES:
        lines.append("def %s : List (Nat × Nat) := [%s]" % (name, ", ".join("(%d, %d)" % r for r in tabs[name])))
    lines += ["", "end Rtosc.Osc.Generated", ""]
    return "\n".join(lines)


def parse_tables(txt):
    out = {}
    for m in re.finditer(r"def (\w+) : List \(Nat × Nat\) := \[([^\]]*)\]", txt):
        out[m.group(1)] = sorted((int(a), int(b)) for a, b in re.findall(r"\((\d+), (\d+)\)", m.group(2)))
    return out


def table_diff(old, new):
    """entries that differ: [(table, tag, class in old | None, class in new | None)]"""
    out = []
    for name, _, _, _ in TABLE_SOURCES:
        a, b = dict(old.get(name, [])), dict(new.get(name, []))
        for t in sorted(set(a) | set(b)):
            if a.get(t) != b.get(t):
                out.append((name, t, a.get(t), b.get(t)))
    return out


def _ident(x):
    return re.sub(r"[^A-Za-z0-9_]", "_", str(x))


def _set_pseudo(names):
    for n in _PSEUDO:
        if n in THEOREMS:
            THEOREMS.remove(n)
    _PSEUDO[:] = names
    THEOREMS.extend(names)


def translate_tables():
    """Regenerates lean/RtoscModel/Generated/OscTables.lean (the input of `tables_agree`, module
    RtoscModel.Props.C01Tables) from the working tree's src/rtosc.c.

    * run against /repo itself: the file is rewritten when its content changes; if the tables no longer
      agree with the specification the module C01Tables stops building and its build log (which goes into
      the replay) names table and tag (`#eval` in Props/C01Tables.lean).
    * run against a scratch tree (VERIF_REPO=...): the shared file is never touched.  The freshly extracted
      tables are compared with the committed file, whose agreement with the specification is what
      `tables_agree` proves; every entry that differs therefore is an entry where this tree's table does
      not agree, and is reported as an obligation that does not check, its name saying table and tag:
      Rtosc.Osc.tables_agree.<table>_of_<function>.tag_<code>_<char>.class_<here>_specified_<committed>.
    * a table that cannot be extracted at all (the switch is gone) is reported the same way."""
    import vlib
    src = open(os.path.join(vlib.REPO, "src/rtosc.c")).read()
    tabs, errs = extract_tables(src)
    funcs = {name: func for name, func, _, _ in TABLE_SOURCES}
    old_txt = open(TABLES_PATH).read() if os.path.exists(TABLES_PATH) else None
    pseudo = ["Rtosc.Osc.tables_agree.%s_cannot_be_read_from_%s" % (name, funcs[name]) for name in sorted(errs)]
    if errs:
        _set_pseudo(pseudo)
        return "OscTables.lean NOT regenerated, committed file kept: " + "; ".join(
            "%s (%s)" % (k, v) for k, v in sorted(errs.items()))
    txt = render_tables(tabs)
    diff = table_diff(parse_tables(old_txt or ""), tabs)
    desc = ["%s/%s tag %d '%s': %s -> %s" % (n, funcs[n], t, chr(t), a, b) for n, t, a, b in diff]
    if vlib._OWN:
        _set_pseudo([])
        if old_txt != txt:
            os.makedirs(os.path.dirname(TABLES_PATH), exist_ok=True)
            with open(TABLES_PATH, "w") as f:
                f.write(txt)
            return "OscTables.lean regenerated (changed: %s)" % ("; ".join(desc) or "layout only")
        return "OscTables.lean regenerated (unchanged)"
    # scratch tree: never write the shared file
    for n, t, a, b in diff:
        pseudo.append("Rtosc.Osc.tables_agree.%s_of_%s.tag_%d_%s.class_%s_specified_%s" % (
            n, funcs[n], t, _ident(chr(t)), _ident(b), _ident(a)))
    _set_pseudo(pseudo)
    if diff:
        return ("tables of this tree differ from the committed OscTables.lean (shared file not written for a "
                "scratch tree): " + "; ".join(desc))
    return "OscTables.lean compared with this tree's tables (identical; shared file not written for a scratch tree)"


TRANSLATORS = [translate_tables]
