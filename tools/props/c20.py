"""C20 — A learned MIDI controller drives exactly its parameter, within its range.

One op line is a whole history of the two halves of the MIDI mapper *including* the delivery
order of the messages they exchange (see harness/midi.cpp for the protocol).  The oracle below is
a reference of the *property* (an idealised learn protocol written from the statement, not from
the code, and not from the Lean model): it predicts for every incoming controller value which
parameter, if any, must receive a message and which values are acceptable."""
import os
import struct
import subprocess
from fractions import Fraction

PROP = "C20"
ENGINE = "midi"
LEAN_MODULES = ["RtoscModel.Props.C20"]
THEOREMS = [
    # filled in below (kept in one place so that the list and the file cannot drift apart)
]
HARNESS = {"src": ["midi.cpp"], "deps": ["common.h"]}
STATELESS = True
RULE = ("one case = one whole history (12..70 steps; long sessions 250..450 steps) of map/unMap/clear on 2..4 int/float "
        "parameters, incoming CC(id,value) from 2..6 controller ids and explicit deliveries of the two message channels. "
        "Port tables: names spelled p<k>:i, p<k>:f, p<k>::i, p<k>::f, p<k>:f:i, p<k>:i:f, optionally padded to up to 62 "
        "characters and nested in up to 3 sub-tables (addresses of 3..75 characters), extra metadata keys around min/max "
        "(documentation, parameter, scale=logarithmic|linear, shortname, unit); ranges from a table of boundary ranges "
        "(65 %) or random (35 %; int ranges with integral bounds incl. max=127 with min!=0, float ranges in eighths). "
        "Streams: synchronous histories, random delivery orders, learn-heavy bursts, systematically enumerated delivery "
        "orders of short scripts (thorough tier: ALL 4^n assignments of a delivery word from {-, r, n, r n} to the n <= 8 "
        "calls of five scripts), histories with clear, long sessions with 33..45 completed learn handshakes (the 32-cell "
        "pending ring wraps); every history ends with a drain and a probe of every controller; non-trivial = the history "
        "queues an address, delivers at least one learn request and sends at least two controller values (measured: "
        "> 90 % of such lines drive a parameter); distinct = distinct op line")
ASSUMPTIONS = ["every port carries min/max metadata with min <= max, both multiples of 1/8, |.| < 2^20",
               "an int parameter has an int range (the statement's 'int and float ranges'): min and max of a port that "
               "is sent 'i' messages are integers. With fractional bounds the unchanged code leaves the declared range "
               "(port p0:i with min=0.125 max=100.125, op line `P:i:1:801,f:0:8 m0c r c:5:0 n r c:5:0`: value 0 sends "
               "(int)0.125 = 0 < min; Lean: int_port_fractional_bound_counterexample); such ports are not generated",
               "a port whose signature accepts both f and i (:f:i, :i:f) may be sent either type",
               "controller values are 7-bit (0..127); controller numbers 0..16383, channels 0..127",
               "addresses are at most 75 characters, so that every message fits the 1024-byte buffers of the callbacks",
               "the application forwards nRT->RT messages to MidiMapperRT::ports and /midi-use-CC to useFreeID, "
               "each channel in FIFO order (the channels themselves are C06's subject)",
               "oracle: float outputs must lie in [min,max], be monotone, and agree with the exact linear map within "
               "4 ulp of the range's magnitude, int outputs within 1 (truncation / the 0..127 special case); for a "
               "port whose metadata say scale=logarithmic only type, range and monotonicity are demanded. The "
               "model/implementation comparison is bit-exact (it ties the model to the code as it is): an "
               "implementation that differs from the model only by values inside this tolerance is reported as a "
               "correspondence break without failing input (no-failing-input-found), never as a property failure",
               "'the value composed with the other half' is read as: the other half of the 14-bit value is the LAST "
               "7-bit value that the controller bound to the other half of the same address sent while the realtime "
               "half had it bound, 0 if it sent none or if no controller is bound to that half; a controller that a "
               "delivered snapshot no longer binds forgets its value (Lean: lastVals, a function of the history)",
               "unMap(a,k) while (a,k) is still queued for learning leaves it queued (the statement's 'unmapping an "
               "address stops its controller' is read as: the controller bound to it stops; code, model and oracle "
               "share this reading)"]
TRUSTED = ["hand-written model RtoscModel/Midi.lean of midimapper.cpp (MidiMappernRT::map/unMap/clear/useFreeID/"
           "generateNewBijection incl. its reading of the port's name and metadata, killMap, MidiMapperStorage::"
           "handleCC/cloneValues/clone, MidiBijection, MidiMapperRT::handleCC and its ports, PendingQueue as a FIFO "
           "list — proved to be a sound abstraction of the 32-cell ring: pending_queue_is_ring)",
           "the address text is not modelled (an address is the index of its port); Ports::apropos finding nested "
           "ports and the 1024-byte message buffers are exercised by the correspondence run only",
           "the reading of IEEE-754 binary32 against which the float bit packing is proved (f32Scaled: sign = bit 31, "
           "biased exponent = bits 30..23, fraction = bits 22..0; float_bits_denote_rounded_value); that the compiled "
           "code's float/double arithmetic is IEEE-754 round-to-nearest-even is tied to the model by the bit-exact "
           "correspondence run",
           "the idealised learn protocol in tools/props/c20.py (the oracle's reading of the statement; it reproduces "
           "the watch-credit handshake of the code)"]
TECHNIQUE = "Lean 4 model + invariant proofs over all interleavings; differential run against the real two halves"
LEVEL_TEXT = ("Lean theorems over every history and every delivery order of the two channels. Proved for every history, "
              "hazards included: one message per value, none from other steps; the value sent is the port's callback "
              "applied to the 14-bit value with the incoming value in the controller's half; the argument actually "
              "EMITTED (the int after rounding to float and truncation; the float as its 32 bits, proved to be a finite "
              "IEEE-754 pattern denoting exactly the round-to-nearest-even of the linear map's value) lies in [min,max], "
              "has the port's type and is monotone, for every well-formed port incl. the 0..127 special case (int "
              "ports: integral bounds, see assumptions); the message type follows the port's signature for every "
              "spelling the protocol declares; structural safety of the snapshots; the pending ring refines to the "
              "model's list for sessions of any length. Proved for every history in which neither of the two known "
              "defect triggers fires: the learn-handshake clauses (assigned to the oldest queued address, "
              "never-assigned controllers silent, other bindings unaffected, unmap stops) and the end-to-end numeric "
              "clause (emits_composed_value_partial for every step of every such history, run_emits_composed_values "
              "for the message sequence of a run of the executable model): a controller value produces no message if "
              "the controller is bound to nothing, else exactly one message to the bound address, carrying the value "
              "composed from the incoming 7-bit value and the LAST value (a function of the history alone, carried "
              "across every midi-bind/cloneValues) of the controller bound to the other half of the same address (0 if "
              "none), in range and monotone in the incoming value. Both defects have proved counterexamples for every "
              "clause they break; the model is compared bit-exactly with the real MidiMapperRT/MidiMappernRT on "
              "thousands of generated histories per run and the property is evaluated directly on the "
              "implementation's output")
LEVEL_NOTE = ("partial for histories in which a /midi-use-CC request meets an empty learn queue (C20-K1; proved to need a "
              "clear) or a midi-bind that answers no request is delivered while a request is in flight (C20-K2); such a "
              "history (about 20 % of the generated ones) is attributed to the finding only if the trigger holds, the "
              "implementation's output has the structure the defect-mirroring model predicts (same messages, "
              "addresses, types; values within tolerance) AND the part of the history in front of the first hazard "
              "step satisfies the property on the implementation's own output. Decided for histories WITH hazards: "
              "half_survives_bind and the end-to-end value clause are FALSE after a K2 hazard "
              "(half_survives_bind_counterexample, emits_composed_value_counterexample: a controller assigned twice "
              "has two mapping entries, cloneValues lets the last one win and zeroes the controller's last value at "
              "the next midi-bind, so the next fine value is composed with 0; witness in corpus/C20.ops); the exact "
              "hypothesis is well-formedness of the two snapshots (half_survives_bind_wellformed: any reachable state, "
              "distinct controller IDs per snapshot, no half of a slot owned twice). Still open: nothing is proved "
              "about WHICH value is sent after a hazard beyond value_in_range_monotone (some 7-bit other half); int "
              "ports with fractional bounds are outside the range theorems (int_port_fractional_bound_counterexample)")

THEOREMS += [
    "Rtosc.Midi.one_message_per_value",
    "Rtosc.Midi.other_steps_silent",
    "Rtosc.Midi.value_in_range_monotone",
    "Rtosc.Midi.special_case_in_range_monotone",
    "Rtosc.Midi.emitted_int_in_range_monotone",
    "Rtosc.Midi.emitted_float_in_range_monotone",
    "Rtosc.Midi.f32Round_value",
    "Rtosc.Midi.float_bits_denote_rounded_value",
    "Rtosc.Midi.emitted_float_bits_in_range_monotone",
    "Rtosc.Midi.emitted_value_in_range_monotone",
    "Rtosc.Midi.int_port_fractional_bound_counterexample",
    "Rtosc.Midi.message_type_follows_port",
    "Rtosc.Midi.port_type_follows_signature",
    "Rtosc.Midi.fine_composes_14bit",
    "Rtosc.Midi.half_survives_bind_partial",
    "Rtosc.Midi.half_survives_bind_wellformed",
    "Rtosc.Midi.half_survives_bind_counterexample",
    "Rtosc.Midi.emits_composed_value_partial",
    "Rtosc.Midi.run_emits_composed_values",
    "Rtosc.Midi.emits_composed_value_counterexample",
    "Rtosc.Midi.rt_acts_on_past_table",
    "Rtosc.Midi.pending_queue_is_ring",
    "Rtosc.Midi.assigned_to_oldest_partial",
    "Rtosc.Midi.learn_completes_partial",
    "Rtosc.Midi.unassigned_silent_partial",
    "Rtosc.Midi.bindings_independent_partial",
    "Rtosc.Midi.unmap_stops_partial",
    "Rtosc.Midi.no_crash_partial",
    "Rtosc.Midi.nrt_refines_table_partial",
    "Rtosc.Midi.triggerK1_needs_clear",
    "Rtosc.Midi.safe_run_is_hazard_free_trace",
    "Rtosc.Midi.assigned_to_oldest_counterexample",
    "Rtosc.Midi.assigned_to_oldest_step_counterexample",
    "Rtosc.Midi.bindings_independent_counterexample",
    "Rtosc.Midi.unassigned_silent_counterexample",
    "Rtosc.Midi.no_crash_counterexample",
    "Rtosc.Midi.k1_trigger",
    "Rtosc.Midi.k2_trigger",
]

VERIF = os.path.dirname(os.path.dirname(os.path.dirname(os.path.abspath(__file__))))

# ---------------------------------------------------------------------------------------------
# parsing
# ---------------------------------------------------------------------------------------------


def _nat(s, mx):
    if not s.isdigit() or len(s) > 9:
        return None
    v = int(s)
    return v if v <= mx else None


def _int(s, mx):
    if s.startswith("-"):
        if len(s) > 9:
            return None
        v = _nat(s[1:], mx)
        return None if v is None else -v
    return _nat(s, mx)


# signature letter of a port spec -> message types the port accepts (what the statement calls the
# parameter's type): ":i" ":f" "::i" "::f" ":f:i" ":i:f"
SIGS = {"i": "i", "f": "f", "I": "i", "F": "f", "j": "if", "g": "if"}


def parse(op):
    """strict parser of the line protocol; None = malformed (both sides answer `bad-op`)"""
    w = op.split()
    if not w or not w[0].startswith("P:") or len(w[0]) < 3:
        return None
    ports = []
    specs = w[0][2:].split(",")
    if len(specs) > 10:
        return None
    for spec in specs:
        f = spec.split(":")
        if len(f) not in (3, 4) or not f[0] or f[0][0] not in SIGS or any(c not in "dpLsul" for c in f[0][1:]):
            return None
        mn, mx = _int(f[1], 8388607), _int(f[2], 8388607)
        if mn is None or mx is None:
            return None
        if len(f) == 4:
            g = f[3].split(".")
            if len(g) != 2 or _nat(g[0], 3) is None or _nat(g[1], 60) is None:
                return None
        ports.append((SIGS[f[0][0]], Fraction(mn, 8), Fraction(mx, 8), "L" in f[0][1:]))
    ops = []
    for t in w[1:]:
        if t in ("x", "r", "n"):
            ops.append((t,))
        elif t[0] in "mu" and len(t) == 3 and t[1].isdigit() and int(t[1]) < len(ports) and t[2] in "cf":
            ops.append((t[0], int(t[1]), t[2] == "c"))
        elif t.startswith("c:"):
            f = t[2:].split(":")
            if len(f) == 2:
                f += ["1", "0"]
            if len(f) != 4:
                return None
            par, val, ch, nr = _nat(f[0], 16383), _nat(f[1], 127), _nat(f[2], 127), _nat(f[3], 1)
            if None in (par, val, ch, nr):
                return None
            ch = max(ch, 1)
            ops.append(("c", (nr << 18) + (((ch - 1) & 15) << 14) + par, val))
        else:
            return None
    return ports, ops


def f32(bits):
    return Fraction(struct.unpack(">f", struct.pack(">I", bits))[0])


# ---------------------------------------------------------------------------------------------
# the property as a reference protocol
# ---------------------------------------------------------------------------------------------
class Ideal:
    """What the statement asks of the two halves, with the asynchrony made explicit:
    * nRT side: a FIFO of addresses queued for learning, and the truth `bound: controller -> (addr, kind)`;
    * map(a,k) forgets the old controller of (a,k) and queues it (once); unMap(a,k) forgets the controller;
      clear forgets everything;
    * the RT side sees the truth through a FIFO of updates; a controller it does not know asks to be learned
      once (while its request is under way it does not ask again) provided it has been told of a queued
      address that nobody asked for yet;
    * a request reaching the nRT side binds the controller to the OLDEST queued address, or is dismissed
      when nothing is queued; either way the RT side is told, and only then may the controller ask again;
    * a known controller sends exactly one message to its address: the 14-bit value whose coarse/fine half
      is the incoming value and whose other half is the last value of the address's other controller."""

    def __init__(self):
        self.queue = []
        self.bound = {}
        self.to_rt = []
        self.to_nrt = []
        self.view = {}
        self.last = {}
        self.requested = set()
        self.credits = 0
        self.ambiguous = False     # a stricter (also correct) realisation may have behaved differently

    def _send_view(self, answers):
        self.to_rt.append(("view", dict(self.bound), answers))

    def unmap(self, a, k):
        for cid, tgt in list(self.bound.items()):
            if tgt == (a, k):
                del self.bound[cid]
                self._send_view(None)

    def map(self, a, k):
        if (a, k) in self.queue:
            return
        self.unmap(a, k)
        self.queue.append((a, k))
        self.to_rt.append(("watch",))

    def clear(self):
        self.queue = []
        self.bound = {}
        self._send_view(None)

    def deliver_nrt(self):
        if not self.to_nrt:
            return
        cid, maybe_stale = self.to_nrt.pop(0)
        if not self.queue or cid in self.bound:
            self.to_rt.append(("ack", cid))
            return
        if maybe_stale:
            self.ambiguous = True
        tgt = self.queue.pop(0)
        self.bound[cid] = tgt
        self._send_view(cid)

    def deliver_rt(self):
        if not self.to_rt:
            return
        m = self.to_rt.pop(0)
        if m[0] == "watch":
            self.credits += 1
        elif m[0] == "ack":
            self.requested.discard(m[1])
        else:
            _, view, answers = m
            self.last = {c: v for c, v in self.last.items() if c in view and c in self.view}
            self.view = view
            if answers is not None:
                self.requested.discard(answers)

    def cc(self, cid, val):
        """returns None (no message may be sent) or (addr, kind, other-half or None)"""
        if cid in self.view:
            a, k = self.view[cid]
            self.last[cid] = val
            other = None
            for c2, tgt in self.view.items():
                if tgt == (a, not k):
                    other = self.last.get(c2, 0)
            return (a, k, other)
        if cid not in self.requested and self.credits > 0:
            inflight_watch = sum(1 for m in self.to_rt if m[0] == "watch")
            stale = self.credits + inflight_watch + len(self.to_nrt) - len(self.queue)
            maybe_stale = self.credits <= stale
            self.credits -= 1
            self.requested.add(cid)
            self.to_nrt.append((cid, maybe_stale))
        return None


def exact(port, x):
    mn, mx = port[1], port[2]
    return mn + Fraction(x, 16384) * (mx - mn)


def check_value(port, kind_coarse, val, other, tok_type, tok_val):
    """is the printed value an acceptable image of the incoming 7-bit value?"""
    t, mn, mx, log = port
    if tok_type not in t:
        return "type %s for a port of type %s" % (tok_type, t)
    if tok_type == "i":
        out = Fraction(int(tok_val))
        tol = Fraction(1)
    else:
        out = f32(int(tok_val, 16))
        tol = Fraction(4, 2 ** 24) * max(abs(mn), abs(mx), Fraction(1, 1024))
    if out < mn or out > mx:
        return "value %s outside [%s,%s]" % (float(out), float(mn), float(mx))
    if log:
        # the port asks for a logarithmic scale: the statement fixes range and monotonicity only, not
        # the shape of the map
        return None
    others = range(128) if other is None else [other]
    for o in others:
        x = (val << 7) | o if kind_coarse else (o << 7) | val
        if abs(out - exact(port, x)) <= tol:
            return None
    return "value %s is not the image of the 14-bit value built from %d (other half %s)" % (
        float(out), val, "free" if other is None else other)


def oracle(op, out):
    p = parse(op)
    if p is None:
        return None if out == "bad-op" else "malformed line answered with " + out
    ports, ops = p
    if out == "bad-op":
        return "well-formed line answered with bad-op"
    if out.startswith("crash"):
        return "implementation crashed: " + out
    toks = out.split()
    ncc = sum(1 for o in ops if o[0] == "c")
    if ncc == 0:
        return None if out == "." else "output for a history without controller values: " + out
    if len(toks) != ncc:
        return "%d outputs for %d controller values" % (len(toks), ncc)
    ideal = Ideal()
    seen = {}        # addr -> list of (x, out) with fully known x, for the monotonicity clause
    i = 0
    for o in ops:
        if o[0] == "m":
            ideal.map(o[1], o[2])
        elif o[0] == "u":
            ideal.unmap(o[1], o[2])
        elif o[0] == "x":
            ideal.clear()
        elif o[0] == "r":
            ideal.deliver_rt()
        elif o[0] == "n":
            ideal.deliver_nrt()
        else:
            tok = toks[i]
            i += 1
            exp = ideal.cc(o[1], o[2])
            where = "controller value #%d (id %d, value %d): " % (i, o[1], o[2])
            if "+" in tok:
                return where + "more than one message: " + tok
            if tok.startswith("X"):
                return where + "message to an unknown address or of an unknown type: " + tok
            got = None
            if tok != "-":
                f = tok.split(":")
                got = (int(f[0][1:]), f[1], f[2])
                if got[0] >= len(ports):
                    return where + "message to an unknown port " + tok
            if ideal.ambiguous:
                # only the clauses that do not depend on who learned what
                if got is not None:
                    t, mn, mx, _ = ports[got[0]]
                    v = Fraction(int(got[2])) if got[1] == "i" else f32(int(got[2], 16))
                    if got[1] not in t or v < mn or v > mx:
                        return where + "message outside the port's type/range: " + tok
                continue
            if exp is None:
                if got is not None:
                    return where + "the controller is not assigned, yet a message was sent: " + tok
                continue
            a, k, other = exp
            if got is None:
                return where + "the controller is assigned to p%d (%s) but no message was sent" % (a, "coarse" if k else "fine")
            if got[0] != a:
                return where + "the controller is assigned to p%d but drove p%d" % (a, got[0])
            bad = check_value(ports[a], k, o[2], other, got[1], got[2])
            if bad:
                return where + bad
            if other is not None:
                x = (o[2] << 7) | other if k else (other << 7) | o[2]
                v = Fraction(int(got[2])) if got[1] == "i" else f32(int(got[2], 16))
                for (x0, v0) in seen.get(a, []):
                    if (x0 <= x and v0 > v) or (x0 >= x and v0 < v):
                        return where + "not monotone: 14-bit %d -> %s but %d -> %s" % (x0, float(v0), x, float(v))
                seen.setdefault(a, []).append((x, v))
    return None


# ---------------------------------------------------------------------------------------------
# known findings: trigger predicates are evaluated by the compiled Lean model (driver `T` lines)
# ---------------------------------------------------------------------------------------------
def _ask(lines):
    """one run of the compiled model over a few lines (Driver.Common flushes only at exit, so a
    persistent pipe is not possible)"""
    exe = os.path.join(VERIF, "lean", ".lake", "build", "bin", "drv_midi")
    p = subprocess.run([exe], input="\n".join(lines) + "\n", stdout=subprocess.PIPE, text=True, timeout=60)
    return p.stdout.split("\n")


def _value_close(port, a, b):
    """two printed messages `p<k>:<t>:<v>`: same address, same type, values within the tolerance the
    oracle grants (float: 4 ulp of the range's magnitude, int: 1)"""
    fa, fb = a.split(":"), b.split(":")
    if len(fa) != 3 or len(fb) != 3 or fa[:2] != fb[:2]:
        return False
    try:
        if fa[1] == "i":
            return abs(int(fa[2]) - int(fb[2])) <= 1
        if fa[1] == "f":
            tol = Fraction(4, 2 ** 24) * max(abs(port[1]), abs(port[2]), Fraction(1, 1024))
            return abs(f32(int(fa[2], 16)) - f32(int(fb[2], 16))) <= tol
    except (ValueError, OverflowError, struct.error):
        return False
    return False


def same_structure(ports, impl_out, model_out):
    """the implementation did what the defect-mirroring model predicts, up to the value tolerance of the
    statement: the same number of outputs, every output the same messages to the same addresses with the same
    types (the sanitizer's diagnosis of a crash is not predicted: any crash report matches `crash`)"""
    if impl_out == model_out:
        return True
    if impl_out.startswith("crash") or model_out.startswith("crash"):
        return impl_out.startswith("crash") and model_out.startswith("crash")
    ta, tb = impl_out.split(), model_out.split()
    if len(ta) != len(tb):
        return False
    for x, y in zip(ta, tb):
        if x == y:
            continue
        if x == "-" or y == "-" or x.startswith("X") or y.startswith("X"):
            return False
        ma, mb = x.split("+"), y.split("+")
        if len(ma) != len(mb):
            return False
        for a, b in zip(ma, mb):
            if a == b:
                continue
            k = a.split(":")[0]
            if not (k.startswith("p") and k[1:].isdigit() and int(k[1:]) < len(ports)):
                return False
            if not _value_close(ports[int(k[1:])], a, b):
                return False
    return True


def known(op, impl_out, model_out, defs):
    """An input is attributed to a known finding only if (1) the finding's trigger predicate holds for the
    history (evaluated by the compiled Lean model), (2) the implementation's output has the structure the
    defect-mirroring model predicts (same messages, addresses, types; values within the statement's tolerance),
    and (3) the part of the history IN FRONT OF the first hazard step, on which the defect cannot have acted
    yet, satisfies the property on the implementation's own output."""
    ids = {d.get("id"): d for d in defs}
    if not ids:
        return None
    p = parse(op)
    if p is None:
        return None
    try:
        r = _ask(["T " + op, op])
        trig = r[0]
        if model_out is None:
            model_out = r[1]
    except Exception:
        return None
    k1 = "K1=1" in trig
    k2 = "K2=1" in trig
    if not (k1 or k2):
        return None
    if not same_structure(p[0], impl_out, model_out):
        return None
    at = [t for t in trig.split() if t.startswith("at=")]
    if at and not impl_out.startswith("crash"):
        w = op.split()
        pre = w[:1 + int(at[0][3:])]
        ncc = sum(1 for t in pre[1:] if t.startswith("c:"))
        pre_out = " ".join(impl_out.split()[:ncc]) if ncc else "."
        if oracle(" ".join(pre), pre_out) is not None:
            return None
    if k2 and "C20-K2" in ids:
        return "C20-K2"
    if k1 and "C20-K1" in ids:
        return "C20-K1"
    return None


# ---------------------------------------------------------------------------------------------
# generators
# ---------------------------------------------------------------------------------------------
# int ranges have integral bounds (multiples of 8 eighths): the statement speaks of "int and float ranges",
# an int parameter whose metadata give a fractional minimum has no int range (see ASSUMPTIONS)
RANGES_I = [(0, 1016), (0, 1016), (0, 800), (-512, 504), (0, 8), (-8000, 8000), (8, 8), (0, 131064), (-24, 40),
            (0, 9000), (8192, 16384), (8, 1016), (512, 1016), (-1016, 1016), (0, 1008), (0, 1024), (0, 0),
            (-1016, 0), (0, 2040), (800, 8000)]
RANGES_F = [(0, 8), (-8, 8), (0, 1016), (-3, 5), (1, 801), (-80000, 80000), (4, 4), (0, 1), (-1000001, 1000003),
            (8388600, 8388607), (-7, -1), (160, 160000), (512, 1016)]
SIG_WEIGHTS = [("i", 28), ("f", 28), ("I", 13), ("F", 13), ("j", 9), ("g", 9)]
PADS = [0, 1, 5, 12, 17, 18, 19, 20, 21, 22, 23, 24, 25, 26, 27, 28, 29, 36, 44, 52, 60]
LIM = 1048575       # |bound| of a random range, in units


def rand_int_range(rng):
    r = rng.random()
    if r < 0.25:                                   # upper bound 127 (the special case's neighbourhood)
        lo, hi = rng.choice([0, 1, -1, 64, -127, -128, 126, 127, rng.randint(-300, 127)]), 127
    elif r < 0.35:                                 # lower bound 0
        lo, hi = 0, rng.choice([1, 2, 126, 128, 255, 16383, 16384, rng.randint(1, LIM)])
    else:
        lo = rng.choice([0, 1, -1, 64, -64, rng.randint(-1000, 1000), rng.randint(-LIM, LIM)])
        hi = lo + rng.choice([0, 1, 2, 7, 126, 127, 128, 1000, 16383, 16384, rng.randint(1, 200000)])
    lo, hi = max(-LIM, min(LIM, lo)), max(-LIM, min(LIM, hi))
    return 8 * min(lo, hi), 8 * max(lo, hi)


def rand_float_range(rng):
    lo = rng.choice([0, 8, -8, rng.randint(-100, 100), rng.randint(-8000, 8000), rng.randint(-8000000, 8000000)])
    hi = lo + rng.choice([0, 1, 8, 1016, rng.randint(1, 100), rng.randint(1, 100000), rng.randint(1, 8000000)])
    return lo, min(hi, 8388607)


def gen_port(rng, stats=None):
    x = rng.randrange(100)
    for sig, wgt in SIG_WEIGHTS:
        if x < wgt:
            break
        x -= wgt
    if "i" in SIGS[sig]:
        table = rng.random() < 0.65
        mn, mx = rng.choice(RANGES_I) if table else rand_int_range(rng)
    else:
        table = rng.random() < 0.65
        mn, mx = rng.choice(RANGES_F) if table else rand_float_range(rng)
    flags = ""
    if rng.random() < 0.45:
        flags = "".join(c for c in "dpLsul" if rng.random() < 0.3)
        if "L" in flags and "l" in flags:
            flags = flags.replace(rng.choice("Ll"), "")
    spec = "%s%s:%d:%d" % (sig, flags, mn, mx)
    shape = None
    if rng.random() < 0.45:
        shape = (rng.choice([0, 0, 1, 2, 3]), rng.choice(PADS) if rng.random() < 0.8 else rng.randint(0, 60))
        spec += ":%d.%d" % shape
    if stats is not None:
        stats["sig_" + sig] = stats.get("sig_" + sig, 0) + 1
        stats["range_random"] = stats.get("range_random", 0) + (0 if table else 1)
        stats["int_max127_min_nonzero"] = stats.get("int_max127_min_nonzero", 0) + (
            1 if "i" in SIGS[sig] and mx == 1016 and mn != 0 else 0)
        stats["with_extra_metadata"] = stats.get("with_extra_metadata", 0) + (1 if flags else 0)
        stats["scale_logarithmic"] = stats.get("scale_logarithmic", 0) + (1 if "L" in flags else 0)
        if shape:
            stats["nested_address"] = stats.get("nested_address", 0) + (1 if shape[0] else 0)
            alen = 1 + 3 * shape[0] + 2 + shape[1]
            stats["address_len_ge_24"] = stats.get("address_len_ge_24", 0) + (1 if alen >= 24 else 0)
        stats["ports"] = stats.get("ports", 0) + 1
    return spec


PORT_STATS = {}


def gen_ports(rng):
    n = rng.randint(2, 4)
    return n, "P:" + ",".join(gen_port(rng, PORT_STATS) for _ in range(n))


def gen_ctrls(rng):
    n = rng.randint(2, 6)
    out = set()
    while len(out) < n:
        r = rng.random()
        if r < 0.7:
            out.add((rng.choice([0, 1, 5, 7, 64, 127]), 1, 0))
        elif r < 0.9:
            out.add((rng.randint(0, 127), rng.choice([0, 1, 2, 16, 17]), 0))
        else:
            out.add((rng.randint(0, 16383), rng.randint(1, 16), 1))
    return sorted(out)


def cc_tok(c, v):
    par, ch, nr = c
    if ch == 1 and nr == 0:
        return "c:%d:%d" % (par, v)
    return "c:%d:%d:%d:%d" % (par, v, ch, nr)


VALS = [0, 1, 2, 63, 64, 100, 126, 127]


def rval(rng):
    return rng.choice(VALS) if rng.random() < 0.6 else rng.randint(0, 127)


def probe(rng, ctrls):
    """drain both channels, then let every controller speak (twice, increasing)"""
    t = ["r", "r", "n", "r", "r", "n", "r", "n", "r", "r"]
    for c in ctrls:
        a, b = sorted((rval(rng), rval(rng)))
        t += [cc_tok(c, a), cc_tok(c, b)]
    return t


def api_op(rng, nports, ctrls, p_clear, p_unmap):
    r = rng.random()
    if r < p_clear:
        return "x"
    if r < p_clear + p_unmap:
        return "u%d%s" % (rng.randrange(nports), rng.choice("ccf"))
    if r < p_clear + p_unmap + 0.3:
        return "m%d%s" % (rng.randrange(nports), rng.choice("cccf"))
    return cc_tok(rng.choice(ctrls), rval(rng))


def gen_sync(rng, with_clear):
    nports, ptok = gen_ports(rng)
    ctrls = gen_ctrls(rng)
    t = [ptok]
    for _ in range(rng.randint(6, 18)):
        t.append(api_op(rng, nports, ctrls, 0.04 if with_clear else 0.0, 0.12))
        t += ["r", "r", "n", "r"]
    return " ".join(t + probe(rng, ctrls))


def gen_random(rng, with_clear, p_deliver):
    nports, ptok = gen_ports(rng)
    ctrls = gen_ctrls(rng)
    t = [ptok]
    for _ in range(rng.randint(10, 45)):
        if rng.random() < p_deliver:
            t.append(rng.choice("rrrn"))
        else:
            t.append(api_op(rng, nports, ctrls, 0.03 if with_clear else 0.0, 0.10))
    return " ".join(t + probe(rng, ctrls))


def gen_learn_heavy(rng):
    """several addresses queued at once, coarse and fine, controllers arriving in bursts"""
    nports, ptok = gen_ports(rng)
    ctrls = gen_ctrls(rng)
    t = [ptok]
    for _ in range(rng.randint(2, 4)):
        for _ in range(rng.randint(1, 4)):
            t.append("m%d%s" % (rng.randrange(nports), rng.choice("ccf")))
        t += ["r"] * rng.randint(0, 5)
        for _ in range(rng.randint(1, 5)):
            t.append(cc_tok(rng.choice(ctrls), rval(rng)))
            if rng.random() < 0.5:
                t.append(rng.choice(["n", "r", "n r"]))
        if rng.random() < 0.3:
            t.append("u%d%s" % (rng.randrange(nports), rng.choice("cf")))
    return " ".join(t + probe(rng, ctrls))


def gen_long(rng):
    """one long session: 33..45 completed learn handshakes (learn, drive, unmap or relearn), every message
    delivered before the next call so that no defect trigger fires; then a probe"""
    nports, ptok = gen_ports(rng)
    ctrls = gen_ctrls(rng)
    t = [ptok]
    for _ in range(rng.randint(33, 45)):
        a = rng.randrange(nports)
        k = rng.choice("cccf")
        c = rng.choice(ctrls)
        t += ["m%d%s" % (a, k), "r", "r", cc_tok(c, rval(rng)), "n", "r", cc_tok(c, rval(rng))]
        r = rng.random()
        if r < 0.6:
            t += ["u%d%s" % (a, k), "r"]
        elif r < 0.8:
            t += ["u%d%s" % (a, k), "r", "u%d%s" % (a, "f" if k == "c" else "c"), "r"]
        # else: the binding stays; a later cycle relearns the address or reuses the controller
    return " ".join(t + probe(rng, ctrls))


SCRIPTS = [
    ["m0c", "c:5:3", "c:5:9", "m1c", "c:7:1", "u0c", "c:5:4", "c:7:2"],
    ["m0c", "m0f", "c:5:100", "c:6:3", "c:5:101", "u0c", "c:6:5"],
    ["m0c", "m1c", "c:5:1", "c:5:2", "c:6:3", "u1c", "c:5:9", "c:6:9"],
    ["m0c", "x", "c:7:1", "m1c", "c:7:2", "c:7:3"],
    ["m1c", "c:9:1", "m0c", "u1c", "c:5:2", "c:5:3", "c:9:4"],
]
FILL = ["", "r", "n", "r r", "n r", "r n", "r r n r"]


def gen_exhaustive():
    """every assignment of a delivery word from FILL4 to every position of the short scripts
    (thorough tier): all of these delivery orders are driven, not sampled"""
    import itertools
    for s in SCRIPTS:
        for combo in itertools.product(FILL4, repeat=len(s)):
            t = ["P:i:0:1016,f:-8:8"]
            for o, f in zip(s, combo):
                t.append(o)
                if f:
                    t.append(f)
            t += ["r", "r", "n", "r", "r", "n", "r", "c:5:64", "c:6:64", "c:7:64", "c:9:64", "c:0:64"]
            yield " ".join(t)


FILL4 = ["", "r", "n", "r n"]


def gen_enumerated(rng, count):
    """delivery orders of short scripts: the word delivered after each API call is drawn from FILL;
    `count` random points of the product space (the thorough tier walks most of it)"""
    for _ in range(count):
        s = rng.choice(SCRIPTS)
        t = ["P:i:0:1016,f:-8:8" if rng.random() < 0.5 else gen_ports(rng)[1]]
        for o in s:
            t.append(o)
            f = rng.choice(FILL)
            if f:
                t.append(f)
        t += ["r", "r", "n", "r", "r", "n", "r", "c:5:64", "c:6:64", "c:7:64", "c:9:64", "c:0:64"]
        yield " ".join(t)


MALFORMED = ["P:i:0:1016:4.0 m0c", "P:i:0:1016:0.61 m0c", "P:ix:0:8 m0c", "P:i:0:8:1 m0c", "P:i:0:1016 c:5:128", "P:i:0:1016 m3c", "P: m0c", "P:q:0:8 m0c", "P:i:0:1016 c:5", "m0c r",
             "P:i:0:1016 m0", "P:i:0:99999999999 m0c"]


def generate(rng, tier, stats):
    n = 8000 if tier == "quick" else 90000
    PORT_STATS.clear()
    kinds = {"long-session": 0, "sync": 0, "sync+clear": 0, "random": 0, "random+clear": 0, "learn-heavy": 0, "enumerated": 0,
             "exhaustive-delivery-orders": 0, "malformed": 0}
    hist = {"ops_per_line": {}, "cc_ops": 0, "map_ops": 0, "unmap_ops": 0, "clear_ops": 0, "deliveries": 0,
            "lines_with_clear": 0, "lines_with_fine": 0}

    produced = []

    def account(line):
        produced.append(line)
        w = line.split()[1:]
        b = str(min(len(w) // 10 * 10, 90)) if len(w) < 100 else "100+"
        hist["ops_per_line"][b] = hist["ops_per_line"].get(b, 0) + 1
        hist["cc_ops"] += sum(1 for x in w if x[0] == "c")
        hist["map_ops"] += sum(1 for x in w if x[0] == "m")
        hist["unmap_ops"] += sum(1 for x in w if x[0] == "u")
        hist["clear_ops"] += sum(1 for x in w if x == "x")
        hist["deliveries"] += sum(1 for x in w if x in ("r", "n"))
        hist["lines_with_clear"] += 1 if "x" in w else 0
        hist["lines_with_fine"] += 1 if any(x[0] == "m" and x[-1] == "f" for x in w) else 0
        return line

    for m in MALFORMED:
        kinds["malformed"] += 1
        yield m
    if tier == "thorough":
        for l in gen_exhaustive():
            kinds["exhaustive-delivery-orders"] += 1
            yield account(l)
    for i in range(n):
        r = rng.random()
        if r < 0.02:
            kinds["long-session"] += 1
            yield account(gen_long(rng))
        elif r < 0.20:
            kinds["sync"] += 1
            yield account(gen_sync(rng, False))
        elif r < 0.27:
            kinds["sync+clear"] += 1
            yield account(gen_sync(rng, True))
        elif r < 0.55:
            kinds["random"] += 1
            yield account(gen_random(rng, False, rng.choice([0.3, 0.5, 0.7])))
        elif r < 0.65:
            kinds["random+clear"] += 1
            yield account(gen_random(rng, True, rng.choice([0.3, 0.5, 0.7])))
        elif r < 0.85:
            kinds["learn-heavy"] += 1
            yield account(gen_learn_heavy(rng))
        else:
            kinds["enumerated"] += 1
            for l in gen_enumerated(rng, 1):
                yield account(l)
    stats.update({"streams": kinds})
    stats.update(hist)
    stats["port_tables"] = dict(PORT_STATS)
    # how many histories fire a defect trigger (evaluated by the compiled model; measured, not assumed)
    try:
        trig = []
        for i in range(0, len(produced), 20000):
            trig += [t for t in _ask(["T " + l for l in produced[i:i + 20000]]) if t]
        stats["lines_trigger_K1"] = sum(1 for t in trig if "K1=1" in t)
        stats["lines_trigger_K2"] = sum(1 for t in trig if "K2=1" in t)
        stats["lines_hazard_free"] = sum(1 for t in trig if t == "K1=0 K2=0")
    except Exception as e:      # no driver (model does not build): the distribution is simply not measured
        stats["lines_hazard_free"] = "not measured: %s" % e


def nontrivial(op):
    # cheap syntactic proxy evaluated before the outputs are known: the history learns something
    # and speaks afterwards (measured: > 95 % of such lines do drive a parameter)
    w = op.split()
    return any(x[0] == "m" for x in w[1:]) and sum(1 for x in w if x.startswith("c:")) >= 2 and "n" in w


def neighbours(op, rng):
    w = op.split()
    out = []
    for _ in range(300):
        v = list(w)
        k = rng.randrange(1, len(v))
        c = rng.random()
        if c < 0.4:
            del v[k]
        elif c < 0.7:
            v.insert(k, rng.choice(["r", "n"]))
        else:
            j = rng.randrange(1, len(v))
            v[k], v[j] = v[j], v[k]
        if len(v) > 1:
            out.append(" ".join(v))
    return out
