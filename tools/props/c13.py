"""C13 — Loading a savefile does not depend on the order of its lines."""
import os
import sys

sys.path.insert(0, os.path.dirname(os.path.dirname(os.path.abspath(__file__))))
from props import saveapps as SA  # noqa: E402
from props import c12 as C12  # noqa: E402

PROP = "C13"
ENGINE = "order"
LEAN_MODULES = ["RtoscModel.Props.C13"]
THEOREMS = [
    "Rtosc.C13.kahn_is_topological",
    "Rtosc.C13.edges_cover_dependencies",
    "Rtosc.C13.independent_lines_commute",
    "Rtosc.C13.kahn_perm_invariant_state",
    "Rtosc.C13.dependent_port_applied_first",
]
HARNESS = dict(C12.HARNESS)
STATELESS = True
RULE = ("every savefile of C12's state space (six generated applications x states reached by random parameter "
        "messages, biased towards enabling toggles, preset ports and their dependants) is split into messages with "
        "the library's own scanner and loaded in every permutation of its messages (exhaustive up to 6 messages = "
        "up to 720 loads per case, 40..200 pseudo-random permutations beyond); non-trivial = the history has at least "
        "two messages; distinct = distinct op line")
ASSUMPTIONS = list(C12.ASSUMPTIONS) + [
    "port names in a savefile are pairwise different (save_to_file's `written` set guarantees it)",
    "the dependency metadata is acyclic",
]
TRUSTED = list(C12.TRUSTED)
LEVEL_TEXT = ("Lean theorems: Kahn's algorithm as written outputs every message once with every edge's source first "
              "(any acyclic graph); every dependence an application declares between two present lines is a path of "
              "edges found by scan_deps, also through absent ports; independent lines commute; hence for every "
              "permutation of a duplicate-free file the loaded state and count are equal. The model is compared with the "
              "implementation on all permutations of generated savefiles")
LEVEL_NOTE = "Ports::apropos enters as a hypothesis (MetaCovers) that is checked by correspondence; see C18"


def generate(rng, tier, stats):
    apps = SA.pool()
    n = 600 if tier == "quick" else 12000
    stats.update({"apps": len(apps), "hist_len": {}, "wrong_type_msgs": 0, "perm_ops": 0})
    for a in apps:
        C12.prepare(a)
    # a file holding +infinity does not scan (known finding C12-K9): it has no message lines to permute
    C12.NO_POSINF = True
    try:
        for i in range(n):
            a = apps[i % len(apps)]
            hist = C12.gen_history(rng, a, stats, 30, lens=(2, 3, 4, 5, 6, 8, 10, 12, 16, 20))
            stats["perm_ops"] += 1
            yield "perm %d %s %s %d %d" % (a.index, a.desc, hist, rng.randint(1, 2 ** 31 - 1), 40 if tier == "quick" else 200)
    finally:
        C12.NO_POSINF = False


def nontrivial(op):
    w = op.split()
    return len(w) > 3 and ";" in w[3]


def oracle(op, out):
    if out.startswith("crash") or out == "bad-op":
        return "implementation: " + out
    d = C12.parse_out(out)
    # only what the statement says: every permutation loads like the file as written (state and reported count);
    # whether that state is the saved one, and the count the number of lines, are C12's clauses
    if d.get("SAME") != "1":
        return "a permutation of the messages loads differently: permutation %s gives result %s" % (d.get("W"), out.split(" W ", 1)[-1][:300])
    return None


def neighbours(op, rng):
    return C12.neighbours(op, rng)
