"""C13 — Loading a savefile does not depend on the order of its lines."""
import os
import sys

sys.path.insert(0, os.path.dirname(os.path.dirname(os.path.abspath(__file__))))
from props import saveapps as SA  # noqa: E402
from props import c12 as C12  # noqa: E402

PROP = "C13"
ENGINE = "order"
LEAN_MODULES = ["RtoscModel.Props.C13"]
THEOREMS = [
    "Rtosc.C13.kahn_is_topological",
    "Rtosc.C13.edges_cover_dependencies",
    "Rtosc.C13.independent_lines_commute",
    "Rtosc.C13.kahn_perm_invariant_state",
    "Rtosc.C13.dependent_port_applied_first",
    "Rtosc.C13.refsOf_not_self",
    "Rtosc.C13.independent_writes_confluent",
]
HARNESS = dict(C12.HARNESS)
STATELESS = True
RULE = ("every savefile of C12's state space (seventeen generated applications x states reached by parameter messages, biased "
        "towards enabling toggles, preset ports and their dependants, walks down dependency chains that leave intermediate ports "
        "at their defaults, enable-then-set sequences; +infinity excluded: such a file does not scan, C12-K9) is split into "
        "messages with the library's own scanner and loaded in every permutation of its messages (exhaustive up to 6 messages = "
        "up to 720 loads per case, 40..200 pseudo-random permutations beyond; NaN without sign bit and rArrayOption elements "
        "outside the options excluded like +infinity: C12-K9, C12-K10); constructs: rEnabledBy on sub-trees and on "
        "parameters (naming toggles, int and option ports), rArrayOption, arrays of 128 and 256 elements, sub-trees enabled by a toggle of their own (rRecur(sub, rEnabledBy(sub/t)), rSelf(T, rEnabledBy(t))), "
        "rDefaultDepends chains up to 7 deep, rDepends on parameters and sub-trees with lists up to 16 entries, "
        "preset-dependent array defaults, ports with the enumeration inside their name, sibling names that extend each other; "
        "every load is also observed through a counting savefile_dispatcher_t: each message of the file is handed to the "
        "dispatcher exactly once in every order; "
        "plus the dependency metadata of the compiled port tables compared with the declaration; non-trivial = the history "
        "has at least two messages; distinct = distinct op line")
ASSUMPTIONS = list(C12.ASSUMPTIONS) + [
    "files the theorem quantifies over (App.FileOK): port names pairwise different (save_to_file's `written` set guarantees "
    "it), array lines stand under array ports with at most their length elements, no parameter is addressed by two lines",
    "the dependency metadata is acyclic and less than 64 levels deep (MetaRanked; the model's scan has that budget, the code none); "
    "the reference of a sub-tree's `enabled by` to a port of that sub-tree is not a cycle for that port itself (skipped by the "
    "scan, fixes/C13-scan-deps-self-edge); a toggle inside the sub-tree it enables that in turn depends on another port "
    "of that sub-tree would be one",
    "'declared dependency' is what scan_deps' own path arithmetic (levels, rel2abs, entry splitting) makes of the metadata: "
    "MetaCovers relates the application's dependence relation to refsOf, which is built from the same functions; a defect in "
    "them makes MetaCovers false for the application (it is evaluated per application on every run), not the theorem false",
]
TRUSTED = list(C12.TRUSTED)
LEVEL_TEXT = ("Lean theorems: Kahn's algorithm as written outputs every message once with every edge's source first "
              "(any acyclic graph); for applications satisfying App.WF (any acyclic, transitively closed dependency order; "
              "array elements with constant or preset-dependent defaults), MetaCovers and MetaRanked: "
              "every dependence the application declares between two present lines is a path of edges found by scan_deps, also "
              "through absent ports; writes to independent ports are confluent, also when the ports share dependants (a shared "
              "dependant takes its default from the final state in both orders), so independent lines commute; hence for "
              "every permutation of a file satisfying FileOK the "
              "loaded state and count are equal (the count clause is trivial: it is the number of lines). The hypotheses hold "
              "for all seventeen generated applications (evaluated on every run; among them the three with sub-trees "
              "enabled by a toggle of their own: refsOf reads the `self:` port of every level's table and a path does not "
              "refer to itself, as in the repaired scan_deps - and the five with rDepends lists naming mutually independent "
              "ports or preset-dependent array defaults); all seventeen are compared with the "
              "implementation on all permutations of generated savefiles")
LEVEL_NOTE = ("the port lookup of scan_deps (Ports::apropos / port_of_path) enters as a hypothesis (MetaCovers) that is checked "
              "per application and by correspondence; see C18. The application's behaviour (change hooks re-apply the defaults "
              "of all dependants in dependency order, App.setParam) is the modelled precondition of the property, tied to the "
              "generated applications by correspondence only")

def generate(rng, tier, stats):
    apps = SA.pool()
    n = 600 if tier == "quick" else 12000
    stats.update({"apps": len(apps), "hist_len": {}, "wrong_type_msgs": 0, "perm_ops": 0})
    for a in apps:
        C12.prepare(a)
    stats["theorem_hypotheses_per_app"] = C12.hypotheses_report(apps)
    # a file holding +infinity does not scan (known finding C12-K9): it has no message lines to permute
    C12.NO_POSINF = True
    sched = C12.schedule(apps)
    try:
        for a in apps:
            yield "meta %d %s - - -" % (a.index, a.desc)      # the compiled dependency metadata is the declared one
        for i in range(n):
            a = sched[i % len(sched)]
            hist = C12.gen_history(rng, a, stats, 30, lens=(2, 3, 4, 5, 6, 8, 10, 12, 16, 20))
            stats["perm_ops"] += 1
            yield "perm %d %s %s %d %d" % (a.index, a.desc, hist, rng.randint(1, 2 ** 31 - 1), 40 if tier == "quick" else 200)
    finally:
        C12.NO_POSINF = False


def nontrivial(op):
    w = op.split()
    return len(w) > 3 and ";" in w[3]


def oracle(op, out):
    if out.startswith("crash") or out == "bad-op":
        return "implementation: " + out
    if op.startswith("meta "):
        return C12.oracle(op, out)
    d = C12.parse_out(out)
    # only what the statement says: every permutation loads like the file as written (state and reported count);
    # whether that state is the saved one, and the count the number of lines, are C12's clauses
    # "a port that another port refers to is always applied before the dependent port": in particular every message
    # of the file is applied, in every order (observed by counting what load_from_file hands to its dispatcher)
    if d.get("A") != "1" and d.get("R") != "neg":
        return "a load reported %s messages but did not apply every message of the file (%s messages)" % (d.get("R"), d.get("N"))
    if d.get("SAME") != "1":
        return "a permutation of the messages loads differently: permutation %s gives result %s" % (d.get("W"), out.split(" W ", 1)[-1][:300])
    return None


def neighbours(op, rng):
    return C12.neighbours(op, rng)
