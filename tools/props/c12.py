"""C12 — Savefiles restore the saved state and contain only differences from defaults."""
import os
import random
import re
import sys

sys.path.insert(0, os.path.dirname(os.path.dirname(os.path.abspath(__file__))))
from props import saveapps as SA  # noqa: E402

PROP = "C12"
ENGINE = "save"
LEAN_MODULES = ["RtoscModel.Props.C12", "RtoscModel.Props.C12Text"]
THEOREMS = [
    "Rtosc.C12.load_save_restores",
    "Rtosc.C12.load_counts_lines",
    "Rtosc.C12.saved_iff_differs",
    "Rtosc.C12.saved_iff_differs_array",
    "Rtosc.C12.saved_value",
    "Rtosc.C12.saved_value_array",
    "Rtosc.C12.untouched_saves_header_only",
    "Rtosc.C12.rejects_bad_header",
    "Rtosc.C12.rejects_other_app",
    "Rtosc.C12.rejects_unparsable",
    "Rtosc.C12.rejects_unmatched",
    "Rtosc.C12.load_save_restores_partial",
    "Rtosc.C12.load_save_restores_scanned_partial",
    "Rtosc.C12.posinf_not_restored_counterexample",
    "Rtosc.C12.nan_not_restored_counterexample",
    "Rtosc.C12.mixed_option_array_not_restored_counterexample",
    "Rtosc.C12.hypotheses_cover_shared_dependants_and_preset_arrays",
    # text level (RtoscModel/Props/C12Text.lean): C10's round trip as the lemma for the file text
    "Rtosc.C12.saved_line_scans_back",
    "Rtosc.C12.saved_line_roundtrip",
    "Rtosc.C12.saved_lines_textOK",
    "Rtosc.C12.valTextOK_by_kind",
    "Rtosc.C12.load_text_of_save_text",
    "Rtosc.C12.load_save_restores_text_partial",
    "Rtosc.C12.load_save_restores_text_ports",
    "Rtosc.C12.untouched_text_is_header",
    "Rtosc.C12.posinf_text_counterexample",
    "Rtosc.C12.nan_text_counterexample",
    # array lines with compressed runs: which arrays are covered (ArrCutOK), from the values
    "Rtosc.C12.array_line_decided",
    "Rtosc.C12.array_line_no_long_run",
    "Rtosc.C12.array_line_constant",
    "Rtosc.C12.array_line_arithmetic",
    "Rtosc.C12.array_cut_extends",
    "Rtosc.C12.array_line_floats",
    "Rtosc.C12.array_line_toggles",
    "Rtosc.C12.array_line_strings",
    "Rtosc.C12.array_line_symbols",
    "Rtosc.C12.float_array_port_ok",
    "Rtosc.C12.toggle_array_port_ok",
    "Rtosc.C12.runs_lines_ok",
]
VERIF = os.path.dirname(os.path.dirname(os.path.dirname(os.path.abspath(__file__))))
# the application pool is fixed (seeded by constants): regenerate the C++ when the generator changes
SA.write_if_changed(os.path.join(VERIF, "harness", "save_apps.inc"), SA.cxx_source())
HARNESS = {"src": ["save.cpp"], "deps": ["common.h", "save_apps.inc"], "cxxflags": ["-O0", "-g0"]}
STATELESS = True
RULE = ("seventeen generated applications (fixed pool; 10-80 parameter instances each, one with 387: a 128- and a 256-element "
        "array; rParam/rParamI/rParamF/rToggle/"
        "rOption/rString (capacities 4..400), rArrayI/F/T/rArrayOption (2..14, 128, 256 elements; defaults spelled element by "
        "element, as repetitions `6x7` / `128x7` / `3xsine`, as ranges `1 ... 5`, or per preset; option elements by symbol or "
        "by int), ports with the enumeration inside their name (`v#3/en`), rRecur/rRecurs/"
        "rRecurp and enumerated pointer sub-trees, rEnabledBy on sub-trees and on parameters - naming a toggle, an rParamI "
        "or an rOption port (enabled = non-zero) -, sub-trees enabled by a toggle of "
        "their own - rRecur(sub, rEnabledBy(sub/t)) and rSelf(T, rEnabledBy(t)), enabling ports on or off by default, nested - "
        "rDefaultDepends+rPreset(s) "
        "(chains up to 7 deep, lists up to 16 entries), rDepends on parameters and on sub-trees (lists up to 16 entries), "
        "rOptions up to 16 entries, sibling names that extend each other) x states reached by 0..40 parameter messages "
        "(in-range, out-of-range, extreme values incl. +-infinity and quiet NaNs, symbols - also unknown ones - and ints for "
        "options, strings "
        "with quotes/newlines/'%' up to the capacity and beyond, messages into disabled sub-trees, wrong-typed messages, "
        "messages with more arguments than the port reads, "
        "whole-array runs, single array elements - in the long arrays at indices 99..255 -, walks down a dependency chain, "
        "enable-then-set and enable-set-disable-enable with every kind of enabling port); per state: save, scan the "
        "file with the library's scanner, load into a fresh instance; plus damaged files (a token of the two header lines "
        "deleted or edited generically - characters dropped/doubled/changed, case, signs and leading zeros in numbers, white "
        "space inside, foreign words: edits that make the header wrong and edits sscanf forgives; versions, application name, "
        "unparsable message, unmatched / wrong-typed / argument-less / multi-argument message "
        "at every position) and the dependency metadata of the compiled port tables compared with the declaration. "
        "The model saves and loads the state the implementation dumped before saving (the dump is input, not an observable). "
        "Non-trivial = history with at least one message; distinct = distinct op line")
ASSUMPTIONS = [
    "applications re-apply the defaults of every dependant when a port changes (rChangeCb), and keep disabled "
    "sub-trees and disabled parameters at their defaults (doc/Guide.adoc: a sub-tree is disabled 'if you know that the subtree "
    "has not yet been changed'); a write to a disabled parameter is ignored",
    "state = values of the parameters in enabled sub-trees (what the walk with a runtime object visits); a parameter with its "
    "own rEnabledBy is modelled as a one-port sub-tree and has a constant default (the walk does not skip such a port when "
    "it is off, but then it holds its default: no line either way)",
    "hypotheses of the theorems (App.WF, App.MetaCovers, MetaRanked - RtoscModel/Save/Spec.lean), beyond the obvious "
    "(distinct addresses, storable defaults): the dependency order is a finite strict partial order (WF.anc_lt, anc_closed: "
    "acyclic and transitively closed; two independent ports may share dependants - the former chain condition anc_chain is "
    "no longer a hypothesis: independent writes are proved confluent, C13.independent_writes_confluent); WF.array_ok - the "
    "elements of a `name#N` array share guards and ancestors and nothing depends on them (their defaults may be constant or "
    "selected per element by a preset port; the model holds one default value per element - how the metadata spells them, "
    "element by element, `6x7` or `1 ... 5`, is the scanner's matter and enters through the correspondence); MetaCovers - every dependence of the application is "
    "declared in the metadata scan_deps reads (rDefaultDepends / rDepends / rEnabledBy reach every ancestor, directly or "
    "through another ancestor); MetaRanked - that metadata is acyclic and less than 64 levels deep. Bool versions of these "
    "hypotheses (all clauses of WF except kind_ok - option names distinct, float bounds ordered, char bounds in range - and "
    "walk_tiles - the walk visits every instance once -, which the driver does not print) are evaluated by the compiled "
    "model for every application of the pool on every run (evidence: input_distribution.theorem_hypotheses_per_app): they "
    "hold for all seventeen applications A0-A16 (the driver still prints the retired clauses anc_chain and constant-array-"
    "defaults `array_ok` for information: A6-A9 violate the former, A9/A10 the latter; the array clause in force is printed "
    "as `array_shape`)",
    "an enabling port (rEnabledBy) is a toggle or an int-replying port (rParamI, rOption): port_is_enabled takes `T` or a "
    "non-zero `i` for 'enabled' (App.enabledVal); the application allocates / shows the sub-tree or parameter under the same "
    "condition and re-initialises it whenever the enabling port is written (toggles: whenever it changes)",
    "a toggle that enables the sub-tree it lives in (rRecur(sub, rEnabledBy(sub/t)) / rSelf(T, rEnabledBy(t))) is modelled "
    "like a toggle of the parent table: it guards every other parameter of the sub-tree; it has a constant default and "
    "is not itself a preset port, an rDepends entry or the enabling port of anything else; switching it re-initialises the "
    "sub-tree (rChangeCb); no pointer sub-trees below such a sub-tree; the `sub/t` form is used with plain rRecur only "
    "(port_is_enabled compares names up to the first '/': `sub#N/` cannot be written that way); fixes/C13-scan-deps-self-edge "
    "and fixes/C13-scan-deps-self-port applied (without them files of A11-A13 do not load: C13-F26, C13-F27)",
    "preset ports are int/option ports at the level of the dependant (get_default_value dispatches the depended "
    "port on the dependant's own Ports); every preset table has an rDefault fall-back",
    "no -0.0 float values (the comparison with the default is numeric) and no signalling or payload-carrying NaNs (a NaN "
    "is written `nan` / `-nan`: the payload is lost; the harness' variadic message construction quiets a signalling NaN); "
    "+infinity and the quiet NaNs 7fc00000 / ffc00000 are generated: `-inf (-inf)` and `-nan (-nan)` load back, +infinity "
    "and the NaN without sign bit fail: known finding C12-K9 (printed `inf (inf)` / `nan (nan)`, which does not scan back)",
    "an rArrayOption port whose elements hold an option's index in one place and another int in another is written with "
    "symbols and ints mixed, which does not scan back: known finding C12-K10 (generated; trigger hasMixedArray)",
    "a line a port accepts: rtosc_match_args accepts a message whose type string is one of the alternatives of the port's "
    "argument specification or STARTS with the last one - `/p 1 2` for `p::i` is accepted, the callback reads argument 0 "
    "(App.lastAlt, App.dispatch); such a line is not 'a line no port accepts'",
    "the pre-save state is taken from the implementation's own dump (parameters of enabled sub-trees; hidden ones at their "
    "fresh values): how the callbacks bring a state about is C14's matter; where the model's own run of the history reaches "
    "another state this is counted (input_distribution.history_state_differs_from_model), not reported",
    "array element addresses are spelled canonically (decimal, no leading zeros, < 2^31): rtosc_match_number also takes "
    "`/arr01` or an index that wraps, the model's address lookup does not (never generated, never written by save_to_file)",
    "a wrong header is one the two sscanf formats of load_from_file do not read to their end, a version component above "
    "255, or another application's name (oracle: tools/props/c12.py wrong_header, a regular expression for the two formats; "
    "model: RtoscModel/Save/Text.lean parseHeader run by the driver on the damaged header text); what sscanf forgives (any "
    "amount of white space, also none, between the tokens; a sign or leading zeros in a number; text behind the last "
    "conversion of the second line, which is then read as a comment, as a message of its own, or as garbage) is not 'a wrong "
    "header'; a version number of 2^32 or more wraps in the code and not in the model (not generated)",
    "text level: the application name is a word of at most 127 one-byte characters without white space (what `%127s` reads "
    "back; NameTextOK); port addresses start with '/', consist of one-byte characters without white space and are shorter than "
    "8190 characters (AddrTextOK; the port name buffer of dispatch_printed_messages has 8192); the printer's 8192-byte buffer "
    "is large enough (C10's printer model has no buffer bound: rString capacities of the pool stay far below); an array line "
    "is covered when the printer cuts its elements into plain values, constant runs and int32 arithmetic runs (ArrCutOK: the "
    "answers of the model of rtosc_convert_to_range on the elements left in the array; decidable per array: arrCutB); the "
    "dispatch loop's expansion of the scanned repetition/range blocks is C16's model of rtosc_arg_val_itr",
    "prerequisite fixes of other properties applied: fixes/C10-02 (the scanner took \"-16 -68\" for a date), "
    "fixes/C10-14 (a char parameter holding NUL was printed as a raw NUL); found through C12's generators",
]
TRUSTED = ["hand-written abstract model RtoscModel/Save/{App,Deps,Load,Save}.lean of get_changed_values, get_default_value, "
           "canonicalize_arg_vals/map_arg_vals, first_equal_index, scan_deps, dispatch_printed_messages, save_to_file, load_from_file",
           "RtoscModel/Save/Apropos.lean (Ports::apropos and port_of_path on generated names; not covered by theorems)",
           "the generated applications harness/save_apps.inc and their descriptor (tools/props/saveapps.py); the dependency "
           "metadata of the descriptor is compared with the compiled port tables on every run (op `meta`)",
           "text stages: RtoscModel/Save/Text.lean composes C10's models of rtosc_print_message (default print options, as "
           "get_changed_values calls rtosc_print_arg_vals), rtosc_count_printed_arg_vals_of_msg and rtosc_scan_message, and C16's "
           "model of rtosc_arg_val_itr, into save_to_file / load_from_file on file text; the two header sscanf calls are "
           "transcribed by hand there (the driver runs this transcription on every damaged header of the `tok` cases). The "
           "composition of the message stages is NOT part of "
           "the compiled driver (drv_save compares abstract lines); it is compared on EVERY run of the check (c12.text_level: "
           "`lake env lean --run Driver/SaveTextCheck.lean` on the first 400 (quick) / 4000 (thorough) `sl` cases of the run) "
           "with the compiled library: the text save_to_file returns has to be App.saveText byte for byte, and App.loadText of "
           "that text has to have the verdict of the compiled load_from_file (same return value and fields, or both reject - "
           "the C12-K9 / K10 files); a disagreement is a correspondence disagreement (` TEXT-MISMATCH` on the model's line), "
           "counts under input_distribution.text_level of the evidence",
           "message encoding (C01), dispatch (C04), callbacks (C14), argument comparison (C16) enter only through the "
           "correspondence"]
LEVEL_TEXT = ("Lean theorems over the abstract application model, for every application satisfying App.WF (any acyclic, "
              "transitively closed dependency order - independent ports may share dependants; array elements with constant or "
              "preset-dependent defaults; see assumptions), App.MetaCovers and MetaRanked, and every reachable state: "
              "load(save s) restores s and "
              "counts the lines, a line is present iff the value differs from its preset-dependent default (an array line "
              "carries the elements up to the last one that differs from its default as the line spells it - map_arg_vals "
              "runs before first_equal_index, so an rArrayOption element holding an option's index is always written: "
              "saved_value_array), damaged files are "
              "rejected; enabling ports are toggles or int / option ports (enabled = `T` or a non-zero int, App.enabledVal); a "
              "message with more arguments than the port reads is dispatched when rtosc_match_args accepts it (App.lastAlt); "
              "the hypotheses are evaluated (as Bools) for each generated application on every run and hold for all "
              "seventeen (hypotheses_cover_shared_dependants_and_preset_arrays: a concrete application with a shared dependant "
              "and a preset-dependent array satisfies them); all seventeen are compared, model against compiled implementation "
              "built from the real macros, and the property is evaluated directly on the implementation's output. "
              "Text level (Props/C12Text.lean, with C10's printer/checker/scanner theorems as lemmas): for every state whose "
              "saved lines are covered (LineTextOK), load_from_file applied to the TEXT save_to_file returns - header lines, "
              "then per message rtosc_count_printed_arg_vals_of_msg / rtosc_scan_message inside the file, i.e. behind the "
              "header's newline and in front of the next message - is App.loadFile on the abstract file "
              "(load_text_of_save_text), hence restores the state and counts the lines (load_save_restores_text_partial); "
              "a covered line read back at any position of a file gives its address and values (saved_line_scans_back). "
              "Covered: scalar ports of every kind - rParamI (every int32), rParam char (NUL, 7..13, 32..126), rParamF "
              "(every finite float, lossless spelling), rToggle, rOption (symbols of printable characters, or ints), rString "
              "(printable bytes and C escapes: quotes, backslashes, '%', tabs, newlines with continuation lines) - and array "
              "lines of ANY length of such values (one type per array) whose elements the printer cuts into plain values, "
              "constant runs of five or more equal values (`[5x7]`, `[6x0.50 (0x1p-1)]`, `[5xtrue 6xfalse]`; ints, chars, "
              "floats, toggles, option symbols, strings) and int32 arithmetic runs of five or more values (`[1 ... 6]`, "
              "`[3 5 ... 13]`), in any number and order (hypothesis ArrCutOK: at every segment start "
              "rtosc_convert_to_range, called on the elements left in the array as the printer's array loop does, answers "
              "nothing / the whole constant run / the whole int32 run, the run within C10's overflow guards RunHyp). The "
              "scanner returns repetition and range blocks for such a line; the theorems include their expansion by the "
              "rtosc_arg_val_itr loop of dispatch_printed_messages (C16's iterator model, C16's bridge lemmas), so "
              "saved_line_scans_back, load_text_of_save_text, load_save_restores_text_partial and "
              "load_save_restores_text_ports hold for these lines with unchanged statements (LineTextOK widened; "
              "C10's printLoop_asegs / scanArgVal_arrSegs / skipNext_arrSegs are the lemmas for the text stages). "
              "ArrCutOK is decided for a concrete array by arrCutB (array_line_decided: it runs the model of "
              "rtosc_convert_to_range on the elements and checks every answer) and derived from the values for arrays of "
              "any length: array_line_constant (n >= 5 equal covered values, n < 2^31), array_line_arithmetic (one int32 "
              "run), array_cut_extends (a value in front of fewer than five cells of its type / a constant run in front of a "
              "non-identical value / an int32 run in front of a value that does not continue it extends a covered rest), "
              "array_line_no_long_run (the former clause, no five consecutive elements of one type tag, is an instance). "
              "For four kinds the hypothesis is discharged for EVERY array, any length below 2^31 and any content: "
              "array_line_floats (finite floats: rtosc_convert_to_range makes no arithmetic run of floats, the segments are "
              "the maximal runs of five or more bit-identical values and plain values - closed form cutC), "
              "array_line_toggles, array_line_strings, array_line_symbols (option symbols); float_array_port_ok / "
              "toggle_array_port_ok reduce the port condition ItemTextOK of load_save_restores_text_ports for rArrayF / "
              "rArrayT ports to 'text address, finite elements'. "
              "Non-vacuity: a well-formed application with an array port whose file `/a [5x7 1]` is loaded back "
              "(runs_lines_ok and the example behind it)")
LEVEL_NOTE = ("partial: the theorems about presence, rejection and ordering are about abstract lines; the text level "
              "(load_save_restores_text_partial) is proved for the value classes listed above and is open for: array lines "
              "in which rtosc_convert_to_range gives an answer outside C10's run segments - an arithmetic run of five or "
              "more chars inside an array (`['a' ... 'f']`; C10's run segments RSeg are int32 only; arrays of 'h' values and "
              "nested arrays do not occur in savefiles) or an int32 run that fails a guard of C10's RunHyp (none is known: "
              "the printer's own overflow guards are expected to imply them, which is not proved); for int and char "
              "arrays the hypothesis ArrCutOK is stated through the model of rtosc_convert_to_range: a closed-form description "
              "of its answers on arbitrary int32 values (a total 'every int array is covered' theorem, as proved for float, "
              "toggle, string and symbol arrays) is not proved - only the decision procedure arrCutB and the sufficient "
              "criteria listed above (an int in front of five or more ints that start no run, e.g. `[1 2 6x0]`, is handled by "
              "arrCutB but by no closed-form criterion; the char-run line `/a ['a' ... 'f' 'x']` does load back when the "
              "text model is evaluated - unproved, not refuted); chars "
              "1..6/14..31/127, string and symbol "
              "bytes outside 7..13/32..126, -infinity and NaN; +infinity and the NaN without sign bit are refuted (posinf_text_counterexample, "
              "nan_text_counterexample: the text "
              "model prints `/f inf (inf)` / `/f nan (nan)` and load_from_file on it returns a negative result - C12-K9, also "
              "load_save_restores_scanned_partial / posinf_not_restored_counterexample / nan_not_restored_counterexample at "
              "the abstract level: the abstract `scansBack` says which lines the unchanged text stages hand back - no float "
              "that is +infinity or a NaN without sign bit, K9, and no array mixing symbols with ints, K10, "
              "mixed_option_array_not_restored_counterexample; load_save_restores_scanned_partial is true by construction "
              "of scannedFile and only records the two triggers); rejects_unmatched speaks about a line that matches in NO "
              "state, its helper lemmas cover one-argument lines (a multi-argument line is rejected unless its first "
              "argument is of the port's last alternative: by evaluation of the model only); there is no text-level "
              "rejection theorem (the header parser parseHeader is run by the driver, not characterised by a theorem beyond "
              "parseHeader_fileTextOf); the header "
              "sscanf transcription and the composition itself (RtoscModel/Save/Text.lean) are not run by the compiled driver: "
              "they are tied to the code by C10's correspondence for the three functions they call and by a one-off comparison "
              "of file texts; message encoding, dispatch and callbacks are tied by correspondence only; several theorems (load_counts_lines, rejects_*, saved_iff_differs) "
              "restate the model's own definitions - 'default' and 'wrong header' have no specification independent of the "
              "model; the application's reaction to a change (re-applying the defaults of all dependants in dependency order, "
              "App.setParam) is the modelled precondition, tied to the generated applications by correspondence; the Bool "
              "versions of WF.kind_ok and WF.walk_tiles (App.kindOkB / App.walkTilesB in RtoscModel/Save/WfBool.lean, proved "
              "sound in Proofs/SaveWfBool.lean) are not yet printed by the driver's `wf` mode, so the per-run evidence covers "
              "the other clauses only (both were evaluated once for the first fourteen applications of the pool: they hold)")

# ------------------------------------------------------------------------------------
# histories
# ------------------------------------------------------------------------------------
STR_ALPH = b"abcXYZ 019\"\\%\n\t'#:/-_[](){}.,!?"
INT_EDGE = [0, 1, -1, 2, 3, 5, -5, 100, -100, 101, 127, 128, -128, -129, 255, 256, 1000, -1000,
            2147483647, -2147483648, 65535, 99, -99, 1024]
FLT_EDGE = [0x00000000, 0x3f800000, 0xbf800000, 0x7f7fffff, 0xff7fffff, 0x00800000, 0x00000001, 0x3eaaaaab,
            0x41200000, 0xc1200000, 0x41280000, 0x3dcccccd, 0x4b800000, 0x501502f9, 0xd01502f9]


def hmsg(addr, v):
    t = v[0]
    if t in ("i", "c"):
        return "%s~%s~%d" % (addr, t, v[1])
    if t == "f":
        return "%s~f~%08x" % (addr, v[1])
    if t in ("T", "F"):
        return "%s~%s~" % (addr, t)
    return "%s~%s~%s" % (addr, t, v[1].hex())


NO_POSINF = False      # C13 switches +infinity / NaN (C12-K9) and rArrayOption elements outside the options (C12-K10) off: a file
                       # holding them does not scan, so it has no messages to permute


def rand_msg_val(rng, it, stats):
    k = it.kind
    f = it.f
    r = rng.random()
    if r < 0.04 and not (NO_POSINF and k == "O" and it.arr is not None):
        stats["wrong_type_msgs"] += 1
        return rng.choice([("i", 3), ("f", 0x3f800000), ("T",), ("s", b"x"), ("c", 65)])
    if k in ("I", "H"):
        if rng.random() < 0.35:
            return ("i", rng.choice(INT_EDGE))
        lo = f["min"] if f["min"] is not None else -2000
        hi = f["max"] if f["max"] is not None else 2000
        return ("i", rng.randint(lo - 3, hi + 3))
    if k == "C":
        return ("c", rng.choice([0, 1, 7, 9, 10, 13, 27, 31, 32, 34, 37, 39, 64, 92, 126, 127, 128, 200, 255, -1, 300, 383, -255])
                if rng.random() < 0.3 else rng.randint(0, 127))
    if k == "F":
        if rng.random() < 0.12:
            # one or two ulps next to the declared (fresh-state) default, and values of tiny magnitude: a comparison
            # with the default that is not exact makes these vanish from the file
            d = getattr(it, "fresh", None)
            if d is not None and d[0] == "f" and rng.random() < 0.7:
                b = d[1]
                mag = b & 0x7fffffff
                step = rng.choice([1, 1, 2, -1, -1, -2])
                if mag + step > 0 and mag + step < 0x7f800000:
                    stats["near_default_floats"] = stats.get("near_default_floats", 0) + 1
                    return ("f", (b & 0x80000000) | (mag + step))
            stats["tiny_floats"] = stats.get("tiny_floats", 0) + 1
            return ("f", rng.choice([0x00000001, 0x80000001, 0x00800000, 0x80800000, 0x358637bd, 0xb58637bd, 0x33d6bf95]))
        if rng.random() < 0.3:
            return ("f", rng.choice(FLT_EDGE))
        if rng.random() < 0.05:
            # +-infinity and the quiet NaNs: `inf (inf)` and `nan (nan)` do not scan back (C12-K9), `-inf (-inf)` and
            # `-nan (-nan)` do
            stats["inf_nan_floats"] = stats.get("inf_nan_floats", 0) + 1
            if NO_POSINF:
                return ("f", rng.choice([0xff800000, 0xffc00000]))
            return ("f", rng.choice([0xff800000, 0x7f800000, 0x7f800000, 0x7fc00000, 0x7fc00000, 0xffc00000]))
        return SA.fval(rng.choice(SA.DYADIC) * rng.choice([1, 1, 1, 4, 100]))
    if k == "T":
        return SA.bval(rng.random() < 0.5)
    if k == "O":
        n = len(f["opts"])
        r = rng.random()
        if NO_POSINF and it.arr is not None:
            r *= 0.9             # (C13) no element of an rArrayOption outside the options: such a file does not scan, C12-K10
        if r < 0.45:
            return ("S", rng.choice(f["opts"]).encode())
        if r < 0.9:
            return ("i", rng.randrange(n))
        if r < 0.94:
            return ("c", rng.randrange(n))
        if r < 0.96:
            # a symbol the port does not know: enum_key gives INT_MIN, which the callback stores
            stats["unknown_symbols"] = stats.get("unknown_symbols", 0) + 1
            return ("S", rng.choice([b"zz", b"", f["opts"][0].encode() + b"x", f["opts"][-1].encode()[:-1]]))
        return ("i", rng.choice([n, n + 3, -1, 77]))
    if k == "Z":
        n = rng.choice([0, 1, 2, 3, f["len"] - 2, f["len"] - 1, f["len"], f["len"] + 5, 30, f["len"] // 2, 250, 260])
        return ("s", bytes(rng.choice(STR_ALPH) for _ in range(max(0, n))))
    raise ValueError(k)


def enable_msg(rng, it, on=True):
    """a message that switches an enabling port on (off): a toggle, or an int / option port (enabled = non-zero)"""
    if it.kind == "T":
        return hmsg(it.addr, ("T",) if on else ("F",))
    if not on:
        return hmsg(it.addr, ("i", 0))
    if it.kind == "O":
        n = len(it.f["opts"])
        k = rng.randrange(1, n) if n > 1 else 1
        return hmsg(it.addr, ("S", it.f["opts"][k].encode()) if n > 1 and rng.random() < 0.5 else ("i", k))
    lo = it.f["min"] if it.f.get("min") is not None else -50
    hi = it.f["max"] if it.f.get("max") is not None else 50
    return hmsg(it.addr, ("i", rng.choice([v for v in (lo, hi, 1, 2, -1, 3, 100, -128, 255, 256) if v != 0 and lo <= v <= hi] or [1])))


def gen_history(rng, app, stats, maxlen, lens=(0, 1, 1, 2, 3, 5, 8, 12, 20)):
    n = rng.choice(list(lens) + [maxlen])
    msgs = []
    # whole-array assignments: constant runs and arithmetic progressions (what the printer writes as `NxV` / `a b ... c`),
    # possibly behind a few unrelated leading elements
    arrays = [w for w in app.walk if w[0] == "a"]
    if arrays and n and rng.random() < 0.3:
        for _a in range(rng.choice([1, 1, 2])):
            _, base, first, cnt = rng.choice(arrays)
            els = app.insts[first:first + cnt]
            ek = els[0].kind
            lead = rng.choice([0, 0, 0, 1, 2]) if cnt > 5 else 0
            stats["array_runs"] = stats.get("array_runs", 0) + 1
            shape = rng.choice(["const", "const", "arith", "arith", "arith-"])
            f = els[0].f
            lo = f["min"] if f.get("min") is not None else -100
            hi = f["max"] if f.get("max") is not None else 100
            ai = rng.randint(lo, max(lo, hi - cnt))
            af = rng.choice(SA.DYADIC)
            ab = rng.random() < 0.5
            for k, it in enumerate(els):
                if k < lead:
                    v = rand_msg_val(rng, it, stats)
                elif ek == "H":
                    a0 = ai
                    v = ("i", a0 if shape == "const" else (a0 + (k - lead) if shape == "arith" else a0 + cnt - (k - lead)))
                elif ek == "F":
                    a0 = af
                    v = SA.fval(a0 if shape == "const" else a0 + 0.5 * (k - lead) * (1 if shape == "arith" else -1))
                elif ek == "O":
                    no = len(f["opts"])
                    j = (ai % no) if shape == "const" else (ai + k) % no
                    v = ("S", f["opts"][j].encode()) if ab else ("i", j)
                else:
                    v = SA.bval(ab)
                if cnt > 100 and k % 7 and rng.random() < 0.9 and shape != "const":
                    continue             # a very long array: a sparse selection of its elements
                msgs.append(hmsg(it.addr, v))
    if arrays and n and rng.random() < 0.2:
        # single elements of an array (not the first one): the line is cut behind the last element that differs from a
        # default which may be spelled `6x7` or `1 ... 6`
        _, base, first, cnt = rng.choice(arrays)
        stats["array_pokes"] = stats.get("array_pokes", 0) + 1
        for k in sorted(rng.sample(range(cnt), min(cnt, rng.choice([1, 1, 2, 3])))):
            it = app.insts[first + (k if rng.random() < 0.3 else max(k, cnt // 2))]
            msgs.append(hmsg(it.addr, rand_msg_val(rng, it, stats)))
        if cnt > 100:
            # element addresses of three digits, the decade and power-of-two boundaries
            stats["array_pokes_100"] = stats.get("array_pokes_100", 0) + 1
            for k in rng.sample([99, 100, 101, 109, 110, 111, 119, 120, 126, 127, cnt - 2, cnt - 1, rng.randrange(100, cnt)],
                                rng.choice([1, 2, 3])):
                if k < cnt:
                    it = app.insts[first + k]
                    msgs.append(hmsg(it.addr, rand_msg_val(rng, it, stats)))
    guarded = [x for x in app.insts if x.guards]
    if guarded and n and rng.random() < 0.2:
        # switch on what enables a parameter (sub-tree toggles, the toggle of its own rEnabledBy), then set it
        it = rng.choice(guarded)
        if rng.random() < 0.5:
            own = [x for x in guarded if x.f.get("en")]
            if own:
                it = rng.choice(own)
        stats["enable_then_set"] = stats.get("enable_then_set", 0) + 1
        for g, _p in it.guards:
            msgs.append(enable_msg(rng, app.insts[g]))
        msgs.append(hmsg(it.addr, rand_msg_val(rng, it, stats)))
        if rng.random() < 0.2:
            # ... and off again, and perhaps on once more (an int / option guard: zero, then another non-zero value)
            g = app.insts[rng.choice(it.guards)[0]]
            msgs.append(enable_msg(rng, g, on=False))
            if rng.random() < 0.5:
                msgs.append(enable_msg(rng, g))
                msgs.append(hmsg(it.addr, rand_msg_val(rng, it, stats)))
    selft = [x for x in app.insts if x.f.get("selftog")]
    if selft and n and rng.random() < 0.3:
        # a sub-tree enabled by a toggle of its own: switch it (off when it is on by default), sometimes back on, and
        # write below it
        t = rng.choice(selft)
        stats["self_toggle_walks"] = stats.get("self_toggle_walks", 0) + 1
        for g, _p in t.guards:
            msgs.append(enable_msg(rng, app.insts[g]))
        seq = rng.choice([["F"], ["T"], ["F", "T"], ["T", "F"], ["T"]])
        below = [x for x in app.insts if any(g == t.idx for g, _p in x.guards)]
        for v in seq:
            msgs.append(hmsg(t.addr, (v,)))
            for _ in range(rng.choice([0, 1, 2])):
                if below:
                    x = rng.choice(below)
                    msgs.append(hmsg(x.addr, rand_msg_val(rng, x, stats)))
    if n and rng.random() < 0.3:
        # walk down a dependency chain: some ancestors of one parameter, top first, then the parameter itself; the
        # ancestors that are left out stay at their (preset-dependent) defaults and are absent from the file
        deep = [x for x in app.insts if len(x.ancs) >= (1 if rng.random() < 0.4 else 2)]
        if deep:
            it = rng.choice(deep)
            ancs = sorted(it.ancs, key=lambda j: app.rank[j])
            keep = [j for j in ancs if rng.random() < rng.choice([0.15, 0.4, 0.8])]
            if rng.random() < 0.6 and ancs[0] not in keep:
                keep.insert(0, ancs[0])
            stats["chain_walks"] = stats.get("chain_walks", 0) + 1
            stats["chain_skipped_max"] = max(stats.get("chain_skipped_max", 0), len(ancs) - len(keep))
            for j in keep + [it.idx]:
                x = app.insts[j]
                if x.idx in app.guard_set and rng.random() < 0.8:
                    msgs.append(enable_msg(rng, x))
                    continue
                v = ("T",) if x.kind == "T" and rng.random() < 0.8 else rand_msg_val(rng, x, stats)
                msgs.append(hmsg(x.addr, v))
    for _ in range(n):
        it = rng.choice(app.insts)
        # toggles that guard sub-trees matter most: bias towards them and towards preset ports
        if rng.random() < 0.35:
            special = [x for x in app.insts if x.idx in app.parent_set]
            if special:
                it = rng.choice(special)
        if rng.random() < 0.02:
            msgs.append("/nonexistent~i~1")
            continue
        if it.idx in app.guard_set and it.kind != "T" and rng.random() < 0.5:
            msgs.append(enable_msg(rng, it, on=rng.random() < 0.7))
            continue
        m = hmsg(it.addr, rand_msg_val(rng, it, stats))
        if rng.random() < 0.03:
            # a message with more arguments than the port reads (accepted when the first one is of the last alternative
            # of the port's argument specification)
            stats["multi_arg_msgs"] = stats.get("multi_arg_msgs", 0) + 1
            m += "~" + hmsg("", rand_msg_val(rng, rng.choice(app.insts), stats))[1:]
        msgs.append(m)
    stats["hist_len"][str(n)] = stats["hist_len"].get(str(n), 0) + 1
    return ";".join(msgs) if msgs else "-"


def prepare(app):
    if hasattr(app, "parent_set"):
        return
    ps = set()
    for it in app.insts:
        ps |= set(it.parents)
        it.fresh = app.canon.get(it.idx)
    app.parent_set = ps
    app.guard_set = set(g for it in app.insts for g, _p in it.guards)


def tok_edit(rng, t, stats):
    """hex of the replacement of header token t (`-`: the token is deleted)"""
    c = rng.random()
    kind = "other"
    if c < 0.12:
        stats["tok_deleted"] = stats.get("tok_deleted", 0) + 1
        return "-"
    if c < 0.3:
        i = rng.randrange(len(t))
        r = rng.choice([t[:i] + t[i + 1:], t[:i] + t[i] + t[i:], t[:i] + rng.choice("xX0v%.9 +") + t[i + 1:],
                        t[:i] + rng.choice("xX0v%.9+-") + t[i:], t + rng.choice(["x", "2", ".7", "s", "%", "\t", " "])])
    elif c < 0.4:
        r = rng.choice([t.lower(), t.upper(), t.swapcase(), t[::-1]])
    elif c < 0.65 and any(ch.isdigit() for ch in t):
        # numbers: signs, leading zeros, white space in front, other values, too large
        kind = "number"
        parts = t[1:].split(".") if t[:1] == "v" else t.split(".")
        j = rng.randrange(len(parts))
        parts[j] = rng.choice(["+" + parts[j], "0" + parts[j], "00" + parts[j], " " + parts[j], "-" + parts[j], "-0", "255", "256",
                               "0255", "+255", "999", "4294967295", "x", "", parts[j] + " ", "\t" + parts[j]])
        r = (t[:1] if t[:1] == "v" else "") + ".".join(parts)
        if rng.random() < 0.15:
            r = r[:1] + " " + r[1:]
    elif c < 0.8:
        # white space inside or around (sscanf's blanks match any amount of white space, also none)
        kind = "space"
        i = rng.randrange(len(t) + 1)
        r = t[:i] + rng.choice([" ", "  ", "\t", "\r", "\v", "\f"]) + t[i:]
    else:
        r = rng.choice(["RT", "OSC", "savefile", "presetfile", "v0.3.1", "v1.2.3", "%", "%%", "#", "x", "garbage", "0.3.1",
                        "v0.3", "v1", "savefile2", "Savefile", "v0.3.1.7", "v0,3,1", "w1.2.3", "% x", "v1.2.3 %c"])
    if r == t or r == "" or "\n" in r:
        r = t + "x"
    stats["tok_" + kind] = stats.get("tok_" + kind, 0) + 1
    return r.encode().hex()


def wrong_header(app, text):
    """the two header lines are not what the formats of load_from_file read (a tiny reference for the two sscanf formats
    ` %% RT OSC v%u.%u.%u savefile%n ` and ` %% %127s v%u.%u.%u%n `): literal words in order, white space anywhere
    between them (also none), numbers with an optional sign, each at most 255, the application's own name"""
    import re
    num = r"\s*([+-]?\d+)"
    m = re.match(r"\s*%\s*RT\s*OSC\s*v" + num + r"\." + num + r"\." + num + r"\s*savefile\s*%\s*(\S+)\s*v" + num + r"\." + num + r"\." + num,
                 text, re.S)
    if not m:
        return True
    g = m.groups()
    vals = [int(x) for x in g[:3] + g[4:]]
    if any((v % 2 ** 32) > 255 for v in vals):
        return True
    return g[3] != app.appid


def bad_ops(rng, app, hist, stats):
    ops = []
    a = app
    kinds = ["magic", "rver", "app", "aver", "parse", "line", "line", "line", "tok", "tok"]
    k = rng.choice(kinds)
    stats["bad_" + k] = stats.get("bad_" + k, 0) + 1
    if k == "magic":
        arg = "-"
    elif k == "tok":
        # one blank-separated token of a header line replaced or deleted
        #   line 0:  %  RT  OSC  v<a>.<b>.<c>  savefile        line 1:  %  <app>  v1.2.3
        # by a generic edit of the token itself (a character dropped / doubled / changed / inserted, case, a sign or
        # leading zeros in a number, white space inside, a neighbour's text, a foreign word): some edits make the header
        # wrong, some sscanf forgives (`v0.3.01`, `v+0.3.1`, `v 0.3.1`, `savefile<TAB>`); what load_from_file makes of
        # the text is the model's header parser (Save/Text.lean parseHeader) run on the same damaged text
        toks = [["%", "RT", "OSC", "v0.3.1", "savefile"], ["%", a.appid, "v1.2.3"]]
        ln = rng.choice([0, 0, 0, 1, 1])
        idx = rng.randrange(len(toks[ln]))
        arg = "%d:%d:%s" % (ln, idx, tok_edit(rng, toks[ln][idx], stats))
    elif k == "rver":
        arg = rng.choice(["256.0.0", "0.300.1", "0.0.1000", "4294967295.0.0"])
    elif k == "app":
        arg = rng.choice([a.appid + "x", "other", a.appid[:-1] or "z", a.appid.lower()])
    elif k == "aver":
        arg = rng.choice(["1.256.3", "999.0.0", "1.2.256"])
    elif k == "parse":
        arg = str(rng.randint(0, 12))
    else:
        it = rng.choice(a.insts)
        c = rng.random()
        if c < 0.08:
            m = "%s~-~" % it.addr                            # a line without arguments: a query, the port takes it
        elif c < 0.12:
            m = "/zzz~-~"
        elif c < 0.4:
            m = "/zzz~i~1"                                  # no such port
        elif c < 0.6:
            m = "%sq~i~1" % it.addr                          # longer name
        elif c < 0.85:
            wrong = {"I": ("f", 0x3f800000), "H": ("T",), "C": ("i", 5), "F": ("i", 1), "T": ("i", 1), "O": ("f", 0), "Z": ("i", 0)}[it.kind]
            m = hmsg(it.addr, wrong)                         # wrong argument type
        else:
            m = hmsg(it.addr, ("s", b"x")) if it.kind != "Z" else hmsg(it.addr, ("T",))
        if m.split("~")[1] != "-" and rng.random() < 0.3:
            # more arguments than the port reads: accepted when the first one is of the last alternative of the port's
            # argument specification (`/p 1 2` for `p::i`, `/t false 1` for `t::T:F`; not `/t true 1`)
            stats["bad_line_multi_arg"] = stats.get("bad_line_multi_arg", 0) + 1
            it2 = rng.choice(a.insts)
            first = rand_msg_val(rng, it, stats) if rng.random() < 0.7 else None
            if first is not None:
                m = hmsg(it.addr, first)
            for _ in range(rng.choice([1, 1, 2])):
                m += "~" + hmsg("", rand_msg_val(rng, it2, stats))[1:]
        arg = "%d:%s" % (rng.randint(0, 12), m)
    return "bad %d %s %s %s %s" % (a.index, a.desc, hist, k, arg)


def schedule(apps):
    """round-robin order of the applications; those with the constructs of the later rounds (A8..) twice"""
    big = [a for a in apps if len(a.insts) > 200]
    rest = [a for a in apps if len(a.insts) <= 200]
    # the application with the 128- and 256-element arrays costs the compiled model ~50 times as much per case: once per
    # two rounds; the applications with the constructs of the latest round (A14..) three times per round
    rnd = list(rest) + [a for a in rest if a.index >= 8] + [a for a in rest if a.index >= 14]
    return rnd + big[:1] + rnd


def hypotheses_report(apps):
    """which hypotheses of the Lean theorems (App.WF clause by clause, MetaCovers, MetaRanked) hold for each application
    of the pool: Bool versions evaluated by the compiled model (driver mode `wf`)"""
    import subprocess
    drv = os.path.join(VERIF, "lean", ".lake", "build", "bin", "drv_save")
    try:
        out = subprocess.run([drv], input="".join("wf %d %s - - -\n" % (a.index, a.desc) for a in apps),
                             capture_output=True, text=True, timeout=300).stdout.split("\n")
    except Exception as e:      # no driver yet: nothing to report
        return {"error": str(e)}
    rep = {}
    for a, l in zip(apps, out):
        # anc_chain and the constant-defaults form of array_ok are no hypotheses of the theorems any more (the driver still
        # prints them); the array clause of App.WF is what the driver prints as array_shape
        failing = [kv.split("=")[0] for kv in l.split()[1:] if kv.endswith("=0") and kv not in ("anc_chain=0", "array_ok=0")]
        rep[a.appid] = "all hold" if l.startswith("WF ") and not failing else "not: " + ",".join(failing) if l.startswith("WF ") else l
    return rep


_STATS = None
_TIER = None


def generate(rng, tier, stats):
    apps = SA.pool()
    global _STATS, _TIER
    if _STATS is None:
        _TIER = tier
        _STATS = stats            # (the runner's search calls generate() a second time: the first dict is the evidence)
    stats["theorem_hypotheses_per_app"] = hypotheses_report(apps)
    n = 4000 if tier == "quick" else 150000
    stats.update({"apps": len(apps), "params_per_app": [len(a.insts) for a in apps], "hist_len": {}, "wrong_type_msgs": 0,
                  "sl_ops": 0, "bad_ops": 0})
    for a in apps:
        prepare(a)
        yield "sl %d %s - - -" % (a.index, a.desc)
        yield "meta %d %s - - -" % (a.index, a.desc)
    sched = schedule(apps)
    for i in range(n):
        a = sched[i % len(sched)]
        hist = gen_history(rng, a, stats, 40)
        if rng.random() < 0.8:
            stats["sl_ops"] += 1
            yield "sl %d %s %s - -" % (a.index, a.desc, hist)
        else:
            stats["bad_ops"] += 1
            yield bad_ops(rng, a, hist, stats)


def nontrivial(op):
    w = op.split()
    return len(w) > 3 and w[3] != "-"


# ------------------------------------------------------------------------------------
# oracle: the property itself, evaluated on the implementation's output with a tiny
# reference for "the (preset-dependent) default" computed from the dumped fields
# ------------------------------------------------------------------------------------
def parse_fields(s):
    out = {}
    if s == "-":
        return out
    for e in s.split(","):
        a, v = e.split("=", 1)
        out[a] = v
    return out


def parse_out(out):
    w = out.split(" ")
    d = {}
    i = 0
    while i + 1 < len(w):
        if w[i] in ("O", "S", "H", "R", "F", "N", "P", "A", "SAME", "W"):
            d.setdefault(w[i], w[i + 1])
            i += 2
        else:
            i += 1
    return d


def expected_lines(app, O):
    """the set of lines the property demands for the state with enabled view O"""
    exp = {}
    insts = app.insts

    def getv(j):
        # a parameter that is switched off (rEnabledBy on the parameter itself) holds its fresh value
        a = insts[j].addr
        return SA.parse_vtok(O[a]) if a in O else app.canon[j]
    arrays = {}
    for it in insts:
        if it.addr not in O:
            continue                      # disabled sub-tree: not part of the state
        cur = SA.parse_vtok(O[it.addr])
        d = SA.eval_default(it, getv)
        if it.arr is not None:
            base = it.addr[:-len(str(it.arr))]
            arrays.setdefault(base, []).append((it.arr, cur, d, it))
            continue
        if cur != d:
            exp[it.addr] = SA.vtok(cur)           # option symbols are reported as their index
    for base, els in arrays.items():
        els.sort()
        last = -1
        for k, cur, d, it in els:
            if cur != d:
                last = k
        if last >= 0:
            # how many of the trailing elements that equal their default a line spells out is not the property's
            # business: the harness shows every array line with all elements
            exp[base] = "[" + ";".join(SA.vtok(cur) for k, cur, d, it in els) + "]"
    return exp


def oracle(op, out):
    w = op.split()
    if out.startswith("crash") or out == "bad-op":
        return "implementation: " + out
    apps = SA.pool()
    app = apps[int(w[1])]
    d = parse_out(out)
    if w[0] == "sl":
        if d.get("H") != "1":
            return "file does not start with the two header lines"
        O = parse_fields(d["O"])
        F = parse_fields(d["F"])
        lines = {}
        if d["S"] != "-":
            for l in d["S"].split(","):
                a, v = l.split(":", 1)
                if a in lines:
                    return "address %s saved twice" % a
                lines[a] = v
        for bad in ("NULL-BUT-ENABLED", "ALLOCATED-BUT-DISABLED"):
            if bad in d["O"] or bad in d["F"]:
                return "application invariant broken (%s)" % bad
        exp = expected_lines(app, O)
        if exp != lines:
            miss = sorted(set(exp) - set(lines))
            extra = sorted(set(lines) - set(exp))
            diff = sorted(a for a in exp if a in lines and exp[a] != lines[a])
            return "saved lines are not exactly the parameters that differ from their defaults: missing %s, superfluous %s, wrong value %s" % (
                miss[:3], extra[:3], [(a, lines[a], exp[a]) for a in diff[:3]])
        if w[3] == "-" and lines:
            return "untouched application saved lines"
        if d["R"] != str(len(lines)):
            return "load reported %s messages for %d saved lines" % (d["R"], len(lines))
        if F != O:
            ks = sorted(a for a in set(O) | set(F) if O.get(a) != F.get(a))
            return "state not restored: %s" % [(a, O.get(a), F.get(a)) for a in ks[:4]]
        return None
    if w[0] == "meta":
        # the dependency metadata of the compiled tables (what the macros rEnabledBy / rDepends / rDefaultDepends
        # expand to, lists of up to 16 entries) is what the generated description says
        want = app.desc.split("|")[3]
        if out != "M " + want:
            a, b = out[2:].split(";"), want.split(";")
            k = next((i for i in range(min(len(a), len(b))) if a[i] != b[i]), min(len(a), len(b)))
            return "compiled port metadata differs from the declaration at port #%d: compiled %s, declared %s" % (
                k, a[k] if k < len(a) else None, b[k] if k < len(b) else None)
        return None
    if w[0] == "bad":
        if w[4] in ("magic", "rver", "app", "aver", "parse"):
            if d.get("R") != "neg":
                return "damaged file (%s) accepted with result %s" % (w[4], d.get("R"))
            return None
        if w[4] == "tok":
            # rejected when the edited header is wrong (reference: wrong_header); what sscanf forgives is no wrong header
            ln, idx, alt = w[5].split(":")
            toks = [["%", "RT", "OSC", "v0.3.1", "savefile"], ["%", app.appid, "v1.2.3"]]
            if alt == "-":
                del toks[int(ln)][int(idx)]
            else:
                toks[int(ln)][int(idx)] = bytes.fromhex(alt).decode("latin1")
            text = " ".join(toks[0]) + "\n" + " ".join(toks[1]) + "\n/"
            if wrong_header(app, text) and d.get("R") != "neg":
                return "file with a wrong header (%r) accepted with result %s" % (text[:-2], d.get("R"))
            return None
        # inserted line: must be rejected when no port accepts it.  A port accepts a message whose type string is one of
        # the alternatives of its argument specification, or starts with the last one (rtosc_match_args: arguments behind
        # are ignored); a message without arguments is a query
        m = w[5].split(":", 1)[1]
        parts = m.split("~")
        addr = parts[0]
        ts = "".join(t for t in parts[1::2] if t != "-")
        it = next((x for x in app.insts if x.addr == addr), None)
        alts = {"I": ["i"], "H": ["i"], "C": ["c"], "F": ["f"], "T": ["T", "F"], "O": ["i", "c", "S"], "Z": ["s"]}
        if it is None or not (ts == "" or ts in alts[it.kind][:-1] or ts.startswith(alts[it.kind][-1])):
            if d.get("R") != "neg":
                return "file with a line no port accepts (%s) loaded with result %s" % (m, d.get("R"))
        return None
    return None


def unscannable_float(vtok_):
    """+infinity or a NaN without sign bit: written `inf (inf)` / `nan (nan)` (trigger Rtosc.C12.hasInfOrNaN)"""
    return vtok_[:1] == "f" and len(vtok_) == 9 and 0x7f800000 <= int(vtok_[1:], 16) < 0x80000000


def mixed_option_array(app, O):
    """trigger of C12-K10 (Rtosc.C12.hasMixedArray) on the dumped state: the line of some rArrayOption port - its elements
    up to the last one that, as the line spells it, differs from its default - holds an option's index in one element and another int in another"""
    def getv(j):
        a = app.insts[j].addr
        return SA.parse_vtok(O[a]) if a in O else app.canon[j]
    for w_ in app.walk:
        if w_[0] != "a":
            continue
        els = app.insts[w_[2]:w_[2] + w_[3]]
        if els[0].kind != "O" or els[0].addr not in O:
            continue
        cur = [SA.parse_vtok(O[it.addr]) for it in els]
        nopt = len(els[0].f["opts"])
        dfl = [SA.eval_default(it, getv) for it in els]
        if cur == dfl:
            continue
        # (map_arg_vals runs before first_equal_index: an element holding an option's index is a symbol by then and is
        #  never cut off)
        last = max([k for k in range(len(els)) if cur[k] != dfl[k] or 0 <= cur[k][1] < nopt], default=-1)
        inr = [0 <= v[1] < nopt for v in cur[:last + 1]]
        if any(inr) and not all(inr):
            return True
    return False


def known(op, impl_out, model_out, defs):
    """C12-K10: see mixed_option_array.  C12-K9: a float holding +infinity or NaN is written `inf (inf)` / `nan (nan)` and does not scan back.  Decided from
    the implementation's own output and the trigger: the state it saved (dump `O`) holds such a value in an enabled float
    parameter, the file does not scan (H 0) and load_from_file rejects it (R neg) - what the defect-mirroring model
    predicts for every such state (posinf_not_restored_counterexample, nan_not_restored_counterexample); where the model's
    output is at hand its verdict on the file (H, R) has to be the same."""
    ids = [d.get("id") for d in defs]
    if "C12-K9" not in ids:
        return None
    w = op.split()
    if w[0] not in ("sl", "bad") or impl_out.startswith("crash") or impl_out == "bad-op":
        return None
    d = parse_out(impl_out)
    O = d.get("O")
    if O is None or d.get("R") != "neg" or (w[0] == "sl" and d.get("H") != "0"):
        return None
    fields = parse_fields(O)
    kid = None
    if any(unscannable_float(v) for v in fields.values()):
        kid = "C12-K9"
    elif "C12-K10" in ids and mixed_option_array(SA.pool()[int(w[1])], fields):
        kid = "C12-K10"
    if kid is None:
        return None
    if model_out is not None:
        if " TEXT-MISMATCH " in model_out:
            return None
        dm = parse_out(model_out)
        if dm.get("R") != "neg" or dm.get("H") != d.get("H"):
            return None
    return kid


def neighbours(op, rng):
    """shorter histories of the failing op"""
    w = op.split()
    if len(w) < 6 or w[3] == "-":
        return
    msgs = w[3].split(";")
    for k in range(len(msgs)):
        h = msgs[:k] + msgs[k + 1:]
        yield " ".join(w[:3] + [";".join(h) if h else "-"] + w[4:])


# ------------------------------------------------------------------------------------
# text level: the Lean model of the FILE TEXT (Save/Text.lean, the object of Props/C12Text) against the compiled library
# ------------------------------------------------------------------------------------
TEXT_CASES = {"quick": 400, "thorough": 4000}


def text_level(run_h, exe, ops, impl_out, model_out, workdir, tag):
    """The theorems of Props/C12Text are about RtoscModel/Save/Text.lean: save_to_file / load_from_file on file TEXT,
    composed from C10's models of the printer, checker and scanner.  The compiled driver does not contain that composition
    (it compares abstract lines), so it is tied to the code here: for the first TEXT_CASES[tier] `sl` cases of the run the
    harness prints the text the compiled save_to_file returns (mode `txt`) and `lake env lean --run
    Driver/SaveTextCheck.lean` evaluates App.saveText / App.loadText on the same case.  Demanded: the two texts are equal
    byte for byte, and the model's load_from_file has the verdict of the compiled one on that text (same return value and
    same fields afterwards, or both reject - which is what the defect-mirroring model does on C12-K9 / K10 files).
    Cases whose saved state is not the one the model's own run of the history reaches, and cases on which the model's
    evaluation ends undecided (fuel), are counted and skipped.  A disagreement is appended to the MODEL's output line
    (` TEXT-MISMATCH …`), which makes it a correspondence disagreement of the ordinary kind."""
    import subprocess
    import vlib
    tier = _TIER or "quick"
    idx = [i for i, op in enumerate(ops) if op.startswith("sl ") and not impl_out[i].startswith("crash")
           and impl_out[i] != "bad-op"][:TEXT_CASES[tier]]
    st = {"cases": len(idx), "texts_identical": 0, "load_verdicts_equal": 0, "both_reject": 0,
          "history_state_differs": 0, "model_undecided": 0, "mismatches": 0}
    if not idx:
        return model_out
    tops = ["txt " + ops[i].split(" ", 1)[1] for i in idx]
    himpl = run_h(exe, tops, workdir, tag + "-txt")
    cm = open(os.path.join(vlib.REPO, "CMakeLists.txt")).read()
    try:
        ver = ".".join(re.search(r"set\(VERSION_%s (\d+)\)" % k, cm).group(1) for k in ("MAJOR", "MINOR", "PATCH"))
    except AttributeError:
        ver = "0.0.0"
    opf = os.path.join(workdir, tag + "-txt-ops.txt")
    with open(opf, "w") as f:
        f.write("\n".join(tops) + "\n")
    p = subprocess.run(["lake", "env", "lean", "--run", "Driver/SaveTextCheck.lean", opf, ver],
                       cwd=os.path.join(vlib.VERIF, "lean"), stdout=subprocess.PIPE, stderr=subprocess.PIPE, text=True)
    out = list(model_out)
    if p.returncode != 0:
        out[idx[0]] += " TEXT-MISMATCH text model does not evaluate: " + p.stderr.strip()[-200:].replace("\n", " ")
        st["mismatches"] += 1
        if _STATS is not None and tag == "main":
            _STATS["text_level"] = st
        return out
    tmodel = p.stdout.split("\n")
    for k, i in enumerate(idx):
        a, b = himpl[k], tmodel[k] if k < len(tmodel) else ""
        d = parse_out(impl_out[i])
        parts = b.split(" | ")
        why = None
        if len(parts) != 3:
            if b.startswith("ERR "):
                st["model_undecided"] += 1
                continue
            why = "text model output unreadable: " + b[:80]
        elif parts[2] != "O " + str(d.get("O")):
            st["history_state_differs"] += 1
            continue
        elif parts[0] != a:
            why = "file text differs: impl %s model %s" % (a[:4000], parts[0][:4000])
        else:
            st["texts_identical"] += 1
            load = parts[1]
            if load.startswith("E ") or load == "R undefined":
                st["model_undecided"] += 1
            elif load == "R neg":
                if d.get("R") == "neg":
                    st["both_reject"] += 1
                else:
                    why = "load_from_file: model rejects the text, impl R %s" % d.get("R")
            elif load == "R %s F %s" % (d.get("R"), d.get("F")):
                st["load_verdicts_equal"] += 1
            else:
                why = "load_from_file differs: model `%s` impl `R %s F %s`" % (load[:300], d.get("R"), str(d.get("F"))[:300])
        if why:
            st["mismatches"] += 1
            out[i] += " TEXT-MISMATCH " + why.replace("\n", " ")
    if _STATS is not None and tag == "main":
        _STATS["text_level"] = st
    return out


# ------------------------------------------------------------------------------------
# runner hook: the model's save / load runs on the state the implementation saved
# ------------------------------------------------------------------------------------
def main(argv):
    """The pre-save dump `O` of the implementation is INPUT of the comparison, not an observable of the property (its
    `observe_at`: the text of save_to_file, the result of load_from_file, the fields after loading): how the callbacks (C14)
    brought the state about is not this property's business.  The dump is appended to the op line the driver gets; the
    driver saves and loads the state the dump describes (hidden parameters at their fresh values) and echoes the dump.
    Where that state is not the one the model's own run of the history reaches, the driver says so in a trailing `HD 1`,
    which is counted (evidence: input_distribution.history_state_differs_from_model) and removed."""
    import vlib
    orig_h, orig_d = vlib.run_harness, vlib.run_driver
    last = {}

    def run_harness_rec(exe, ops, workdir, tag, extra_args=()):
        out = orig_h(exe, ops, workdir, tag, extra_args)
        last["ops"], last["out"], last["exe"] = list(ops), out, exe
        return out

    def run_driver_dump(engine, ops, workdir, tag, nproc=1):
        ops2 = ops
        if last.get("ops") == list(ops):
            ops2 = []
            for op, o in zip(ops, last["out"]):
                dump = None
                if op.split(" ", 1)[0] in ("sl", "bad") and not o.startswith("crash") and o != "bad-op":
                    dump = parse_out(o).get("O")
                ops2.append(op + " " + dump if dump else op)
        raw = orig_d(engine, ops2, workdir, tag, nproc)
        out = []
        n = 0
        for r in raw:
            if r.endswith(" HD 1"):
                r = r[:-5]
                n += 1
            out.append(r)
        if _STATS is not None and tag == "main":
            _STATS["history_state_differs_from_model"] = n
        if tag in ("main", "replay") and last.get("ops") == list(ops):
            out = text_level(orig_h, last["exe"], list(ops), last["out"], out, workdir, tag)
        return out

    vlib.run_harness, vlib.run_driver = run_harness_rec, run_driver_dump
    try:
        return vlib.main(sys.modules[__name__], argv)
    finally:
        vlib.run_harness, vlib.run_driver = orig_h, orig_d
