"""C04 — Dispatch delivers a message to exactly the port it addresses.

Engine `dispatch`.  Op lines (see harness/dispatch.cpp, lean/Driver/DispatchEngine.lean):
  D <table> <locsize>+<slack> <msg>;<msg>;…  <spec-token>
  R <table> <locsize>+<slack> <msg>;<msg>;…  <spec-token>
One line = one port tree and a batch of messages derived from it; every message is
dispatched with and without a location buffer — on fresh RtData objects, or (`<locsize>+<slack>+k`) all messages of
the line on the same two RtData objects, set up once: an operation history.  D: a tree built at run time (plain, or through
the library's ClonePorts / MergePorts); R: the harness' static tree made with the library's
recursion macros rRecur / rRecurs / rRecurp / rRecursp.  The spec token (ignored by harness and
driver) describes the tree structurally for the oracle, which is a small independent
implementation of the *statement* (names as segment lists, addresses split level by level),
not of the C++ code: it knows nothing about hashing, `hard_match` or `rtosc_match`.
Outputs are canonical in what the statement leaves open (order of the callbacks of one table,
d.port as seen by a default handler and d.port after a dispatch, trailing '/' of loc in a sub-tree
callback, loc "" or "/" after a root dispatch, d.matches and loc after a non-base dispatch): see
the driver's header.
"""
import os
import subprocess

PROP = "C04"
ENGINE = "dispatch"
LEAN_MODULES = ["RtoscModel.Props.C04"]
THEOREMS = [
    "Rtosc.Ports.dispatch_linear_iff",
    "Rtosc.Ports.dispatch_loc_iff",
    "Rtosc.Ports.dispatch_unique",
    "Rtosc.Ports.hashed_sound",
    "Rtosc.Ports.hashed_complete",
    "Rtosc.Ports.generate_establishes_HashOK",
    "Rtosc.Ports.real_MkOK",
    "Rtosc.Ports.loc_independent",
    "Rtosc.Ports.loc_restored",
    "Rtosc.Ports.loc_full_address",
    "Rtosc.Ports.matches_eq_leaf_callbacks",
    "Rtosc.Ports.port_pointer_own",
    "Rtosc.Ports.obj_handed_down",
    "Rtosc.Ports.obj_restored",
    "Rtosc.Ports.obj_restored_noloc",
    "Rtosc.Ports.history_obj_handed_down",
    "Rtosc.Ports.history_obj_restored_noloc",
    "Rtosc.Ports.loc_in_bounds",
    "Rtosc.Ports.mkMsg_msgBuf",
    "Rtosc.Ports.cachedMk_eq",
    "Rtosc.Ports.posLoop_fuel",
    "Rtosc.Ports.clone_names",
    "Rtosc.Ports.clone_last_source_port",
    "Rtosc.Ports.merge_no_repeats",
    "Rtosc.Ports.merge_exact",
    "Rtosc.Ports.merge_first_occurrence",
    "Rtosc.Ports.merge_complete",
    "Rtosc.Ports.merge_order",
    "Rtosc.Ports.recurs_index",
    "Rtosc.Ports.recurs_cb_index",
    "Rtosc.Ports.callback_own_match",
    "Rtosc.Ports.matcher_between",
    "Rtosc.Ports.sugar_obj_handed_down",
    "Rtosc.Ports.sugar_root_msg",
    "Rtosc.Ports.dispatch_iff",
    "Rtosc.Ports.dispatch_must_mustnot",
    "Rtosc.Ports.dispatch_sandwich",
    "Rtosc.Ports.loc_full_address_exact",
    "Rtosc.Ports.hard_match_prefix_counterexample",
    "Rtosc.Ports.hash_collision_counterexample",
    "Rtosc.Ports.inner_slash_counterexample",
    "Rtosc.Ports.default_handler_counterexample",
    "Rtosc.Ports.high_byte_name_counterexample",
    "Rtosc.Ports.empty_name_counterexample",
]
HARNESS = {"src": ["dispatch.cpp"], "deps": ["common.h"]}
# Ports::dispatch, Port_Matcher, generate_minimal_hash, ClonePorts / MergePorts: the library's objects are linked
RULE = ("port trees are generated per the quantifier: 1..24 names per table over {a,b,c} (shared prefixes, equal lengths, "
        "anagrams; a share over {a..h}, with digits, with 10-15 % of the characters from the wide set: upper case "
        "(also the same word in another letter case), '_-.', every other byte a literal name may have incl. 0x7f..0xff), "
        "lengths 1..8 and a 'long key' style 7..20, a few tables of 40..80 (thorough: ..150) long names, and per run "
        "2 (thorough: 8) perfectly hashed tables of 300 / 320 / 384 ports (names <x><y><z><sss> from three letter "
        "groups and a three-character suffix pattern, arbitrary letters: shapes for which the greedy searches of "
        "generate_minimal_hash end collision free; at the root or below a small root table; 60 % of their messages "
        "address a port with index >= 256); with and without "
        "':types', with '#N' (also 'name#N/' sub-tree ports, and '#N' together with further path components: "
        "'bank/slot#8', 'voice#4/level'), multi-component leaf names, trailing-'/' leaves, duplicate keys with different "
        "types, a second port matching the same messages as a sub-tree port, nesting 1..3, every table with or without "
        "default handler; about a third of the tables are built through the library's ClonePorts (clone list = the "
        "table, taken from a larger source in another order, with callbacks of its own; sometimes an earlier source port "
        "of the same name) or MergePorts (2..3 tables that share names, the repeated name anywhere in its table); plus "
        "the harness' static tree built with rRecur / rRecurs / rRecurp / rRecursp (3 levels, element index and object "
        "observed); for each tree the addresses are derived from it: the exact address of a root-to-leaf chain, one "
        "character appended / removed / changed / inserted (15 % from the wide set incl. '#{}*,:?[]' and bytes >= 0x7f), "
        "another letter case, only the first 1..4 characters, index N-1 / N / N+1 and leading zeros, a '/' removed / "
        "added / doubled, continuation behind a leaf, a prefix that stops at a sub-tree; x type strings: each "
        "alternative, extensions, proper prefixes, unrelated, empty; base dispatch with leading '/', a share of non-base "
        "dispatches; location buffer sometimes exactly as large as the address needs; the message in an exact-size heap "
        "block with as many spare bytes as the longest ':types' alternative of the tree has characters (none for a tree "
        "without type specs).  Every message is dispatched with and without location buffer; 35 % of the lines are "
        "operation histories on one RtData: the two RtData objects (root object, location buffer) are set up once and "
        "used for all 6..14 messages of the line, so that every dispatch starts with the d.obj / d.port / d.loc / "
        "d.matches the one before left behind; the others use fresh RtData objects per message; d.obj after every "
        "dispatch is observed.  Non-trivial = the tree has "
        "at least two ports; distinct = distinct op line")
ASSUMPTIONS = [
    "port names of the documented form restricted to literal text and #N (C05 Pat.WF without {} groups; any byte but NUL "
    "and '# { * :', also bytes >= 127); names of ports with a sub-table are one component with a trailing '/' (SNIP "
    "cuts one component)",
    "a port name is not empty in front of its type specification (nameWf: at least one non-empty segment; hypothesis "
    "of every dispatch theorem through PPorts.WF).  A port whose whole name is a type specification (':i') is "
    "addressed by an empty address, which rtosc_argument_string excludes (assert(msg && *msg)), so such names are "
    "not meaningful and not generated; for them the unchanged library does depend on the location buffer: "
    "generate_minimal_hash splits key and type specification with `idx > 0`, the name ':i' stays its own key and "
    "the table {':i','b'} answers '/' ,i without location buffer only (theorem empty_name_counterexample; the "
    "model mirrors it, op line `D T0[L3a69,L62] 256+0 B2f:69 ...` agrees with the compiled code; same class as "
    "C09's LeavesNamed)",
    "addresses and type strings are C strings; digit runs of the address below 2^31 (as in C05)",
    "the location buffer holds '/' + address + NUL (dispatch never compares with loc_size; theorem loc_in_bounds)",
    "callbacks of ports with a sub-table behave like rRecurCb (data.obj = child; SNIP; child.dispatch), the others do "
    "not touch RtData; the dispatch model names an object by the path of its table; which array element rRecursCb / "
    "rRecurspCb hand down for a port 'name#N/' is the model of rBOILS_BEGIN in Ports/Sugar.lean (recursIdx, objIdx: "
    "evaluated level by level on the message pointer of that level), proved to be the element the address names, in "
    "range, for every callback of every dispatch (theorem sugar_obj_handed_down) under the hypothesis that the names "
    "of ports with a sub-table carry no type specification (what rRecur / rRecurp / rRecurs / rRecursp generate: "
    "'name/', 'name#N/'); pointer members (rRecurpCb, rRecurspCb) are non-NULL",
    "'the runtime object handed down by the parent levels' is, for the root table, the object the caller put into "
    "RtData - once, for all the messages it dispatches with that RtData: every dispatch must leave d.obj as it found it "
    "(every branch of Ports::dispatch ends in `d.obj = obj`; theorems obj_restored, history_obj_handed_down; observed "
    "after every dispatch and through the histories on one RtData)",
    "the model mirrors ports.cpp with fixes/C04-01..06 applied; C05's model of rtosc_match (with fixes/C05-colon-address "
    "and fixes/C05-args-overread: nothing behind the type string's NUL is read, so no hypothesis on the buffer behind "
    "the message is left)",
]
TRUSTED = [
    "hand-written models RtoscModel/Ports/{Tree,Hash,Dispatch,Build,Sugar}.lean of Ports::dispatch, Port_Matcher, find_pos, "
    "find_assoc, find_remap, generate_minimal_hash, refreshMagic, ClonePorts, MergePorts, SNIP/rRecurCb, rBOILS_BEGIN; "
    "C05's RtoscModel/Match/*.lean of rtosc_match",
    "std::vector / std::string / std::function as their abstract contracts",
    "message layout of rtosc_amessage for all-zero arguments (validated by the harness: it aborts on a size mismatch)",
    "the harness' own bookkeeping of which source port a ClonePorts / MergePorts table must hold at which index (computed "
    "independently in harness, driver and oracle)",
]
LEVEL_TEXT = ("Lean theorems for all port trees of any size over literal and #N names (any byte values) and all messages, "
              "whatever follows the message in its buffer: the callbacks "
              "invoked are exactly the ports whose path matches level by level and whose type spec admits the tags (plus "
              "the default handler of a reached table in which nothing matches) - stated twice: exactly, with the type "
              "rule the matcher really follows (dispatch_linear_iff / dispatch_loc_iff), and in the MUST / MAY / MUSTNOT "
              "form built from C05's two-sided statement only (dispatch_must_mustnot: everything a message must invoke "
              "is invoked, nothing it must not; dispatch_sandwich: one verdict function inside the sandwich explains "
              "every log) -, each once, with the object of the parent level - also through the library's recursion "
              "macros: the array element rRecursCb / rRecurspCb select at every level is the one the address names and "
              "lies below N (sugar_obj_handed_down; callback_own_match + recurs_cb_index: for every single invocation, on "
              "the message pointer and port name the callback is handed) -, the full address in loc (loc_full_address_exact: loc ends with "
              "exactly the part of the address the callback's own name accounts for, loc + message pointer make the full "
              "path), its own port pointer, matches = number of leaf callbacks, loc and d.obj "
              "restored, hence the same for every dispatch of any history of dispatches on one RtData "
              "(history_obj_handed_down); the "
              "hashed lookup is sound for arbitrary hash tables and complete for every table the guards of "
              "generate_minimal_hash accept, whatever the heuristic search did, hence the callback log is the same with "
              "and without location buffer.  The model is compared with the compiled code on generated trees x derived "
              "messages every run (also tables built by ClonePorts / MergePorts and a tree built with the library's "
              "recursion macros), and the statement is evaluated directly on the implementation's output by an "
              "independent, order-insensitive oracle")
LEVEL_NOTE = ("Open: (1) inside the MAY region (a type string that extends a listed alternative without being one) the "
              "statement fixes nothing; there the exact theorems describe the code's own rule (C05 types_exact: only "
              "extensions of the LAST alternative are admitted) and the oracle allows both verdicts; (2) "
              "sugar_obj_handed_down is about the model of the recursion callbacks (Ports/Sugar.lean: rBOILS_BEGIN, SNIP) "
              "composed with the dispatch model exactly as the driver composes them on the R lines (library macros, "
              "compared and checked by the oracle); it assumes sub-tree port names without type specification and "
              "non-NULL pointer members: rRecurpCb / rRecurspCb with a NULL pointer are neither modelled nor exercised; "
              "(3) which callback object a "
              "ClonePorts / MergePorts port carries is checked on the implementation only; the Lean theorems fix the "
              "port (name and sub-table): merge_exact / merge_first_occurrence / merge_complete / merge_order (all "
              "ports of all tables in order, the first of equal names kept) and clone_last_source_port (the i-th port "
              "is the last source port with the i-th listed name); (4) loc_in_bounds assumes room for '/' + address + NUL: the code never compares with "
              "loc_size (no finding raised: documented as 'not properly handled yet' in ports.cpp); (5) isLeaf of a log "
              "entry is set by the model from the table (port without sub-table / default handler)")
TECHNIQUE = "Lean 4 model + proofs; correspondence against ASan/UBSan build; independent spec oracle; loc/no-loc differential"

# How many spare zero bytes follow a message in its exact-size heap block (token <locsize>+<slack>):
#   "types": as many as the longest ':types' alternative of the tree has characters, 0 for a tree without
#            type specs (the unrepaired rtosc_match_args compared every character of an alternative
#            with the bytes behind a shorter type string: fixes/C05-args-overread.patch)
#   "zero":  none, for every tree (valid once fixes/C05-args-overread.patch is in the tree under test)
# (the environment variable VERIF_C04_SLACK overrides it for one run)
SLACK_MODE = os.environ.get("VERIF_C04_SLACK", "zero")


def hx(b):
    return b.hex() if b else "-"


def unhx(s):
    return b"" if s == "-" else bytes.fromhex(s)


def isdig(c):
    return 48 <= c <= 57


# --------------------------------------------------------------------------------------
# structured names and trees
# --------------------------------------------------------------------------------------
# name = (segs, sub, types); seg = ("L", bytes) | ("E", digit-bytes)
# tree = {"dflt": bool, "ports": [(name, tree-or-None)], "build": None | ("c", source, idxs) | ("m", all, sizes)}
#   "ports" is always the table that is dispatched (what the oracle sees); "build" says how the harness
#   gets it from the library's ClonePorts / MergePorts (source / all: lists of (name, tree-or-None))
def render(p):
    segs, sub, types = p
    out = b""
    for k, v in segs:
        out += v if k == "L" else b"#" + v
    if sub:
        out += b"/"
    if types is not None:
        for t in types:
            out += b":" + t
    return out


def entries_token(ports):
    es = []
    for name, child in ports:
        if child is None:
            es.append("L" + hx(render(name)))
        else:
            es.append("N" + hx(render(name)) + table_token(child))
    return "[" + ",".join(es) + "]"


def table_token(t):
    b = t.get("build")
    d = 1 if t["dflt"] else 0
    if b is None:
        return "T%d%s" % (d, entries_token(t["ports"]))
    return "T%d%s%s{%s}" % (d, b[0], entries_token(b[1]), ".".join(str(x) for x in b[2]))


def clone_result(source, idxs):
    """ClonePorts as documented: for every listed name, in list order, the port of the source with that
    name (the last one if the source has several)"""
    out = []
    for k in idxs:
        nm = render(source[k][0])
        out.append([e for e in source if render(e[0]) == nm][-1])
    return out


def merge_result(allp, sizes):
    """MergePorts as documented: the ports of all tables in order, a name that is already there is dropped"""
    out, seen = [], set()
    for e in allp:
        nm = render(e[0])
        if nm not in seen:
            seen.add(nm)
            out.append(e)
    return out


def name_tok(p):
    segs, sub, types = p
    return "%s|%d|%s" % (";".join(k + hx(v) for k, v in segs), 1 if sub else 0,
                         "N" if types is None else ",".join(hx(t) for t in types))


def name_untok(t):
    a, b, c = t.split("|")
    segs = [(s[0], unhx(s[1:])) for s in a.split(";")] if a else []
    types = None if c == "N" else [unhx(x) for x in c.split(",")]
    return (segs, b == "1", types)


def spec_token(t):
    """S<d>(name~child,name~-,…) — the structured tree (the table that is dispatched) for the oracle"""
    es = []
    for name, child in t["ports"]:
        es.append(name_tok(name) + "~" + (spec_token(child) if child is not None else "-"))
    return "S%d(%s)" % (1 if t["dflt"] else 0, "&".join(es))


def parse_spec(s, i=0):
    assert s[i] == "S"
    dflt = s[i + 1] == "1"
    assert s[i + 2] == "("
    i += 3
    ports = []
    while s[i] != ")":
        if s[i] == "&":
            i += 1
            continue
        j = s.index("~", i)
        name = name_untok(s[i:j])
        i = j + 1
        if s[i] == "-":
            ports.append((name, None))
            i += 1
        else:
            child, i = parse_spec(s, i)
            ports.append((name, child))
    return {"dflt": dflt, "ports": ports}, i + 1


def all_tables(t):
    """every table the harness builds for the tree, the sources of ClonePorts / MergePorts included"""
    out = [t]
    lists = [t["ports"]]
    if t.get("build"):
        lists.append(t["build"][1])
    seen = set()
    for l in lists:
        for _, c in l:
            if c is not None and id(c) not in seen:
                seen.add(id(c))
                out += all_tables(c)
    return out


def longest_alt(t):
    n = 0
    for x in all_tables(t):
        for l in [x["ports"]] + ([x["build"][1]] if x.get("build") else []):
            for (segs, sub, types), _ in l:
                for a in types or []:
                    n = max(n, len(a))
    return n


def slack_for(t):
    return 0 if SLACK_MODE == "zero" else longest_alt(t)


# --------------------------------------------------------------------------------------
# the statement, evaluated directly
# --------------------------------------------------------------------------------------
MUST, MAY, MUSTNOT = 2, 1, 0


def spelled_end(segs, addr):
    """(offset behind the segments spelled by the address, value of the last index) or (None, None):
    literal text character for character, at '#N' the whole run of digits found there as a decimal index
    strictly below N"""
    i = 0
    ix = None
    for k, v in segs:
        if k == "L":
            if not addr.startswith(v, i):
                return None, None
            i += len(v)
        else:
            j = i
            while j < len(addr) and isdig(addr[j]):
                j += 1
            if j == i or int(addr[i:j]) >= int(v):
                return None, None
            ix = int(addr[i:j])
            i = j
    return i, ix


def path_end(p, addr):
    """offset behind the part of the address the name accounts for (trailing '/' included), or None;
    and the index spelled for the name's '#N'"""
    segs, sub, _ = p
    e, ix = spelled_end(segs, addr)
    if e is None:
        return None, None
    if sub:
        return (e + 1, ix) if addr[e:e + 1] == b"/" else (None, None)
    return (e, ix) if e == len(addr) else (None, None)


def admits(p, addr, tags):
    """MUST / MAY / MUSTNOT per the sandwich of C05: listed type strings must match, type strings that do not
    even extend a listed one must not"""
    e, ix = path_end(p, addr)
    if e is None:
        return MUSTNOT, None, None
    ts = p[2]
    if ts is None or tags in ts:
        return MUST, e, ix
    if any(tags.startswith(a) for a in ts):
        return MAY, e, ix
    return MUSTNOT, None, None


def parse_log(s):
    """[c;c;…] -> list of dicts"""
    assert s[0] == "[" and s[-1] == "]"
    out = []
    body = s[1:-1]
    if not body:
        return out
    for c in body.split(";"):
        who, rest = c.split("@")
        off, loc, obj, dport = rest.split(",")
        try:
            path = () if who[1:] == "r" else tuple(int(x) for x in who[1:].split("."))
        except ValueError:
            path = ("?" + who[1:],)
        out.append({"kind": who[0], "path": path, "off": None if off == "-" else int(off),
                    "loc": None if loc == "NULL" else unhx(loc), "obj": obj, "dport": dport, "text": c})
    return out


def show_path(p):
    return "r" if not p else ".".join(str(x) for x in p)


def show_obj(objs):
    """the object a table's callbacks are handed: the chain of sub-tree ports that leads to the table, with
    the element every enumerated port selects (R lines) — `r` for the root object"""
    if not objs:
        return "r"
    return ".".join(str(i) if ix is None else "%d#%d" % (i, ix) for i, ix in objs)


class Bad(Exception):
    pass


def strip_slash(b):
    return b[:-1] if b.endswith(b"/") else b


def check_table(t, tpath, objs, rest, off, locp, tags, pool, withloc, counts, sugar):
    """the callbacks of table `t` (reached with the remaining address `rest`, which starts `off` bytes into
    the message) and of everything below it are taken out of `pool` ((kind, path) -> entries): the
    statement fixes which callbacks are invoked and what each sees, not their order"""
    invoked = 0
    for i, (name, child) in enumerate(t["ports"]):
        st, e, ix = admits(name, rest, tags)
        ppath = tpath + (i,)
        if sugar and child is not None:
            # the library's own recursion callback: it does not log, its effect is seen below it
            if st == MUSTNOT:
                continue
            invoked += 1
            check_table(child, ppath, objs + [(i, ix)], rest[e:], off + e, locp + rest[:e], tags, pool, withloc,
                        counts, sugar)
            continue
        got = pool.pop(("P", ppath), [])
        if st == MUSTNOT and got:
            raise Bad("port %s (%r) was invoked for the remaining address %r tags %r although it does not match" %
                      (show_path(ppath), render(name), rest, tags))
        if st == MUST and not got:
            raise Bad("port %s (%r) matches the remaining address %r tags %r but was not invoked" %
                      (show_path(ppath), render(name), rest, tags))
        if len(got) > 1:
            raise Bad("port %s (%r) was invoked %d times" % (show_path(ppath), render(name), len(got)))
        if not got:
            continue
        c = got[0]
        invoked += 1
        if not sugar and c["off"] != off:
            raise Bad("port %s was handed the message at offset %s, expected %d" % (show_path(ppath), c["off"], off))
        want_obj = show_obj(objs) if sugar else show_path(tpath)
        if c["obj"] != want_obj:
            raise Bad("port %s was handed object %s, expected %s (that of its table)" % (show_path(ppath), c["obj"], want_obj))
        if c["dport"] != "P" + show_path(ppath):
            raise Bad("port %s saw d.port = %s" % (show_path(ppath), c["dport"]))
        if withloc:
            want = locp + rest[:e]
            # the callback of a port with a sub-table: with or without the trailing '/' (printed without)
            if c["loc"] != want and not (child is not None and c["loc"] == strip_slash(want)):
                raise Bad("port %s saw loc %r, expected %r" % (show_path(ppath), c["loc"], want))
        elif c["loc"] is not None:
            raise Bad("loc not NULL without location buffer")
        if child is None:
            counts["leaf"] += 1
        else:
            # next level: behind the component this port's name accounts for
            check_table(child, ppath, objs + [(i, ix)], rest[e:], off + e, locp + rest[:e], tags, pool, withloc,
                        counts, sugar)
    got = pool.pop(("D", tpath), [])
    if got and (invoked or not t["dflt"]):
        raise Bad("default handler of table %s invoked although %s" % (show_path(tpath), "a port matched" if invoked else "the table has none"))
    if t["dflt"] and not invoked and not got:
        raise Bad("table %s has a default handler and no port matched %r, but it was not invoked" % (show_path(tpath), rest))
    if len(got) > 1:
        raise Bad("default handler of table %s invoked %d times" % (show_path(tpath), len(got)))
    if got:
        c = got[0]
        counts["leaf"] += 1
        if not sugar and c["off"] != off:
            raise Bad("default handler of %s was handed the message at offset %s, expected %d" % (show_path(tpath), c["off"], off))
        want_obj = show_obj(objs) if sugar else show_path(tpath)
        if c["obj"] != want_obj:
            raise Bad("default handler of %s was handed object %s" % (show_path(tpath), c["obj"]))
        if withloc and c["loc"] != locp:
            raise Bad("default handler of %s saw loc %r, expected %r" % (show_path(tpath), c["loc"], locp))


def check_msg(tree, tok, res, sugar, state):
    """`state`: unused (nothing the RtData objects hold before a dispatch enters the verdict: d.obj is the caller's
    root object — a dispatch that leaves anything else behind is reported here —, d.matches is reset by a root
    dispatch, d.port is set for every callback)"""
    base = tok[0] == "B"
    a, t = tok[1:].split(":")
    addr, tags = unhx(a), unhx(t)
    if res.startswith("crash") or res == "oob" or res.startswith("bad"):
        return "implementation output %r" % res
    wl, nl = res.split("/")
    # with location buffer: [..]m<k>p<port>l<ok|hex>o<obj>
    rb = wl.index("]")
    logL = parse_log(wl[:rb + 1])
    tail = wl[rb + 1:]
    oi = tail.rindex("o")
    objL = tail[oi + 1:]
    tail = tail[:oi]
    mi, pi, li = tail.index("m"), tail.index("p"), tail.rindex("l")
    mtxt = tail[mi + 1:pi]
    matches = None if mtxt == "*" else int(mtxt)
    loc_after = tail[li + 1:]
    rb2 = nl.index("]")
    logN = parse_log(nl[:rb2 + 1])
    tailN = nl[rb2 + 1:]
    oi = tailN.rindex("o")
    objN = tailN[oi + 1:]
    skip = 1 if base and addr[:1] == b"/" else 0
    rest = addr[skip:]
    try:
        for log, withloc, obj_after in ((logL, True, objL), (logN, False, objN)):
            for c in log:
                if c["kind"] not in "PD":
                    raise Bad("a callback that does not belong to the table that is dispatched was invoked: %s" % c["text"])
            pool = {}
            for c in log:
                pool.setdefault((c["kind"], c["path"]), []).append(c)
            counts = {"leaf": 0}
            check_table(tree, (), [], rest, skip, b"/", tags, pool, withloc, counts, sugar)
            for left in pool.values():
                raise Bad("unexpected callback %s" % left[0]["text"])
            if withloc and base:
                # "the match count after a root dispatch equals the number of leaf callbacks invoked" (a root
                # dispatch counts from 0, whatever the RtData held; of other dispatches the statement says nothing)
                if matches is None:
                    raise Bad("d.matches of a root dispatch not printed")
                if matches != counts["leaf"]:
                    raise Bad("matches = %d but %d leaf callbacks were invoked" % (matches, counts["leaf"]))
            # d.port after the dispatch is not part of the statement (each callback sees its own port: checked
            # per callback above)
            # the object the caller supplied is the one the root table's callbacks are handed, in this dispatch and
            # in the next one made with the same RtData
            if obj_after != "r":
                raise Bad("d.obj after the dispatch %s location buffer is the object %s, not the one the caller supplied: "
                          "the next dispatch with this RtData hands it to the root table" % (
                              "with" if withloc else "without", obj_after))
        kL = sorted((c["kind"], c["path"], c["off"] or 0) for c in logL)
        kN = sorted((c["kind"], c["path"], c["off"] or 0) for c in logN)
        if kL != kN:
            raise Bad("callbacks with location buffer %s differ from those without %s" % (
                [c["kind"] + show_path(c["path"]) for c in logL], [c["kind"] + show_path(c["path"]) for c in logN]))
        if base and loc_after != "ok":
            raise Bad("loc after the dispatch is %r (neither restored to \"/\" nor emptied)" % unhx(loc_after))
    except Bad as e:
        return "%s [message %s %r tags %r]" % (e, "base" if base else "sub", addr, tags)
    return None


def fresh_state():
    return {}


def kept(op_words):
    """the line is an operation history on one RtData (sizes token <locsize>+<slack>+k)"""
    return op_words[2].endswith("+k")


def oracle(op, impl_out):
    w = op.split()
    if w[0] not in ("D", "R"):
        return None
    tree, _ = parse_spec(w[4])
    toks = w[3].split(";")
    if impl_out.startswith("crash") or impl_out.startswith("bad"):
        return "implementation output %r" % impl_out[:80]
    res = impl_out.split("|")
    if len(res) != len(toks):
        return "%d results for %d messages" % (len(res), len(toks))
    keep = kept(w)
    state = fresh_state()
    for k, (tok, r) in enumerate(zip(toks, res)):
        if not keep:
            state = fresh_state()
        f = check_msg(tree, tok, r, w[0] == "R", state)
        if f:
            return f + (" [message %d of a history on one RtData]" % (k + 1) if keep else "")
    return None


def nontrivial(op):
    w = op.split()
    return w[0] in ("D", "R") and w[1].count("L") + w[1].count("N") >= 2


# --------------------------------------------------------------------------------------
# generator
# --------------------------------------------------------------------------------------
TAG_CH = b"ifsTc"
N_CHOICES = [1, 2, 3, 4, 10, 12, 16, 100, 128]
# literal text of names (C05: litChar = anything but NUL # { * :); '/' is added structurally
UPPER = bytes(range(65, 91))
PUNCT = b"_-."
ODD_LIT = bytes(c for c in range(1, 256) if c not in (35, 123, 42, 58, 47) and not (48 <= c <= 57)
                and not (65 <= c <= 90) and not (97 <= c <= 122) and c not in PUNCT)
# what else an address may contain: the pattern's own syntax
ADDR_ODD = b"#{}*,:?[]"


def wide_char(rng, for_addr=False):
    r = rng.random()
    if r < 0.35:
        return rng.choice(UPPER[:8])               # case variants of the small alphabets
    if r < 0.5:
        return rng.choice(UPPER)
    if r < 0.7:
        return rng.choice(PUNCT)
    if r < 0.85:
        return rng.randrange(127, 256)             # DEL and everything a UTF-8 name has
    if for_addr and r < 0.95:
        return rng.choice(ADDR_ODD)
    return rng.choice(ODD_LIT)


def widen(rng, w, p):
    """each character replaced with probability p by one of the wide set (never a digit: a word may follow '#N')"""
    if not p:
        return w
    return bytes(wide_char(rng) if rng.random() < p else c for c in w)


def swap_case(c):
    if 65 <= c <= 90:
        return c + 32
    if 97 <= c <= 122:
        return c - 32
    return c


def rand_word(rng, alph, lens):
    return bytes(rng.choice(alph) for _ in range(rng.choice(lens)))


def rand_types(rng):
    r = rng.random()
    if r < 0.55:
        return None
    ts = []
    for _ in range(rng.choice([1, 1, 2, 2, 3])):
        ts.append(b"" if rng.random() < 0.25 else bytes(rng.choice(TAG_CH) for _ in range(rng.choice([1, 1, 2, 3]))))
    return ts


STYLES = {"short": [1, 1, 2, 2, 3], "mid": [2, 3, 3, 4], "long": [3, 4, 5, 6], "xlong": [7, 9, 11, 12, 14, 17]}


def related_words(rng, n, alph, style, pwide=0.0):
    """n distinct words over a small alphabet with many shared prefixes / equal lengths / anagrams"""
    words = []
    seen = set()
    lens = [rng.choice([2, 3, 4])] if style == "eq" else STYLES[style]
    maxlen = 20 if style == "xlong" else 8
    tries = 0
    while len(words) < n and tries < 40 * n:
        tries += 1
        r = rng.random()
        if words and r < 0.3:                      # extend / shorten an existing word
            b = rng.choice(words)
            w = b + bytes([rng.choice(alph)]) if rng.random() < 0.6 or len(b) == 1 else b[:-1]
        elif words and r < 0.5:                    # anagram
            b = bytearray(rng.choice(words))
            rng.shuffle(b)
            w = bytes(b)
        elif words and r < 0.6:                    # one character changed
            b = bytearray(rng.choice(words))
            b[rng.randrange(len(b))] = rng.choice(alph)
            w = bytes(b)
        elif words and pwide and r < 0.68:         # the same word in another letter case
            b = bytearray(rng.choice(words))
            k = rng.randrange(len(b))
            b[k] = swap_case(b[k])
            w = bytes(b)
        else:
            w = widen(rng, rand_word(rng, alph, lens), pwide)
        if w and w not in seen and len(w) <= maxlen:
            seen.add(w)
            words.append(w)
    return words


def small_leaf(rng, alph, taken):
    """a port without sub-table whose name is none of `taken`"""
    for _ in range(50):
        nm = ([("L", rand_word(rng, alph, [1, 2, 3]))], False, None)
        if render(nm) not in taken:
            return (nm, None)
    return (([("L", b"zz" + bytes([rng.choice(alph)]))], False, None), None)


def via_constructor(rng, t, alph):
    """let the harness build the table `t` through the library's ClonePorts / MergePorts"""
    ports = t["ports"]
    rendered = [render(nm) for nm, _ in ports]
    if not ports or len(ports) > 28 or len(set(rendered)) != len(rendered):
        return
    taken = set(rendered)
    if rng.random() < 0.5:
        # ClonePorts: the table is a subset of the source in another order; the source has further ports,
        # and now and then an earlier port with the name of a cloned one (the last one is cloned)
        source = list(ports)
        for _ in range(rng.choice([0, 1, 1, 2, 3])):
            e = small_leaf(rng, alph, taken)
            taken.add(render(e[0]))
            source.append(e)
        rng.shuffle(source)
        if rng.random() < 0.3:
            k = rng.randrange(len(ports))
            pos = [i for i, e in enumerate(source) if e is ports[k]][0]
            source.insert(rng.randrange(pos + 1), (ports[k][0], None))
        idxs = []
        for e in ports:
            nm = render(e[0])
            idxs.append(rng.choice([i for i, x in enumerate(source) if render(x[0]) == nm]))
        assert [id(x) for x in clone_result(source, idxs)] == [id(x) for x in ports]
        t["build"] = ("c", source, idxs)
    else:
        # MergePorts of two or three tables that share names: a later port with a name that is already
        # there is dropped, whatever follows it stays
        allp = list(ports)
        cuts = sorted(rng.randrange(1, len(allp) + 1) for _ in range(rng.choice([1, 1, 2])))
        ndup = rng.choice([0, 1, 1, 2, 3])
        for _ in range(ndup):
            k = rng.randrange(len(allp))
            at = rng.randrange(k + 1, len(allp) + 1)
            dup = (allp[k][0], None) if rng.random() < 0.8 or allp[k][1] is None else (allp[k][0], {"dflt": False, "ports": [small_leaf(rng, alph, set())]})
            allp.insert(at, dup)
            cuts = [c + 1 if c >= at else c for c in cuts]
        bounds = [0] + sorted(set(min(c, len(allp)) for c in cuts)) + [len(allp)]
        sizes = [b - a for a, b in zip(bounds, bounds[1:]) if b > a]
        if len(sizes) > 3 or sum(sizes) != len(allp):
            sizes = [len(allp)]
        assert [id(x) for x in merge_result(allp, sizes)] == [id(x) for x in ports]
        t["build"] = ("m", allp, sizes)


def gen_table(rng, depth, nmax, opts):
    """opts: enum (allow #N), multi (multi-component leaf names), digits, wide, pwide, style"""
    n = rng.choice([1, 2, 3, 4, 5, 6, 8, 10, 12, 16, 20, 24])
    if opts.get("big") and depth == opts.get("depth0"):
        n = rng.choice([40, 60, 80] if opts["big"] == 1 else [40, 80, 120, 150])
    else:
        n = min(n, nmax)
    alph = b"abc"
    if opts.get("wide"):
        alph = b"abcdefgh"
    pwide = opts.get("pwide", 0.0)
    style = opts.get("style") or rng.choice(["short", "mid", "mid", "long", "eq", "xlong"])
    words = related_words(rng, n, alph, style, pwide)
    ports = []
    use_enum = opts.get("enum") and rng.random() < 0.5
    use_multi = opts.get("multi") and rng.random() < 0.4
    n_nodes = 0
    for w in words:
        segs = [("L", w)]
        r = rng.random()
        r2 = rng.random()
        if use_enum and r < 0.35:
            if use_multi and r2 < 0.3:
                # further components in front of the enumeration: bank/slot#8
                segs = [("L", w + b"/" + widen(rng, rand_word(rng, alph, [1, 2]), pwide))]
            segs.append(("E", str(rng.choice(N_CHOICES)).encode()))
            r3 = rng.random()
            if use_multi and r3 < 0.45:
                # … and behind it: voice#4/level
                segs.append(("L", (rand_word(rng, b"abc", [1]) if rng.random() < 0.3 else b"") + b"/" +
                             widen(rng, rand_word(rng, alph, [1, 2, 5]), pwide)))
            elif r3 < 0.6:
                segs.append(("L", rand_word(rng, b"abc", [1, 2])))
        elif use_multi and r < 0.35:
            segs = [("L", w + b"/" + widen(rng, rand_word(rng, alph, [1, 2]), pwide) +
                     (b"/" + rand_word(rng, alph, [1]) if rng.random() < 0.2 else b""))]
        elif opts.get("digits") and r < 0.2:
            segs = [("L", w + bytes([rng.choice(b"0123456789")]))]
        child = None
        sub = False
        types = rand_types(rng) if opts.get("types") else None
        if depth > 1 and rng.random() < (0.35 if n_nodes < 3 else 0.05):
            # sub-tree port: one component (no inner '/'), trailing '/'
            if any(v.find(b"/") >= 0 for k, v in segs if k == "L"):
                segs = [sg for sg in [("L", w)] + [x for x in segs[1:] if x[0] == "E"]][:2]
            child = gen_table(rng, depth - 1, max(1, min(nmax, 24) // 2), opts)
            sub = True
            n_nodes += 1
            if rng.random() < 0.85:
                types = None
        elif rng.random() < 0.12:
            sub = True                                # leaf that accepts any continuation
        ports.append(((segs, sub, types), child))
        if child is not None and rng.random() < 0.3:
            # a second port that matches the same messages as the sub-tree port: a leaf with the same
            # name, or a leaf whose name continues into the sub-tree (both ports must be invoked)
            if rng.random() < 0.5:
                ports.append(((list(segs), True, None), None))
            elif all(k == "L" for k, _ in segs):
                ports.append(((list(segs[:-1]) + [("L", segs[-1][1] + b"/" + rand_word(rng, alph, [1, 2]))],
                              rng.random() < 0.3, None), None))
    # duplicate keys with different types; rarely an exact duplicate
    if opts.get("types") and ports and rng.random() < 0.25:
        (segs, sub, types), child = rng.choice(ports)
        if child is None:
            nt = [bytes([rng.choice(TAG_CH)])] if rng.random() < 0.9 else types
            ports.insert(rng.randrange(len(ports) + 1), ((list(segs), sub, nt), None))
    rng.shuffle(ports)
    t = {"dflt": rng.random() < opts.get("pdflt", 0.4), "ports": ports}
    if rng.random() < 0.3:
        via_constructor(rng, t, alph)
    return t


def fmt_index(rng, v):
    s = str(v).encode()
    if rng.random() < 0.2:
        s = b"0" * rng.randint(1, 3) + s
    return s


def name_address(rng, p, mode):
    segs, sub, _ = p
    out = b""
    for k, v in segs:
        if k == "L":
            out += v
        else:
            n = int(v)
            val = {"ok": rng.choice([0, n - 1, n // 2]), "N-1": n - 1, "N": n, "N+1": n + 1}[mode]
            out += fmt_index(rng, max(0, val))
    if sub:
        out += b"/"
    return out


def chain_address(rng, t, mode="ok", stop=False):
    """address of a random root-to-leaf chain; returns (address, types of the leaf)"""
    out = b""
    while True:
        name, child = rng.choice(t["ports"])
        out += name_address(rng, name, mode if rng.random() < 0.7 else "ok")
        if child is None or (stop and rng.random() < 0.4):
            if child is None and name[1] and rng.random() < 0.6:
                out += rand_word(rng, b"abc/1", [1, 2, 3])
            return out, name[2]
        if not child["ports"]:
            return out, name[2]
        t = child


def mutate(rng, a, kind):
    a = bytearray(a)
    pool = b"abc/1"

    def ch():
        return wide_char(rng, True) if rng.random() < 0.15 else rng.choice(pool)
    if kind == "append":
        a.append(ch())
    elif kind == "remove" and a:
        del a[rng.choice([len(a) - 1, rng.randrange(len(a))])]
    elif kind == "change" and a:
        i = rng.choice([len(a) - 1, rng.randrange(len(a))])
        c = ch()
        a[i] = c if c != a[i] else (99 if a[i] != 99 else 97)
    elif kind == "case" and a:
        # the same address in another letter case (one letter, or all of them)
        letters = [i for i, c in enumerate(a) if swap_case(c) != c]
        if letters:
            for i in (letters if rng.random() < 0.3 else [rng.choice(letters)]):
                a[i] = swap_case(a[i])
        else:
            a.append(ch())
    elif kind == "prefix" and a:
        # only the beginning of the address (shorter than the name it begins)
        del a[rng.randrange(0, min(len(a), 4)) + (1 if len(a) > 1 else 0):]
    elif kind == "noslash":
        idx = [i for i, c in enumerate(a) if c == 47]
        if idx:
            del a[rng.choice(idx)]
    elif kind == "addslash":
        r = rng.random()
        if r < 0.4:
            a.append(47)
        elif r < 0.7 and a:
            idx = [i for i, c in enumerate(a) if c == 47]
            if idx:
                a.insert(rng.choice(idx), 47)
            else:
                a.insert(rng.randrange(len(a) + 1), 47)
        else:
            a.insert(rng.randrange(len(a) + 1), 47)
    elif kind == "insert":
        a.insert(rng.randrange(len(a) + 1), ch())
    return bytes(a)


def pick_tags(rng, types, kind):
    if kind == "admitted":
        if types:
            return rng.choice(types)
        return rng.choice([b"", b"i", b"f", b"is"])
    if kind == "extension":
        if types:
            return rng.choice(types) + bytes([rng.choice(TAG_CH)])
        return b"ii"
    if kind == "shorter" and types:
        # a proper prefix of an alternative: the type string ends before the alternative does
        t = rng.choice(types)
        return t[:rng.randrange(len(t))] if t else b""
    # not admitted: unrelated to every alternative
    for _ in range(8):
        t = bytes(rng.choice(b"ifsTch") for _ in range(rng.choice([0, 1, 1, 2])))
        if not types or not any(t.startswith(x) for x in types):
            return t
    return b"h"


def idx_ok(addr):
    i = 0
    while i < len(addr):
        if isdig(addr[i]):
            j = i
            while j < len(addr) and isdig(addr[j]):
                j += 1
            if int(addr[i:j]) >= 2 ** 31:
                return False
            i = j
        else:
            i += 1
    return True


KEEP_SHARE = 0.35

MSG_KINDS = ["exact", "exact", "exact", "append", "remove", "change", "case", "prefix", "noslash", "addslash",
             "insert", "N-1", "N", "N+1", "stop", "random"]


def gen_msgs(rng, t, nmsg, stats):
    msgs = []
    for _ in range(nmsg):
        kind = rng.choice(MSG_KINDS)
        if kind in ("N-1", "N", "N+1"):
            a, ty = chain_address(rng, t, kind)
        elif kind == "stop":
            a, ty = chain_address(rng, t, "ok", stop=True)
        elif kind == "random":
            a, ty = rand_word(rng, b"abc/", [1, 2, 3, 4, 5]), None
        else:
            a, ty = chain_address(rng, t)
            if kind != "exact":
                a = mutate(rng, a, kind)
        if b"\0" in a or not idx_ok(a) or len(a) > 80:
            continue
        tk = rng.choice(["admitted", "admitted", "admitted", "other", "extension", "shorter"])
        tags = pick_tags(rng, ty, tk)
        r = rng.random()
        if r < 0.85:
            tok = "B" + hx(b"/" + a)
        elif r < 0.93:
            tok = "S" + hx(a)
        else:
            tok = "B" + hx(a)                       # base dispatch of an address without leading '/'
        msgs.append(tok + ":" + hx(tags))
        stats["msg_kind"][kind] = stats["msg_kind"].get(kind, 0) + 1
        stats["tag_kind"][tk] = stats["tag_kind"].get(tk, 0) + 1
    return msgs


# --------------------------------------------------------------------------------------
# perfectly hashed tables with more than 256 ports
# --------------------------------------------------------------------------------------
# Whether the greedy searches of generate_minimal_hash (find_pos, find_assoc) end collision free depends on the
# whole set of names and on their order, but only on which characters are EQUAL, never on their values: the
# shapes below (names <x><y><z><sss>, x / y / z from three disjoint letter groups of the given sizes, sss one of
# pzz qzz qqz qqq pattern-wise; "so" = the suffix is the outermost loop, "n" = the innermost) get a perfect hash
# (checked with the model: op `H`), with any letters.  The hash value of a name is an index into `remap`, whose
# entries must be able to name every port: ports with index >= 256 are the ones a narrow entry type loses.
BIG_SHAPES = [((4, 4, 6, 4), "so"), ((4, 4, 5, 4), "n"), ((3, 5, 5, 4), "n")]
BIG_LETTERS = bytes(range(97, 123)) + UPPER + PUNCT


def big_hashed_table(rng, shape=None):
    (g1, g2, g3, ns), order = shape or rng.choice(BIG_SHAPES)
    letters = bytearray(BIG_LETTERS)
    rng.shuffle(letters)
    l1, l2, l3 = letters[:g1], letters[g1:g1 + g2], letters[g1 + g2:g1 + g2 + g3]
    z, q = letters[g1 + g2 + g3], letters[g1 + g2 + g3 + 1]
    sufs = [bytes([z, z, z]), bytes([q, z, z]), bytes([q, q, z]), bytes([q, q, q])][:ns]
    if order == "so":
        words = [bytes([a, b, c]) + sf for sf in sufs for a in l1 for b in l2 for c in l3]
    else:
        words = [bytes([a, b, c]) + sf for a in l1 for b in l2 for c in l3 for sf in sufs]
    ptypes = rng.choice([0.0, 0.0, 0.1])
    ports = [(([("L", w)], False, rand_types(rng) if rng.random() < ptypes else None), None) for w in words]
    return {"dflt": rng.random() < 0.3, "ports": ports}


def big_msgs(rng, t, nmsg, stats):
    """mostly exact addresses of ports with a high index, some one character off"""
    n = len(t["ports"])
    msgs = []
    for _ in range(nmsg):
        r = rng.random()
        k = rng.randrange(256, n) if r < 0.6 else rng.randrange(n)
        name = t["ports"][k][0]
        a = name[0][0][1]
        kind = "exact"
        if rng.random() < 0.25:
            kind = rng.choice(["append", "remove", "change", "case", "insert"])
            a = mutate(rng, a, kind)
        if b"\0" in a or not idx_ok(a):
            continue
        tk = rng.choice(["admitted", "admitted", "admitted", "other", "extension"])
        msgs.append("B" + hx(b"/" + a) + ":" + hx(pick_tags(rng, name[2], tk)))
        stats["msg_kind"][kind] = stats["msg_kind"].get(kind, 0) + 1
        stats["tag_kind"][tk] = stats["tag_kind"].get(tk, 0) + 1
    return msgs


def big_op_line(rng, stats, shape=None):
    t = big_hashed_table(rng, shape)
    if rng.random() < 0.3:
        # below a small root table
        root = gen_table(rng, 1, 4, {"types": False})
        root["build"] = None
        taken = set(render(nm) for nm, _ in root["ports"])
        if b"big/" not in taken:
            root["ports"].insert(rng.randrange(len(root["ports"]) + 1), (([("L", b"big")], True, None), t))
            msgs = []
            for m in big_msgs(rng, t, 12, stats):
                a, tg = m[1:].split(":")
                msgs.append("B" + hx(b"/big" + unhx(a)) + ":" + tg)
            keep = "+k" if rng.random() < KEEP_SHARE else ""
            return "D %s %d+%d%s %s %s" % (table_token(root), 64, slack_for(root), keep, ";".join(msgs), spec_token(root)), t
    msgs = big_msgs(rng, t, 12, stats)
    keep = "+k" if rng.random() < KEEP_SHARE else ""
    return "D %s %d+%d%s %s %s" % (table_token(t), 64, slack_for(t), keep, ";".join(msgs), spec_token(t)), t


def tree_depth(t):
    return 1 + max([tree_depth(c) for _, c in t["ports"] if c is not None] or [0])


def tree_tables(t):
    out = [t]
    for _, c in t["ports"]:
        if c is not None:
            out += tree_tables(c)
    return out


def hashable(t):
    """what the guards of generate_minimal_hash look at first: no '#', no inner '/', no byte above 126"""
    for name, _ in t["ports"]:
        r = render(name)
        key = r.split(b":")[0]
        if b"#" in r or b"/" in key[:-1] or any(c >= 127 for c in r):
            return False
    return bool(t["ports"])


def op_line(rng, t, nmsg, stats, kind="D"):
    msgs = gen_msgs(rng, t, nmsg, stats)
    if not msgs:
        msgs = ["B2f61:-"]
    need = max(len(unhx(m[1:].split(":")[0])) for m in msgs) + 2
    locsize = need if rng.random() < 0.3 else rng.choice([64, 128, 1024])
    locsize = max(locsize, need)
    # a third of the lines are operation histories on one RtData: set up once, used for every message
    keep = "+k" if rng.random() < KEEP_SHARE else ""
    return "%s %s %d+%d%s %s %s" % (kind, table_token(t), locsize, slack_for(t), keep, ";".join(msgs), spec_token(t))


# --------------------------------------------------------------------------------------
# the harness' static tree built with the library's recursion macros (harness/dispatch.cpp: STop / SMid / SLeaf)
# --------------------------------------------------------------------------------------
def _nm(text, sub=False, types=None, n=None):
    segs = [("L", text)]
    if n is not None:
        segs.append(("E", str(n).encode()))
    return (segs, sub, types)


def sugar_tree():
    leaf = {"dflt": False, "ports": [(_nm(b"level", types=[b""]), None), (_nm(b"pan", types=[b"", b"i"]), None),
                                     (_nm(b"detunevalue"), None), (_nm(b"x"), None)]}
    mid = {"dflt": False, "ports": [
        (_nm(b"one", sub=True), leaf), (_nm(b"one", types=[b""]), None),       # rRecur(one)
        (_nm(b"op2s", sub=True, n=3), leaf),                                    # rRecurs(op2s, 3)
        (_nm(b"ptr", sub=True), leaf),                                          # rRecurp(ptr)
        (_nm(b"lfo1p", sub=True, n=2), leaf),                                   # rRecursp(lfo1p, 2)
        (_nm(b"self"), None)]}
    top = {"dflt": False, "ports": [
        (_nm(b"mid", sub=True), mid), (_nm(b"mid", types=[b""]), None),         # rRecur(mid)
        (_nm(b"mids", sub=True, n=4), mid),                                     # rRecurs(mids, 4)
        (_nm(b"pm", sub=True), mid),                                            # rRecurp(pm)
        (_nm(b"pm2s", sub=True, n=2), mid),                                     # rRecursp(pm2s, 2)
        (_nm(b"v9", sub=True, n=12), leaf),                                     # rRecurs(v9, 12)
        (_nm(b"top", types=[b""]), None)]}
    return top


def generate(rng, tier, stats):
    ntab = 5200 if tier == "quick" else 100000
    nbig = 24 if tier == "quick" else 400
    nsugar = 260 if tier == "quick" else 6000
    nhuge = 2 if tier == "quick" else 8        # the model's find_assoc takes ~10 s on such a table
    stats.update({"via_clone_or_merge": 0, "tables": 0, "size": {}, "depth": {}, "dflt": 0, "msg_kind": {}, "tag_kind": {},
                  "with_enum": 0, "with_multi": 0, "with_enum_and_inner_slash": 0, "with_types": 0, "with_wide_chars": 0,
                  "with_high_bytes": 0, "long_keys": 0, "slack": {}, "sugar_lines": 0, "big_tables": 0,
                  "hashable_tables": 0, "all_tables": 0, "messages": 0, "histories_on_one_RtData": 0,
                  "hashed_tables_over_256_ports": {}})
    ops = []
    st = sugar_tree()
    for k in range(ntab + nbig):
        r = rng.random()
        opts = {"types": rng.random() < 0.6, "enum": r < 0.3 or 0.42 <= r < 0.5, "multi": 0.3 <= r < 0.5,
                "digits": 0.5 <= r < 0.55, "wide": rng.random() < 0.15, "pdflt": rng.choice([0.0, 0.3, 0.5, 1.0]),
                "pwide": rng.choice([0.0, 0.0, 0.0, 0.1, 0.15])}
        depth = rng.choice([1, 1, 2, 2, 3])
        if k >= ntab:
            # a table of the size of a real parameter table (zyn: 40 … 150 ports), long names
            depth = rng.choice([1, 1, 2])
            opts.update({"big": 1 if tier == "quick" else 2, "depth0": depth, "style": "xlong", "wide": True,
                         "enum": False, "multi": False, "pwide": rng.choice([0.0, 0.05])})
            stats["big_tables"] += 1
        t = gen_table(rng, depth, 24, opts)
        nmsg = rng.choice([6, 10, 14])
        op = op_line(rng, t, nmsg, stats)
        ops.append(op)
        stats["tables"] += 1
        n = len(t["ports"])
        stats["size"][str(n)] = stats["size"].get(str(n), 0) + 1
        d = str(tree_depth(t))
        stats["depth"][d] = stats["depth"].get(d, 0) + 1
        tabs = tree_tables(t)
        stats["dflt"] += sum(1 for x in tabs if x["dflt"])
        stats["via_clone_or_merge"] += sum(1 for x in tabs if x.get("build"))
        stats["all_tables"] += len(tabs)
        stats["hashable_tables"] += sum(1 for x in tabs if hashable(x))
        names = [render(nm) for x in tabs for nm, _ in x["ports"]]
        keys = [nm.split(b":")[0] for nm in names]
        stats["with_enum"] += 1 if any(b"#" in nm for nm in names) else 0
        stats["with_multi"] += 1 if any(b"/" in k_[:-1] for k_ in keys) else 0
        stats["with_enum_and_inner_slash"] += 1 if any(b"#" in k_ and b"/" in k_[:-1] for k_ in keys) else 0
        stats["with_types"] += 1 if any(nm[2] is not None for x in tabs for nm, _ in x["ports"]) else 0
        stats["with_wide_chars"] += 1 if any(c in UPPER or c in PUNCT or c in ODD_LIT for k_ in keys for c in k_) else 0
        stats["with_high_bytes"] += 1 if any(c >= 127 for k_ in keys for c in k_) else 0
        stats["long_keys"] += 1 if any(len(k_) >= 8 for k_ in keys) else 0
        sl = op.split()[2].split("+")[1]
        stats["slack"][sl] = stats["slack"].get(sl, 0) + 1
        stats["messages"] += op.split()[3].count(";") + 1
        stats["histories_on_one_RtData"] += 1 if kept(op.split()) else 0
    shapes = list(BIG_SHAPES)
    rng.shuffle(shapes)
    for k in range(nhuge):
        op, t = big_op_line(rng, stats, shapes[k % len(shapes)])
        ops.append(op)
        n = str(len(t["ports"]))
        stats["hashed_tables_over_256_ports"][n] = stats["hashed_tables_over_256_ports"].get(n, 0) + 1
        stats["tables"] += 1
        stats["messages"] += op.split()[3].count(";") + 1
        stats["histories_on_one_RtData"] += 1 if kept(op.split()) else 0
    for k in range(nsugar):
        op = op_line(rng, st, 14, stats, "R")
        ops.append(op)
        stats["sugar_lines"] += 1
        stats["messages"] += op.split()[3].count(";") + 1
        stats["histories_on_one_RtData"] += 1 if kept(op.split()) else 0
    # which lookup strategy the tables really get is decided by the heuristic search: ask the model
    # (statistics only; the implementation's choice is not observable and not compared)
    try:
        exe = os.path.join(os.path.dirname(os.path.dirname(os.path.dirname(os.path.abspath(__file__)))),
                           "lean", ".lake", "build", "bin", "drv_dispatch")
        sample = ops[:300]
        inp = "\n".join("H " + o.split()[1] for o in sample) + "\n"
        out = subprocess.run([exe], input=inp, stdout=subprocess.PIPE, text=True, timeout=300).stdout
        h = out.count("h")
        l = out.count("l")
        stats["strategy_sample"] = {"tables": h + l, "hashed": h, "linear": l}
    except Exception as e:  # pragma: no cover
        stats["strategy_sample"] = "unavailable: %s" % e
    rng.shuffle(ops)
    for op in ops:
        yield op


def neighbours(op, rng):
    """the same tree (built the same way) with fresh messages"""
    w = op.split()
    if w[0] not in ("D", "R"):
        return
    tree, _ = parse_spec(w[4])
    st = {"msg_kind": {}, "tag_kind": {}}
    # (a table of hundreds of hashed ports costs the model ~10 s per line)
    huge = any(len(x["ports"]) > 256 for x in tree_tables(tree))
    for _ in range(3 if huge else 40):
        msgs = gen_msgs(rng, tree, 14, st) or ["B2f61:-"]
        need = max(len(unhx(m[1:].split(":")[0])) for m in msgs) + 2
        yield "%s %s %d+%s %s %s" % (w[0], w[1], max(need, 64), "+".join(w[2].split("+")[1:]), ";".join(msgs), w[4])
