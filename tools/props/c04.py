"""C04 — Dispatch delivers a message to exactly the port it addresses.

Engine `dispatch`.  Op lines (see harness/dispatch.cpp, lean/Driver/DispatchEngine.lean):
  D <table> <locsize> <msg>;<msg>;…  <spec-token>
One line = one port tree and a batch of messages derived from it; every message is
dispatched with and without a location buffer.  The spec token (ignored by harness and
driver) describes the tree structurally for the oracle, which is a small independent
implementation of the *statement* (names as segment lists, addresses split level by level),
not of the C++ code: it knows nothing about hashing, `hard_match` or `rtosc_match`.
"""
import os
import subprocess

PROP = "C04"
ENGINE = "dispatch"
LEAN_MODULES = ["RtoscModel.Props.C04"]
THEOREMS = [
    "Rtosc.Ports.dispatch_linear_iff",
    "Rtosc.Ports.dispatch_loc_iff",
    "Rtosc.Ports.dispatch_unique",
    "Rtosc.Ports.hashed_sound",
    "Rtosc.Ports.hashed_complete",
    "Rtosc.Ports.generate_establishes_HashOK",
    "Rtosc.Ports.real_MkOK",
    "Rtosc.Ports.loc_independent",
    "Rtosc.Ports.loc_restored",
    "Rtosc.Ports.loc_full_address",
    "Rtosc.Ports.matches_eq_leaf_callbacks",
    "Rtosc.Ports.port_pointer_own",
    "Rtosc.Ports.obj_handed_down",
    "Rtosc.Ports.loc_in_bounds",
    "Rtosc.Ports.mkMsg_msgBuf",
    "Rtosc.Ports.cachedMk_eq",
    "Rtosc.Ports.posLoop_fuel",
    "Rtosc.Ports.hard_match_prefix_counterexample",
    "Rtosc.Ports.hash_collision_counterexample",
    "Rtosc.Ports.inner_slash_counterexample",
    "Rtosc.Ports.default_handler_counterexample",
]
HARNESS = {"src": ["dispatch.cpp"], "deps": ["common.h"]}
# Ports::dispatch, Port_Matcher, generate_minimal_hash, ClonePorts / MergePorts: the library's objects are linked
RULE = ("port trees are generated per the quantifier: 1..24 names per table over {a,b,c} (shared prefixes, equal lengths, "
        "anagrams; a small share with digits / other letters), with and without ':types', with '#N' (also 'name#N/' "
        "sub-tree ports), multi-component leaf names, trailing-'/' leaves, duplicate keys with different types, a second "
        "port matching the same messages as a sub-tree port, nesting 1..3, every table with or without default handler, "
        "about a third of the tables with pairwise different names built through the library's ClonePorts / MergePorts "
        "constructors; for each tree the addresses are derived from it: the exact "
        "address of a root-to-leaf chain, one character appended / removed / changed, index N-1 / N / N+1 and leading "
        "zeros, a '/' removed / added / doubled, continuation behind a leaf, a prefix that stops at a sub-tree; x type "
        "strings: each alternative, extensions, unrelated, empty; base dispatch with leading '/', a share of non-base "
        "dispatches; location buffer sometimes exactly as large as the address needs.  Every message is dispatched with "
        "and without location buffer.  Non-trivial = the tree has at least two ports; distinct = distinct op line")
ASSUMPTIONS = [
    "port names of the documented form restricted to literal text and #N (C05 Pat.WF without {} groups); names of ports "
    "with a sub-table are one component with a trailing '/' (SNIP cuts one component); characters of names below 127",
    "addresses and type strings are C strings; digit runs of the address below 2^31 (as in C05)",
    "the buffer behind the type string is at least as long as the longest type alternative (C05: ArgsInBounds; the harness "
    "appends 32 spare bytes)",
    "the location buffer holds '/' + address + NUL (dispatch never compares with loc_size; theorem loc_in_bounds)",
    "callbacks of ports with a sub-table behave like rRecurCb (data.obj = child; SNIP; child.dispatch), the others do "
    "not touch RtData",
    "the model mirrors ports.cpp with fixes/C04-01..05 applied; C05's model of rtosc_match (with fixes/C05-colon-address)",
]
TRUSTED = [
    "hand-written models RtoscModel/Ports/{Tree,Hash,Dispatch}.lean of Ports::dispatch, Port_Matcher, find_pos, find_assoc, "
    "find_remap, generate_minimal_hash, refreshMagic, SNIP/rRecurCb; C05's RtoscModel/Match/*.lean of rtosc_match",
    "std::vector / std::string / std::function as their abstract contracts",
    "message layout of rtosc_amessage for all-zero arguments (validated by the harness: it aborts on a size mismatch)",
]
LEVEL_TEXT = ("Lean theorems for all port trees of any size over literal and #N names and all messages: the callbacks "
              "invoked are exactly the ports whose path matches level by level and whose type spec admits the tags (plus "
              "the default handler of a reached table in which nothing matches), each once, with the object of the parent "
              "level, the full address in loc, its own port pointer, matches = number of leaf callbacks, loc restored; the "
              "hashed lookup is sound for arbitrary hash tables and complete for every table the guards of "
              "generate_minimal_hash accept, whatever the heuristic search did, hence the callback log is the same with "
              "and without location buffer.  The model is compared with the compiled code on generated trees x derived "
              "messages every run, and the statement is evaluated directly on the implementation's output by an "
              "independent oracle")
TECHNIQUE = "Lean 4 model + proofs; correspondence against ASan/UBSan build; independent spec oracle; loc/no-loc differential"

SLACK = 32


def hx(b):
    return b.hex() if b else "-"


def unhx(s):
    return b"" if s == "-" else bytes.fromhex(s)


def isdig(c):
    return 48 <= c <= 57


# --------------------------------------------------------------------------------------
# structured names and trees
# --------------------------------------------------------------------------------------
# name = (segs, sub, types); seg = ("L", bytes) | ("E", digit-bytes)
# tree = {"dflt": bool, "ports": [(name, tree-or-None)]}
def render(p):
    segs, sub, types = p
    out = b""
    for k, v in segs:
        out += v if k == "L" else b"#" + v
    if sub:
        out += b"/"
    if types is not None:
        for t in types:
            out += b":" + t
    return out


def table_token(t):
    es = []
    for name, child in t["ports"]:
        if child is None:
            es.append("L" + hx(render(name)))
        else:
            es.append("N" + hx(render(name)) + table_token(child))
    # "c" / "m": the harness builds the table through ClonePorts / MergePorts (same table for the model)
    return "T%d%s[%s]" % (1 if t["dflt"] else 0, t.get("mode", ""), ",".join(es))


def name_tok(p):
    segs, sub, types = p
    return "%s|%d|%s" % (";".join(k + hx(v) for k, v in segs), 1 if sub else 0,
                         "N" if types is None else ",".join(hx(t) for t in types))


def name_untok(t):
    a, b, c = t.split("|")
    segs = [(s[0], unhx(s[1:])) for s in a.split(";")] if a else []
    types = None if c == "N" else [unhx(x) for x in c.split(",")]
    return (segs, b == "1", types)


def spec_token(t):
    """S<d>(name~child,name~-,…) — the structured tree for the oracle"""
    es = []
    for name, child in t["ports"]:
        es.append(name_tok(name) + "~" + (spec_token(child) if child is not None else "-"))
    return "S%d(%s)" % (1 if t["dflt"] else 0, "&".join(es))


def parse_spec(s, i=0):
    assert s[i] == "S"
    dflt = s[i + 1] == "1"
    assert s[i + 2] == "("
    i += 3
    ports = []
    while s[i] != ")":
        if s[i] == "&":
            i += 1
            continue
        j = s.index("~", i)
        name = name_untok(s[i:j])
        i = j + 1
        if s[i] == "-":
            ports.append((name, None))
            i += 1
        else:
            child, i = parse_spec(s, i)
            ports.append((name, child))
    return {"dflt": dflt, "ports": ports}, i + 1


# --------------------------------------------------------------------------------------
# the statement, evaluated directly
# --------------------------------------------------------------------------------------
MUST, MAY, MUSTNOT = 2, 1, 0


def spelled_end(segs, addr):
    """offset behind the segments spelled by the address, or None (literal text character for character,
    at '#N' the whole run of digits found there as a decimal index strictly below N)"""
    i = 0
    for k, v in segs:
        if k == "L":
            if not addr.startswith(v, i):
                return None
            i += len(v)
        else:
            j = i
            while j < len(addr) and isdig(addr[j]):
                j += 1
            if j == i or int(addr[i:j]) >= int(v):
                return None
            i = j
    return i


def path_end(p, addr):
    """offset behind the part of the address the name accounts for (trailing '/' included), or None"""
    segs, sub, _ = p
    e = spelled_end(segs, addr)
    if e is None:
        return None
    if sub:
        return e + 1 if addr[e:e + 1] == b"/" else None
    return e if e == len(addr) else None


def admits(p, addr, tags):
    """MUST / MAY / MUSTNOT per the sandwich of C05: listed type strings must match, type strings that do not
    even extend a listed one must not"""
    e = path_end(p, addr)
    if e is None:
        return MUSTNOT, None
    ts = p[2]
    if ts is None or tags in ts:
        return MUST, e
    if any(tags.startswith(a) for a in ts):
        return MAY, e
    return MUSTNOT, None


def parse_log(s):
    """[c;c;…] -> list of dicts"""
    assert s[0] == "[" and s[-1] == "]"
    out = []
    body = s[1:-1]
    if not body:
        return out
    for c in body.split(";"):
        who, rest = c.split("@")
        off, loc, obj, dport = rest.split(",")
        path = () if who[1:] == "r" else tuple(int(x) for x in who[1:].split("."))
        out.append({"kind": who[0], "path": path, "off": int(off),
                    "loc": None if loc == "NULL" else unhx(loc), "obj": obj, "dport": dport})
    return out


def show_path(p):
    return "r" if not p else ".".join(str(x) for x in p)


class Bad(Exception):
    pass


def check_table(t, tpath, rest, off, locp, tags, log, cur, withloc, counts):
    """the log from position `cur` on must be what the statement allows for table `t` reached with the
    remaining address `rest` (which starts `off` bytes into the message); returns the new position"""
    invoked = 0
    for i, (name, child) in enumerate(t["ports"]):
        st, e = admits(name, rest, tags)
        ppath = tpath + (i,)
        present = cur < len(log) and log[cur]["kind"] == "P" and log[cur]["path"] == ppath
        if st == MUSTNOT and present:
            raise Bad("port %s (%r) was invoked for the remaining address %r tags %r although it does not match" %
                      (show_path(ppath), render(name), rest, tags))
        if st == MUST and not present:
            raise Bad("port %s (%r) matches the remaining address %r tags %r but was not invoked (next log entry: %s)" %
                      (show_path(ppath), render(name), rest, tags, log[cur] if cur < len(log) else "end"))
        if not present:
            continue
        c = log[cur]
        cur += 1
        invoked += 1
        if c["off"] != off:
            raise Bad("port %s was handed the message at offset %d, expected %d" % (show_path(ppath), c["off"], off))
        if c["obj"] != show_path(tpath):
            raise Bad("port %s was handed object %s, expected that of its table %s" % (show_path(ppath), c["obj"], show_path(tpath)))
        if c["dport"] != "P" + show_path(ppath):
            raise Bad("port %s saw d.port = %s" % (show_path(ppath), c["dport"]))
        if withloc:
            want = locp + rest[:e]
            if c["loc"] != want:
                raise Bad("port %s saw loc %r, expected %r" % (show_path(ppath), c["loc"], want))
        elif c["loc"] is not None:
            raise Bad("loc not NULL without location buffer")
        if child is None:
            counts["leaf"] += 1
        else:
            # next level: behind the component this port's name accounts for
            cur = check_table(child, ppath, rest[e:], off + e, locp + rest[:e], tags, log, cur, withloc, counts)
    dpresent = cur < len(log) and log[cur]["kind"] == "D" and log[cur]["path"] == tpath
    if dpresent and (invoked or not t["dflt"]):
        raise Bad("default handler of table %s invoked although %s" % (show_path(tpath), "a port matched" if invoked else "the table has none"))
    if t["dflt"] and not invoked and not dpresent:
        raise Bad("table %s has a default handler and no port matched %r, but it was not invoked" % (show_path(tpath), rest))
    if dpresent:
        c = log[cur]
        cur += 1
        counts["leaf"] += 1
        if c["off"] != off:
            raise Bad("default handler of %s was handed the message at offset %d, expected %d" % (show_path(tpath), c["off"], off))
        if c["obj"] != show_path(tpath):
            raise Bad("default handler of %s was handed object %s" % (show_path(tpath), c["obj"]))
        if withloc and c["loc"] != locp:
            raise Bad("default handler of %s saw loc %r, expected %r" % (show_path(tpath), c["loc"], locp))
    return cur


def check_msg(tree, tok, res):
    base = tok[0] == "B"
    a, t = tok[1:].split(":")
    addr, tags = unhx(a), unhx(t)
    if res.startswith("crash") or res == "oob" or res.startswith("bad"):
        return "implementation output %r" % res
    wl, nl = res.split("/")
    # with location buffer: [..]m<k>p<port>l<hex>
    rb = wl.index("]")
    logL = parse_log(wl[:rb + 1])
    tail = wl[rb + 1:]
    mi, pi, li = tail.index("m"), tail.index("p"), tail.rindex("l")
    matches = int(tail[mi + 1:pi])
    loc_after = unhx(tail[li + 1:])
    rb2 = nl.index("]")
    logN = parse_log(nl[:rb2 + 1])
    skip = 1 if base and addr[:1] == b"/" else 0
    rest = addr[skip:]
    try:
        for log, withloc in ((logL, True), (logN, False)):
            counts = {"leaf": 0}
            end = check_table(tree, (), rest, skip, b"/", tags, log, 0, withloc, counts)
            if end != len(log):
                raise Bad("unexpected callback %s" % (log[end],))
            if withloc and matches != counts["leaf"]:
                raise Bad("matches = %d but %d leaf callbacks were invoked" % (matches, counts["leaf"]))
        if [(c["kind"], c["path"], c["off"]) for c in logL] != [(c["kind"], c["path"], c["off"]) for c in logN]:
            raise Bad("callbacks with location buffer %s differ from those without %s" % (
                [c["kind"] + show_path(c["path"]) for c in logL], [c["kind"] + show_path(c["path"]) for c in logN]))
        if loc_after != b"/":
            raise Bad("loc after the dispatch is %r" % loc_after)
    except Bad as e:
        return "%s [message %s %r tags %r]" % (e, "base" if base else "sub", addr, tags)
    return None


def oracle(op, impl_out):
    w = op.split()
    if w[0] != "D":
        return None
    tree, _ = parse_spec(w[4])
    toks = w[3].split(";")
    if impl_out.startswith("crash") or impl_out.startswith("bad"):
        return "implementation output %r" % impl_out[:80]
    res = impl_out.split("|")
    if len(res) != len(toks):
        return "%d results for %d messages" % (len(res), len(toks))
    for tok, r in zip(toks, res):
        f = check_msg(tree, tok, r)
        if f:
            return f
    return None


def nontrivial(op):
    w = op.split()
    return w[0] == "D" and w[1].count("L") + w[1].count("N") >= 2


# --------------------------------------------------------------------------------------
# generator
# --------------------------------------------------------------------------------------
TAG_CH = b"ifsTc"
N_CHOICES = [1, 2, 3, 4, 10, 12, 16, 100, 128]


def rand_word(rng, alph, lens):
    return bytes(rng.choice(alph) for _ in range(rng.choice(lens)))


def rand_types(rng):
    r = rng.random()
    if r < 0.55:
        return None
    ts = []
    for _ in range(rng.choice([1, 1, 2, 2, 3])):
        ts.append(b"" if rng.random() < 0.25 else bytes(rng.choice(TAG_CH) for _ in range(rng.choice([1, 1, 2, 3]))))
    return ts


def related_words(rng, n, alph, style):
    """n distinct words over a small alphabet with many shared prefixes / equal lengths / anagrams"""
    words = []
    seen = set()
    lens = {"short": [1, 1, 2, 2, 3], "mid": [2, 3, 3, 4], "long": [3, 4, 5, 6], "eq": [rng.choice([2, 3, 4])]}[style]
    tries = 0
    while len(words) < n and tries < 40 * n:
        tries += 1
        r = rng.random()
        if words and r < 0.3:                      # extend / shorten an existing word
            b = rng.choice(words)
            w = b + bytes([rng.choice(alph)]) if rng.random() < 0.6 or len(b) == 1 else b[:-1]
        elif words and r < 0.5:                    # anagram
            b = bytearray(rng.choice(words))
            rng.shuffle(b)
            w = bytes(b)
        elif words and r < 0.6:                    # one character changed
            b = bytearray(rng.choice(words))
            b[rng.randrange(len(b))] = rng.choice(alph)
            w = bytes(b)
        else:
            w = rand_word(rng, alph, lens)
        if w and w not in seen and len(w) <= 8:
            seen.add(w)
            words.append(w)
    return words


def gen_table(rng, depth, nmax, opts):
    """opts: enum (allow #N), multi (multi-component leaf names), digits"""
    n = rng.choice([1, 2, 3, 4, 5, 6, 8, 10, 12, 16, 20, 24])
    n = min(n, nmax)
    alph = b"abc"
    if opts.get("wide"):
        alph = b"abcdefgh"
    style = rng.choice(["short", "mid", "mid", "long", "eq"])
    words = related_words(rng, n, alph, style)
    ports = []
    use_enum = opts.get("enum") and rng.random() < 0.5
    use_multi = opts.get("multi") and rng.random() < 0.4
    n_nodes = 0
    for w in words:
        segs = [("L", w)]
        r = rng.random()
        if use_enum and r < 0.35:
            segs.append(("E", str(rng.choice(N_CHOICES)).encode()))
            if rng.random() < 0.3:
                segs.append(("L", rand_word(rng, b"abc", [1, 2])))
        elif use_multi and r < 0.35:
            segs = [("L", w + b"/" + rand_word(rng, alph, [1, 2]) + (b"/" + rand_word(rng, alph, [1]) if rng.random() < 0.2 else b""))]
        elif opts.get("digits") and r < 0.2:
            segs = [("L", w + bytes([rng.choice(b"0123456789")]))]
        child = None
        sub = False
        types = rand_types(rng) if opts.get("types") else None
        if depth > 1 and rng.random() < (0.35 if n_nodes < 3 else 0.05):
            # sub-tree port: one component (no inner '/'), trailing '/'
            if segs[0][1].find(b"/") >= 0:
                segs = [("L", w)]
            child = gen_table(rng, depth - 1, max(1, nmax // 2), opts)
            sub = True
            n_nodes += 1
            if rng.random() < 0.85:
                types = None
        elif rng.random() < 0.12:
            sub = True                                # leaf that accepts any continuation
        ports.append(((segs, sub, types), child))
        if child is not None and rng.random() < 0.3:
            # a second port that matches the same messages as the sub-tree port: a leaf with the same
            # name, or a leaf whose name continues into the sub-tree (both ports must be invoked)
            if rng.random() < 0.5:
                ports.append(((list(segs), True, None), None))
            elif all(k == "L" for k, _ in segs):
                ports.append(((list(segs[:-1]) + [("L", segs[-1][1] + b"/" + rand_word(rng, alph, [1, 2]))],
                              rng.random() < 0.3, None), None))
    # duplicate keys with different types; rarely an exact duplicate
    if opts.get("types") and ports and rng.random() < 0.25:
        (segs, sub, types), child = rng.choice(ports)
        if child is None:
            nt = [bytes([rng.choice(TAG_CH)])] if rng.random() < 0.9 else types
            ports.insert(rng.randrange(len(ports) + 1), ((list(segs), sub, nt), None))
    rng.shuffle(ports)
    t = {"dflt": rng.random() < opts.get("pdflt", 0.4), "ports": ports}
    # ClonePorts looks ports up by name and MergePorts drops repeated names: only for pairwise different names
    rendered = [render(nm) for nm, _ in ports]
    if len(set(rendered)) == len(rendered) and len(ports) <= 30 and rng.random() < 0.3:
        t["mode"] = rng.choice(["c", "m"])
    return t


def fmt_index(rng, v):
    s = str(v).encode()
    if rng.random() < 0.2:
        s = b"0" * rng.randint(1, 3) + s
    return s


def name_address(rng, p, mode):
    segs, sub, _ = p
    out = b""
    for k, v in segs:
        if k == "L":
            out += v
        else:
            n = int(v)
            val = {"ok": rng.choice([0, n - 1, n // 2]), "N-1": n - 1, "N": n, "N+1": n + 1}[mode]
            out += fmt_index(rng, max(0, val))
    if sub:
        out += b"/"
    return out


def chain_address(rng, t, mode="ok", stop=False):
    """address of a random root-to-leaf chain; returns (address, types of the leaf)"""
    out = b""
    while True:
        name, child = rng.choice(t["ports"])
        out += name_address(rng, name, mode if rng.random() < 0.7 else "ok")
        if child is None or (stop and rng.random() < 0.4):
            if child is None and name[1] and rng.random() < 0.6:
                out += rand_word(rng, b"abc/1", [1, 2, 3])
            return out, name[2]
        if not child["ports"]:
            return out, name[2]
        t = child


def mutate(rng, a, kind):
    a = bytearray(a)
    pool = b"abc/1"
    if kind == "append":
        a.append(rng.choice(pool))
    elif kind == "remove" and a:
        del a[rng.choice([len(a) - 1, rng.randrange(len(a))])]
    elif kind == "change" and a:
        i = rng.choice([len(a) - 1, rng.randrange(len(a))])
        a[i] = rng.choice([c for c in pool if c != a[i]])
    elif kind == "noslash":
        idx = [i for i, c in enumerate(a) if c == 47]
        if idx:
            del a[rng.choice(idx)]
    elif kind == "addslash":
        r = rng.random()
        if r < 0.4:
            a.append(47)
        elif r < 0.7 and a:
            idx = [i for i, c in enumerate(a) if c == 47]
            if idx:
                a.insert(rng.choice(idx), 47)
            else:
                a.insert(rng.randrange(len(a) + 1), 47)
        else:
            a.insert(rng.randrange(len(a) + 1), 47)
    elif kind == "insert":
        a.insert(rng.randrange(len(a) + 1), rng.choice(pool))
    return bytes(a)


def pick_tags(rng, types, kind):
    if kind == "admitted":
        if types:
            return rng.choice(types)
        return rng.choice([b"", b"i", b"f", b"is"])
    if kind == "extension":
        if types:
            return rng.choice(types) + bytes([rng.choice(TAG_CH)])
        return b"ii"
    # not admitted: unrelated to every alternative
    for _ in range(8):
        t = bytes(rng.choice(b"ifsTch") for _ in range(rng.choice([0, 1, 1, 2])))
        if not types or not any(t.startswith(x) for x in types):
            return t
    return b"h"


def idx_ok(addr):
    i = 0
    while i < len(addr):
        if isdig(addr[i]):
            j = i
            while j < len(addr) and isdig(addr[j]):
                j += 1
            if int(addr[i:j]) >= 2 ** 31:
                return False
            i = j
        else:
            i += 1
    return True


def gen_msgs(rng, t, nmsg, stats):
    msgs = []
    kinds = ["exact", "exact", "append", "remove", "change", "noslash", "addslash", "insert",
             "N-1", "N", "N+1", "stop", "random"]
    for _ in range(nmsg):
        kind = rng.choice(kinds)
        if kind in ("N-1", "N", "N+1"):
            a, ty = chain_address(rng, t, kind)
        elif kind == "stop":
            a, ty = chain_address(rng, t, "ok", stop=True)
        elif kind == "random":
            a, ty = rand_word(rng, b"abc/", [1, 2, 3, 4, 5]), None
        else:
            a, ty = chain_address(rng, t)
            if kind != "exact":
                a = mutate(rng, a, kind)
        if b"\0" in a or b":" in a or not idx_ok(a) or len(a) > 60:
            continue
        tk = rng.choice(["admitted", "admitted", "admitted", "other", "extension"])
        tags = pick_tags(rng, ty, tk)
        r = rng.random()
        if r < 0.85:
            tok = "B" + hx(b"/" + a)
        elif r < 0.93:
            tok = "S" + hx(a)
        else:
            tok = "B" + hx(a)                       # base dispatch of an address without leading '/'
        msgs.append(tok + ":" + hx(tags))
        stats["msg_kind"][kind] = stats["msg_kind"].get(kind, 0) + 1
        stats["tag_kind"][tk] = stats["tag_kind"].get(tk, 0) + 1
    return msgs


def tree_depth(t):
    return 1 + max([tree_depth(c) for _, c in t["ports"] if c is not None] or [0])


def tree_tables(t):
    out = [t]
    for _, c in t["ports"]:
        if c is not None:
            out += tree_tables(c)
    return out


def hashable(t):
    """what the guards of generate_minimal_hash look at first: no '#', no inner '/'"""
    for name, _ in t["ports"]:
        r = render(name)
        key = r.split(b":")[0]
        if b"#" in r or b"/" in key[:-1]:
            return False
    return bool(t["ports"])


def op_line(rng, t, nmsg, stats):
    msgs = gen_msgs(rng, t, nmsg, stats)
    if not msgs:
        msgs = ["B2f61:-"]
    need = max(len(unhx(m[1:].split(":")[0])) for m in msgs) + 2
    locsize = need if rng.random() < 0.3 else rng.choice([64, 128, 1024])
    locsize = max(locsize, need)
    return "D %s %d %s %s" % (table_token(t), locsize, ";".join(msgs), spec_token(t))


def generate(rng, tier, stats):
    ntab = 7000 if tier == "quick" else 120000
    stats.update({"via_clone_or_merge": 0, "tables": 0, "size": {}, "depth": {}, "dflt": 0, "msg_kind": {}, "tag_kind": {},
                  "with_enum": 0, "with_multi": 0, "with_types": 0, "hashable_tables": 0, "all_tables": 0, "messages": 0})
    ops = []
    for k in range(ntab):
        r = rng.random()
        opts = {"types": rng.random() < 0.6, "enum": r < 0.3, "multi": 0.3 <= r < 0.5, "digits": 0.5 <= r < 0.55,
                "wide": rng.random() < 0.15, "pdflt": rng.choice([0.0, 0.3, 0.5, 1.0])}
        depth = rng.choice([1, 1, 2, 2, 3])
        t = gen_table(rng, depth, 24, opts)
        nmsg = rng.choice([6, 10, 14])
        op = op_line(rng, t, nmsg, stats)
        ops.append(op)
        stats["tables"] += 1
        n = len(t["ports"])
        stats["size"][str(n)] = stats["size"].get(str(n), 0) + 1
        d = str(tree_depth(t))
        stats["depth"][d] = stats["depth"].get(d, 0) + 1
        tabs = tree_tables(t)
        stats["dflt"] += sum(1 for x in tabs if x["dflt"])
        stats["via_clone_or_merge"] += sum(1 for x in tabs if x.get("mode"))
        stats["all_tables"] += len(tabs)
        stats["hashable_tables"] += sum(1 for x in tabs if hashable(x))
        tok = table_token(t)
        stats["with_enum"] += 1 if "23" in tok and any(b"#" in render(nm) for x in tabs for nm, _ in x["ports"]) else 0
        stats["with_multi"] += 1 if any(b"/" in render(nm).split(b":")[0][:-1] for x in tabs for nm, _ in x["ports"]) else 0
        stats["with_types"] += 1 if any(nm[2] is not None for x in tabs for nm, _ in x["ports"]) else 0
        stats["messages"] += op.split()[3].count(";") + 1
    # which lookup strategy the tables really get is decided by the heuristic search: ask the model
    # (statistics only; the implementation's choice is not observable and not compared)
    try:
        exe = os.path.join(os.path.dirname(os.path.dirname(os.path.dirname(os.path.abspath(__file__)))),
                           "lean", ".lake", "build", "bin", "drv_dispatch")
        sample = ops[:300]
        inp = "\n".join("H " + o.split()[1] for o in sample) + "\n"
        out = subprocess.run([exe], input=inp, stdout=subprocess.PIPE, text=True, timeout=300).stdout
        h = out.count("h")
        l = out.count("l")
        stats["strategy_sample"] = {"tables": h + l, "hashed": h, "linear": l}
    except Exception as e:  # pragma: no cover
        stats["strategy_sample"] = "unavailable: %s" % e
    for op in ops:
        yield op


def neighbours(op, rng):
    """the same tree with fresh messages"""
    w = op.split()
    if w[0] != "D":
        return
    tree, _ = parse_spec(w[4])
    st = {"msg_kind": {}, "tag_kind": {}}
    for _ in range(40):
        yield op_line(rng, tree, 14, st)
