"""C17 — Port metadata is read back exactly as written."""
PROP = "C17"
ENGINE = "meta"
LEAN_MODULES = ["RtoscModel.Props.C17"]
THEOREMS = ["Rtosc.Meta.iterate_serialize", "Rtosc.Meta.get_first", "Rtosc.Meta.find_presence",
            "Rtosc.Meta.length_serialize", "Rtosc.Meta.macros_serialize"]
HARNESS = {"src": ["meta.cpp"]}
RULE = ("blocks are serialised from generated entry lists: mostly 1..8 entries with keys of 1..3 and values of 0..4 bytes "
        "over the alphabet a b c A B C : = space 0 1 and the bytes 01 7f 80 e9 ff (letter-case pairs, bytes >= 0x80), "
        "empty values, repeated keys, valueless entries; plus streams of long entries (keys <= 20, values <= 300 bytes), "
        "of 9..30 entries, and a few blocks larger than 65535 bytes; each block is queried with a present key, a random "
        "key or an adversarial neighbour of a present key (':'+k, k+byte, k minus its last byte, case-flipped k, k with "
        "one high bit flipped, the empty key, a value used as key); rows of a fixed port table written in the harness "
        "with the real macros of rtosc/port-sugar.h (rParam rParamF rParamI rOption rToggle rString rArrayI rAction with "
        "rProp rMap rDoc rOptions rPreset rPresets rDefault rDefaultId rDefaultDepends rLinear rLog rShort rEnabledBy "
        "rDepends rNoDefaults rCentered rBlobType) are read from the table and must be byte-identical to the serialisation "
        "of the entries the macros stand for; blocks outside the statement (extra NULs, no leading ':', empty, NULL, "
        "truncated, rSpecial, empty or ':'-led keys) are only classified: no read past the block / read past the block; "
        "a case is non-trivial when the block is in the statement and has >= 2 entries or a value; distinct = distinct op line")
ASSUMPTIONS = ["entries are well-formed: key non-empty, NUL-free, not starting with ':'; values NUL-free",
               "the container is obtained through Port::meta() (leading ':' stripped)",
               "queried keys are C strings (NUL-free); the theorems also cover keys with NUL bytes, which no C caller can pass",
               "rSpecial(doc) of port-sugar.h emits ':special\\0' doc '\\0' (no '='), which is not a serialisation of "
               "key/value entries: blocks using it are outside the statement; for them, as for every other block outside "
               "the statement (empty, NULL, no leading ':', extra NULs, truncated), the check only demands that the readers "
               "do not crash and that model and implementation agree on whether a read past the block happens",
               "macros_serialize is about the macro texts as transcribed in RtoscModel/MetaMacros.lean (rProp rMap rDoc rOpt "
               "rPreset rSpecial); that the compiled header produces these bytes is established by test on the fixed port "
               "table of harness/meta.cpp (op M; every metadata-producing macro of the header is used there), not proved"]
TRUSTED = ["hand-written model RtoscModel/Meta.lean of metaiterator_advance, MetaIterator::operator++, "
           "MetaContainer::begin/find/length/operator[], Port::meta()",
           "transcription RtoscModel/MetaMacros.lean of the macro texts of include/rtosc/port-sugar.h",
           "the list FIXED in tools/props/c17.py saying which entries each macro invocation of harness/meta.cpp stands for"]

LETTERS = b"abcABC"
ALPH = b"abcABC:= 01" + bytes([0x01, 0x7f, 0x80, 0xe9, 0xff])


def hx(b):
    return b.hex() if b else "-"


def ser(entries):
    out = b""
    for k, v in entries:
        out += b":" + k + b"\0"
        if v is not None:
            out += b"=" + v + b"\0"
    return out + b"\0"


# ------------------------------------------------------------------------------------------------
# what the macros of rtosc/port-sugar.h stand for, entry by entry (independent of the header text)
# ------------------------------------------------------------------------------------------------
def rProp(k): return [(k.encode(), None)]
def rMap(k, v): return [(k.encode(), v.encode())]
def rDoc(d): return rMap("documentation", d)
def rShort(s): return rMap("shortname", s)
def rDefault(v): return rMap("default", v)
def rDefaultId(v): return rMap("default", '"%s"S' % v)
def rDefaultDepends(p): return rMap("default depends", p)
def rPreset(no, v): return rMap("default %d" % no, v)
def rPresets(*vs): return sum((rPreset(i, v) for i, v in enumerate(vs)), [])
def rOptions(*xs): return sum((rMap("map %d" % i, x) for i, x in enumerate(xs)), [])
def rLinear(a, b): return rMap("min", a) + rMap("max", b) + rMap("scale", "linear")
def rLog(a, b): return rMap("min", a) + rMap("max", b) + rMap("scale", "logarithmic")
def rEnabledBy(p): return rMap("enabled by", p)
def rDepends(*ps): return rMap("depends", "".join(p + "," for p in ps))
def rBlobType(c): return rMap("blob type", c)
rNoDefaults = rProp("no defaults")
rCentered = rProp("centered")
def DOC(*a): return sum(a[:-1], []) + rDoc(a[-1])
def rParam(*a): return rProp("parameter") + rMap("min", "0") + rMap("max", "127") + DOC(*a)
def rParamF(*a): return rProp("parameter") + DOC(*a)
rParamI = rToggle = rArrayI = rParamF
def rOption(*a): return rProp("parameter") + rProp("enumerated") + DOC(*a)
def rString(n, *a): return rMap("length", n) + rProp("parameter") + DOC(*a)
def rAction(*a): return DOC(*a)


# row i of C17_TABLE in harness/meta.cpp
FIXED = [
    rParam(rShort("vol"), rDefault("64"), "Volume of the part"),
    rParamF(rLog("0.1", "20000"), rMap("unit", "Hz"), rDefault("440.0"), "filter: cutoff = f(x)"),
    rOption(rOptions("sine", "saw tooth", "square"), rDefault("saw tooth"), "Waveform"),
    rToggle(rPreset(0, "true") + rPreset(1, "false"), rDefaultDepends("mode"), "Enable"),
    rParamI(rPresets("7", "8", "9"), rLinear("0", "10"), rLinear("1", "5"), "Kind (repeated keys)"),
    rString("32", rDefaultId("unnamed"), rEnabledBy("on"), ""),
    rArrayI(rDepends("mode", "kind"), rNoDefaults, rCentered, rBlobType("i"), "Steps: a=b:c"),
    rAction("Stop everything"),
    rParam(rProp("internal") + rProp("alias") + rMap("default 0", "0"), rDoc("first doc"), "second doc"),
]
# rows outside the statement: (row index, bytes the macros are believed to give) — rSpecial
SPECIAL = [(9, ser(rProp("parameter") + rMap("min", "0") + rMap("max", "127"))[:-1] + b":special\0disable\0" +
            ser(rDefault("64") + rDoc("Panning")))]


# ------------------------------------------------------------------------------------------------
# generator
# ------------------------------------------------------------------------------------------------
def rand_str(rng, lo, hi):
    n = rng.randint(lo, hi)
    return bytes(rng.choice(ALPH) for _ in range(n))


def rand_key(rng, hi=3):
    while True:
        k = rand_str(rng, 1, hi)
        if k[0:1] != b":":
            return k


def spec_token(entries):
    return ";".join(hx(k) + "=" + ("N" if v is None else hx(v)) for k, v in entries)


def flip_case(k):
    return bytes((c ^ 0x20) if (65 <= c <= 90 or 97 <= c <= 122) else c for c in k)


def rand_entries(rng, profile):
    """profile: small | long | many | huge"""
    if profile == "small":
        ne, kh, vh = rng.randint(1, 8), 3, 4
    elif profile == "long":
        ne, kh, vh = rng.randint(1, 8), 20, 300
    elif profile == "many":
        ne, kh, vh = rng.randint(9, 30), rng.choice([3, 20]), rng.choice([4, 40, 300])
    else:
        ne, kh, vh = rng.randint(2, 30), 20, 300
    entries = []
    for _ in range(ne):
        k = rand_key(rng, kh)
        if entries and rng.random() < 0.15:
            k = rng.choice(entries)[0]                      # repeated key
        elif entries and rng.random() < 0.1:
            k0 = rng.choice(entries)[0]                     # near-duplicate key: other case / longer / shorter
            k = rng.choice([flip_case(k0), k0 + rand_str(rng, 1, 1), k0[:-1] or k0])
        r = rng.random()
        v = None if r < 0.3 else (b"" if r < 0.4 else rand_str(rng, 1, vh))
        entries.append((k, v))
    if profile == "huge":
        # one value (or the values together) carry the block over 65535 bytes
        need = 65536 + rng.randint(0, 3000) - len(ser(entries))
        idxs = [rng.randrange(ne)] if rng.random() < 0.5 else list(range(ne))
        for j in idxs:
            k, v = entries[j]
            entries[j] = (k, (v or b"") + rand_str(rng, need // len(idxs) + 1, need // len(idxs) + 1))
    return entries


def rand_query(rng, entries, stats):
    """returns a NUL-free key to look up"""
    r = rng.random()
    k = rng.choice(entries)[0]
    if r < 0.5:
        kind, key = "present", k
    elif r < 0.65:
        kind, key = "random", rand_key(rng, max(3, min(len(k), 20)))
    else:
        c = rng.randint(0, 7)
        if c == 0:
            kind, key = "colon+k", b":" + k
        elif c == 1:
            kind, key = "k+byte", k + rand_str(rng, 1, 1)
        elif c == 2:
            kind, key = "k-last", k[:-1]
        elif c == 3:
            kind, key = "case-flipped", flip_case(k)
        elif c == 4:
            j = rng.randrange(len(k))
            b = k[j] ^ 0x80
            kind, key = "high-bit", k[:j] + bytes([b if b else 0xff]) + k[j + 1:]
        elif c == 5:
            kind, key = "empty", b""
        elif c == 6:
            vs = [v for _, v in entries if v]
            kind, key = "value-as-key", (rng.choice(vs) if vs else b"=")
        else:
            kind, key = "eq+k", b"=" + k
    stats["queries"][kind] = stats["queries"].get(kind, 0) + 1
    if all(kk != key for kk, _ in entries):
        stats["absent_key_queries"] += 1
    return key


def variant(rng, entries, stats):
    """a block outside the statement; the model is still defined on it"""
    block = ser(entries)
    c = rng.randint(0, 8)
    name = ["extra-nul", "no-leading-colon", "single-nul", "null", "truncated", "truncated-1", "special",
            "empty-key", "colon-key"][c]
    if c == 0:
        block = block + b"\0" * rng.randint(1, 3)
    elif c == 1:
        block = block[1:]
    elif c == 2:
        block = b"\0"
    elif c == 3:
        block = b""                                         # metadata == NULL
    elif c == 4:
        block = block[:rng.randint(1, len(block) - 1)]
    elif c == 5:
        block = block[:-rng.randint(1, 2)]
    elif c == 6:
        j = rng.randint(0, len(entries))
        block = ser(entries[:j])[:-1] + b":special\0" + rand_str(rng, 0, 4) + b"\0" + ser(entries[j:])
    elif c == 7:
        j = rng.randint(0, len(entries))
        block = ser(entries[:j] + [(b"", rng.choice([None, b"", b"a"]))] + entries[j:])
    else:
        j = rng.randint(0, len(entries))
        block = ser(entries[:j] + [(b":" + rand_key(rng), rng.choice([None, b"1"]))] + entries[j:])
    stats["variants"][name] = stats["variants"].get(name, 0) + 1
    return block


def fixed_ops(rng, stats, per_row):
    for i, entries in enumerate(FIXED):
        keys = [k for k, _ in entries]
        qs = [keys[0], keys[-1], b"documentation", b"min", b"default", b"Default", b":" + keys[-1]]
        for _ in range(per_row):
            qs.append(rand_query(rng, entries, stats))
        for q in qs:
            stats["macro_rows"] += 1
            yield "M %d %s %s" % (i, hx(q), spec_token(entries))
    for i, block in SPECIAL:
        for q in (b"special", b"disable", b"default", b"nope"):
            stats["macro_rows_outside"] += 1
            yield "M %d %s ? %s" % (i, hx(q), hx(block))


def generate(rng, tier, stats):
    quick = tier == "quick"
    n = 4000 if quick else 150000
    stats.update({"wf_blocks": 0, "variant_blocks": 0, "entries_hist": {}, "valueless": 0, "empty_value": 0,
                  "dup_key_blocks": 0, "absent_key_queries": 0, "queries": {}, "variants": {}, "profiles": {},
                  "macro_rows": 0, "macro_rows_outside": 0, "max_block_bytes": 0, "blocks_over_257": 0,
                  "blocks_over_65535": 0, "blocks_with_high_bytes": 0, "blocks_with_both_cases": 0})
    yield from fixed_ops(rng, stats, 3 if quick else 40)
    nhuge = 3 if quick else 24
    for it in range(n):
        r = rng.random()
        if it < nhuge:
            profile = "huge"
        elif r < (0.80 if quick else 0.94):
            profile = "small"
        elif r < (0.90 if quick else 0.97):
            profile = "long"
        else:
            profile = "many"
        entries = rand_entries(rng, profile)
        ne = len(entries)
        # (each variant costs the harness a fork of the ASan process, ~50 ms: 2 % of the thorough stream)
        if profile != "huge" and rng.random() < (0.1 if quick else 0.02):
            stats["variant_blocks"] += 1
            key = rand_query(rng, entries, {"queries": {}, "absent_key_queries": 0})
            yield "%s %s ?" % (hx(variant(rng, entries, stats)), hx(key))
            continue
        stats["profiles"][profile] = stats["profiles"].get(profile, 0) + 1
        stats["entries_hist"][str(ne)] = stats["entries_hist"].get(str(ne), 0) + 1
        stats["valueless"] += sum(1 for _, v in entries if v is None)
        stats["empty_value"] += sum(1 for _, v in entries if v == b"")
        if len(set(k for k, _ in entries)) < ne:
            stats["dup_key_blocks"] += 1
        key = rand_query(rng, entries, stats)
        block = ser(entries)
        stats["max_block_bytes"] = max(stats["max_block_bytes"], len(block))
        stats["blocks_over_257"] += len(block) > 257
        stats["blocks_over_65535"] += len(block) > 65535
        stats["blocks_with_high_bytes"] += any(c >= 0x80 for c in block)
        stats["blocks_with_both_cases"] += any(97 <= c <= 122 for c in block) and any(65 <= c <= 90 for c in block)
        stats["wf_blocks"] += 1
        yield "%s %s %s" % (hx(block), hx(key), spec_token(entries))


def nontrivial(op):
    w = op.split()
    if w[0] == "M":
        return len(w) > 3 and w[3] != "?"
    return len(w) > 2 and w[2] != "?" and (";" in w[2] or not w[2].endswith("=N"))


def unhx(s):
    return b"" if s == "-" else bytes.fromhex(s)


def may_read_past(block):
    """Outside the statement only this is asked: a reader may run past the block only if the block (after
    Port::meta() stripped one ':') neither starts with NUL nor contains the terminating double NUL."""
    if not block:
        return False                    # metadata == NULL
    rest = block[1:] if block[0:1] == b":" else block
    if rest[0:1] == b"\0":
        return False
    return b"\0\0" not in rest


def expected(entries, key, block):
    exp_pairs = ",".join(hx(k) + "=" + ("NULL" if v is None else hx(v)) for k, v in entries)
    first = next(((k, v) for k, v in entries if k == key), None)
    g = "NULL" if first is None or first[1] is None else hx(first[1])
    f = 1 if first is not None else 0
    return "P %s G %s F %d L %d" % (exp_pairs, g, f, len(block))


def parse_spec(tok):
    entries = []
    for e in tok.split(";"):
        k, v = e.split("=")
        entries.append((unhx(k), None if v == "N" else unhx(v)))
    return entries


def short(s):
    return s if len(s) < 600 else s[:300] + "…" + s[-200:]


def oracle(op, out):
    """The property itself, evaluated on the implementation's output."""
    w = op.split()
    macro = w[0] == "M"
    if macro:
        w = w[1:]                       # <i> <key> <spec> [<block>]
    if len(w) < 3:
        return None
    if w[2] == "?":
        block = unhx(w[3]) if macro else unhx(w[0])
        if out == "V ok":
            return None
        if out == "V oob" and may_read_past(block) and not macro:
            return None
        return "block outside the statement: the readers must end normally, implementation: " + short(out)
    entries = parse_spec(w[2])
    key = unhx(w[1])
    if macro:
        block = ser(entries)
        exp = "M %s %s" % (hx(block), expected(entries, key, block))
        if out != exp:
            if out.split()[1:2] != [hx(block)] and out.startswith("M "):
                return ("row %s of the macro-built port table is not the serialisation of its entries: expected block %s"
                        % (w[0], short(hx(block))))
            return "expected `%s`" % short(exp)
        return None
    block = unhx(w[0])
    exp = expected(entries, key, block)
    if out != exp:
        return "expected `%s`" % short(exp)
    return None


LEVEL_TEXT = ("Lean theorems (iterate_serialize, get_first, find_presence, length_serialize) hold for every well-formed "
              "metadata block of any size, macros_serialize says that rProp/rMap/rDoc/rOptions/rPreset texts written side by "
              "side are such a block; the model they are about is compared with the compiled implementation on "
              "thousands of generated blocks per run (up to > 64 KiB), the specification `serialize` is compared with what the "
              "real port-sugar.h macros emit on a fixed port table, and the property is also evaluated directly on the "
              "implementation's output")
LEVEL_NOTE = ("that rProp/rMap/rDoc/rOptions/rPreset/… produce `serialize` of their entries is checked on the fixed table of "
              "harness/meta.cpp on every run, not proved (the preprocessor is not modelled); rSpecial is outside `serialize`'s "
              "image and outside the statement")
