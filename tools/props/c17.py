"""C17 — Port metadata is read back exactly as written."""
PROP = "C17"
ENGINE = "meta"
LEAN_MODULES = ["RtoscModel.Props.C17"]
THEOREMS = ["Rtosc.Meta.iterate_serialize", "Rtosc.Meta.get_first", "Rtosc.Meta.find_presence",
            "Rtosc.Meta.length_serialize"]
HARNESS = {"src": ["meta.cpp"]}
RULE = ("blocks are serialised from generated entry lists (1..8 entries, keys/values over the alphabet "
        "a b c : = space 0 1, empty values, repeated keys, valueless entries) plus a stream of near-well-formed "
        "variants; each block is queried with a present or absent key; a case is non-trivial when the block has "
        ">= 2 entries or a value; distinct = distinct op line")
ASSUMPTIONS = ["entries are well-formed: key non-empty, NUL-free, not starting with ':'; values NUL-free",
               "the container is obtained through Port::meta() (leading ':' stripped)"]
TRUSTED = ["hand-written model RtoscModel/Meta.lean of metaiterator_advance, MetaIterator::operator++, "
           "MetaContainer::begin/find/length/operator[], Port::meta()"]

ALPH = b"abc:= 01"


def hx(b):
    return b.hex() if b else "-"


def ser(entries):
    out = b""
    for k, v in entries:
        out += b":" + k + b"\0"
        if v is not None:
            out += b"=" + v + b"\0"
    return out + b"\0"


def rand_str(rng, lo, hi):
    n = rng.randint(lo, hi)
    return bytes(rng.choice(ALPH) for _ in range(n))


def rand_key(rng):
    while True:
        k = rand_str(rng, 1, 3)
        if k[0:1] != b":":
            return k


def spec_token(entries):
    return ";".join(hx(k) + "=" + ("N" if v is None else hx(v)) for k, v in entries)


def generate(rng, tier, stats):
    n = 4000 if tier == "quick" else 150000
    stats.update({"wf_blocks": 0, "variant_blocks": 0, "entries_hist": {}, "valueless": 0, "empty_value": 0,
                  "dup_key_blocks": 0, "absent_key_queries": 0})
    for _ in range(n):
        ne = rng.randint(1, 8)
        entries = []
        for _ in range(ne):
            k = rand_key(rng)
            r = rng.random()
            v = None if r < 0.3 else (b"" if r < 0.4 else rand_str(rng, 1, 4))
            entries.append((k, v))
        stats["entries_hist"][str(ne)] = stats["entries_hist"].get(str(ne), 0) + 1
        stats["valueless"] += sum(1 for _, v in entries if v is None)
        stats["empty_value"] += sum(1 for _, v in entries if v == b"")
        if len(set(k for k, _ in entries)) < ne:
            stats["dup_key_blocks"] += 1
        if rng.random() < 0.7:
            key = rng.choice(entries)[0]
        else:
            key = rand_key(rng)
            if all(k != key for k, _ in entries):
                stats["absent_key_queries"] += 1
        block = ser(entries)
        if rng.random() < 0.1:
            # near-well-formed variants (outside the theorem's hypothesis, inside the model's domain)
            stats["variant_blocks"] += 1
            c = rng.randint(0, 2)
            if c == 0:
                block = block + b"\0" * rng.randint(1, 3)
            elif c == 1:
                block = block[1:]          # no leading ':'
            else:
                block = b"\0"
            yield "%s %s ?" % (hx(block), hx(key))
        else:
            stats["wf_blocks"] += 1
            yield "%s %s %s" % (hx(block), hx(key), spec_token(entries))


def nontrivial(op):
    w = op.split()
    return len(w) > 2 and w[2] != "?" and (";" in w[2] or not w[2].endswith("=N"))


def unhx(s):
    return b"" if s == "-" else bytes.fromhex(s)


def oracle(op, out):
    """The property itself, evaluated on the implementation's output."""
    w = op.split()
    if len(w) < 3 or w[2] == "?":
        return None if not out.startswith("crash") else "implementation crashed: " + out
    entries = []
    for e in w[2].split(";"):
        k, v = e.split("=")
        entries.append((unhx(k), None if v == "N" else unhx(v)))
    key = unhx(w[1])
    block = unhx(w[0])
    exp_pairs = ",".join(hx(k) + "=" + ("NULL" if v is None else hx(v)) for k, v in entries)
    first = next(((k, v) for k, v in entries if k == key), None)
    g = "NULL" if first is None or first[1] is None else hx(first[1])
    f = 1 if first is not None else 0
    exp = "P %s G %s F %d L %d" % (exp_pairs, g, f, len(block))
    if out != exp:
        return "expected `%s`" % exp
    return None

LEVEL_TEXT = ("Lean theorems (iterate_serialize, get_first, find_presence, length_serialize) hold for every well-formed "
              "metadata block of any size; the model they are about is compared with the compiled implementation on "
              "thousands of generated blocks per run, and the property is also evaluated directly on the implementation's output")
