"""C02 — Fixed-buffer discipline: never write past the caller's buffer, fail closed."""
import os
import re

from props import c01 as C01
from props import c08 as C08

PROP = "C02"
ENGINE = "oscbuf"
LEAN_MODULES = ["RtoscModel.Props.C02"]
THEOREMS = [
    "Rtosc.Osc.amessage_never_oob",
    "Rtosc.Osc.amessage_fail_closed",
    "Rtosc.Osc.amessage_fit_exact",
    "Rtosc.Osc.amessage_null_size",
    "Rtosc.Osc.amessage_null_any_len",
    "Rtosc.Osc.sent_same_size",
    "Rtosc.Osc.sent_eq_self",
    "Rtosc.Osc.vmessage_fixed_buffer",
    "Rtosc.Osc.vmessage_fixed_buffer_bytes",
    "Rtosc.Osc.message_fixed_buffer",
    "Rtosc.Osc.message_fixed_buffer_bytes",
    "Rtosc.Osc.bundle_never_oob",
    "Rtosc.Osc.bundle_fail_closed",
    "Rtosc.Osc.bundle_exact_size",
    "Rtosc.Osc.bundle_fixed_buffer",
    "Rtosc.Osc.appendBundle_never_oob",
    "Rtosc.Osc.appendBundle_fail_closed",
    "Rtosc.Osc.appendBundle_fit_exact",
    "Rtosc.Osc.appendBundle_chain_after_failure",
    "Rtosc.Osc.appendBundle_chain_never_oob",
    "Rtosc.Osc.tlink_writeArray_fixed_buffer",
    "Rtosc.Osc.tlink_write_fixed_buffer",
    "Rtosc.Osc.tlink_write_fixed_buffer_bytes",
    "Rtosc.Osc.rtdata_reply_fixed_buffer",
    "Rtosc.Osc.rtdata_reply_fixed_buffer_bytes",
    "Rtosc.Osc.wrapper_overclaim_detected",
    "Rtosc.Osc.amessage_eq_amessageFast",
    "Rtosc.Osc.BW.stores_eq_storesFast",
]
HARNESS = {"src": ["oscbuf.cpp"], "deps": ["common.h", "bundle_common.h"]}
RULE = ("every message from C01's space (type strings exhaustively up to length 2, random up to 8 / 24 / 100 tags, boundary "
        "values, NULL blob data; one argument or the address of length 100, 255..257, 1023..1025, 4096 in every run and "
        "65535..65537 in rotation) and every bundle from C08's space (0..8 elements, nesting 0..4; a fraction with 9..32 "
        "elements), each built by rtosc_amessage / rtosc_vmessage (hand-built va_list) / rtosc_message (17 literal call "
        "sites) / rtosc_bundle into EVERY capacity 0..needed+8 (longer ones: windows 0..24 and needed-8..needed+8; above "
        "4 KiB 0..8 and needed-3..needed+2) on an exact-size heap block under ASan and once more on a block with a 16-byte "
        "canary; the size query with (NULL,0) and (NULL,hi); ThreadLink::writeArray/write with MaxMsg around the needed "
        "size; RtData::reply/broadcast (literal call sites) with messages around the size of their stack buffer (size and "
        "capacity passed are read from src/cpp/ports.cpp of the tree under test). A small stream of type strings with "
        "bytes that are no tags is checked for stores outside the block only (not compared with the model). "
        "Non-trivial = a message with a payload argument or a bundle with an element; distinct = distinct op line")
ASSUMPTIONS = ["message arguments as in C01 (address non-empty and NUL-free, strings NUL-free, 0 <= blob length < 2^31 and "
               "not larger than the data block, NULL blob data allowed)",
               "bundle elements as in C08 (well-formed; a nested bundle is followed by a zero word inside its block)",
               "variadic entry points (rtosc_message, rtosc_vmessage, ThreadLink::write, RtData::reply/broadcast): the "
               "theorems about stores, return values, fail-closed and exact size have NO hypothesis on the float "
               "conversions (narrow : double -> float and widen : float -> double are arbitrary functions on bit "
               "patterns); they say that the bytes written are the encoding of the message sent = the caller's message "
               "with each value under an 'f' tag replaced by narrow(widen v), whose size is that of the caller's message "
               "(sent_same_size). Only the ..._bytes corollaries (the bytes are the encoding of the caller's message "
               "itself) assume that every value under an 'f' tag satisfies narrow(widen v) = v (C01's f-only hypothesis "
               "fArgs: true of IEEE-754 for every non-signalling pattern; int/char/colour arguments are not constrained); "
               "the correspondence runs signalling NaNs too",
               "the wrappers' theorems have the hypothesis that the capacity passed is not larger than the buffer owned "
               "(MaxMsg <= size of write_buffer; cap <= size of the stack buffer): wrapper_overclaim_detected shows that the "
               "model flags a wrapper that claims more; the va_list hand-off itself is not modelled (the list of promoted "
               "values is), the wrappers are exercised through 17 literal call sites each"]
TRUSTED = ["hand-written models RtoscModel/Osc/Encode.lean (C01) and RtoscModel/Osc/Bundle.lean of src/rtosc.c",
           "x86-64 SysV va_list layout (hand-built va_list in harness/oscbuf.cpp)",
           "the compiled driver runs amessageFast / BW.storesFast (linear splices) in place of amessage / BW.stores; both "
           "are proved equal to the model functions (csimp rules amessage_eq_amessageFast, BW.stores_eq_storesFast)"]
LEVEL_TEXT = ("Lean theorems, for every capacity and every well-formed input: the out-of-bounds-store flag of "
              "rtosc_amessage / rtosc_vmessage / rtosc_message / rtosc_bundle (after fix C02-bundle-len) is never set; "
              "if the encoding does not fit they return 0 and leave len zero bytes; otherwise they return exactly the "
              "encoded size and write exactly the encoding; the NULL-buffer size equals that size, whatever len is passed "
              "with NULL; for rtosc_bundle the store-safety and fail-closed theorems hold for arbitrary element bytes. "
              "For append_bundle (arbitrary blocks and lengths, max_len <= block size): never a store outside; it fails "
              "exactly when its guard max_len < dst_len+src_len+4 || dst_len == 0 || src_len == 0 fires, then it returns 0 "
              "and the destination holds exactly the bytes it held before (it does not zero-fill: the bundle built so "
              "far stays intact; this is what the code documents, and differs from the zero-fill of the constructors); "
              "otherwise it returns exactly dst_len+4+src_len and splices size field and element in at dst_len, every "
              "other byte untouched; in the chain len = append_bundle(buffer, src_i, buffer_size, len, n_i) of "
              "subtree_serialize, once one append fails it and every later append return 0 and the destination keeps the "
              "bytes it had before the failing call, and the whole chain never stores outside the block (on well-formed "
              "contents the result is C08's appendBundle_eq_spec). rtosc_message and the wrappers "
              "writing into write_buffer[MaxMsg] and the stack buffer of RtData::reply/broadcast are stated for a caller "
              "that owns a block and claims a capacity (callAt): under the hypothesis capacity <= block size nothing is "
              "stored outside and the bytes behind the capacity keep their values. The variadic theorems (rtosc_vmessage, "
              "rtosc_message, ThreadLink::write, RtData::reply/broadcast) hold for arbitrary float<->double conversions: "
              "no store outside, 0 and zero bytes if too small, otherwise exactly the encoded size of the caller's message "
              "and the encoding of the message sent (the 'f' values converted to double and back; same size); that these "
              "bytes are the encoding of the caller's message itself is proved under the hypothesis that the values under "
              "an 'f' tag, and only those, survive float -> double -> float. The models are compared with the compiled implementation on every capacity "
              "of exact-size heap blocks (ASan red zones + canaries), and the property is evaluated directly on the "
              "implementation's output")
LEVEL_NOTE = ("Trusted: Lean kernel; the hand-written model is tied to the code by differential execution only; see "
              "evidence trusted_base. No float hypothesis is left in the discipline theorems of the variadic entry points "
              "(only the ..._bytes corollaries assume that the values under an 'f' tag survive float -> double -> float). "
              "Open: the exact-size theorem of rtosc_bundle needs well-formed elements whose nested bundles are followed by "
              "a zero word (C08-K4), its store-safety and fail-closed theorems do not; messages and bundles of 2^32 bytes "
              "or more are outside the theorems (unsigned pos wraps); the va_list hand-off is not modelled (the list of "
              "promoted values is); for append_bundle the chain theorem is about the sequence of calls subtree_serialize "
              "makes (len fed back), not about subtree_serialize's port walk and message capture, which are not modelled")

hx = C01.hx
unhx = C01.unhx
# type strings of the literal call sites: same list in harness/oscbuf.cpp and lean/Driver/OscbufEngine.lean
TEMPLATES = [b"", b"s", b"isi", b"ss", b"b", b"ifs", b"sT", b"hd", b"c", b"m", b"tS", b"rf", b"TFNI", b"iiiiiiii", b"sbs",
             b"dfhi", b"[sb]i"]
BIG = [100, 255, 256, 257, 1023, 1024, 1025, 4096]
HUGE = [65535, 65536, 65537]


def rtdata_caps():
    """(N, cap) of RtData::reply and RtData::broadcast: `char buffer[N]; rtosc_vmessage(buffer,cap,...)` as written in
    src/cpp/ports.cpp of the tree under test (the property does not fix the number 8192)."""
    import vlib
    out = {}
    try:
        src = open(os.path.join(vlib.REPO, "src/cpp/ports.cpp")).read()
    except OSError:
        src = ""
    for name in ("reply", "broadcast"):
        n, c = 8192, 8192
        m = re.search(r"void\s+RtData::%s\s*\(\s*const\s+char\s*\*\s*path\s*,\s*const\s+char\s*\*\s*args\s*,\s*\.\.\.\s*\)"
                      r"\s*\{(.*?)\n\}" % name, src, re.S)
        if m:
            mb = re.search(r"char\s+buffer\s*\[\s*(\d+)\s*\]", m.group(1))
            mc = re.search(r"rtosc_vmessage\s*\(\s*buffer\s*,\s*([^,]+?)\s*,", m.group(1))
            if mb and mc:
                n = int(mb.group(1))
                e = mc.group(1).replace(" ", "")
                c = int(e) if e.isdigit() else (n if e in ("sizeof(buffer)", "sizeofbuffer") else None)
                if c is None:
                    n, c = 8192, 8192
        out[name] = (n, c)
    return out



def payload_tags(tags):
    return [t for t in tags if bytes([t]) in C01.PAYLOAD]


def abstract_args(mode, tags, args):
    return [C01.narrow(a) if (bytes([t]) == b"f" and mode in "VL") else a for t, a in zip(payload_tags(tags), args)]


def m_line(mode, lo, hi, addr, tags, args):
    return " ".join(["M", mode, str(lo), str(hi), hx(addr), hx(tags)] + [C01.tok(mode, t, a) for t, a in zip(payload_tags(tags), args)])


def new_stats():
    return {"empty_str": 0, "null_blob": 0, "f_via_double": 0}


def rand_message(rng, tags, mode, st, addr=None):
    addr = addr or C01.rand_addr(rng)
    args = [C01.rand_arg(rng, t, mode, st) for t in payload_tags(tags)]
    need = len(C01.encode(addr, tags, abstract_args(mode, tags, args)))
    return addr, args, need


def windows(need):
    if need + 8 <= 96:
        return [(0, need + 8)]
    if need > 4096:
        return [(0, 8), (need - 3, need + 2)]
    return [(0, 24), (max(need - 8, 25), need + 8)]


def big_value(rng, n):
    return bytes(rng.randint(1, 255) for _ in range(n))


def big_message(rng, n, field, mode, st):
    """a message one of whose parts (address, string, blob with data, blob with NULL data) has n bytes"""
    if mode == "L":
        tags = {"addr": rng.choice(TEMPLATES), "str": rng.choice([b"s", b"ss", b"sbs", b"isi"]),
                "blob": rng.choice([b"b", b"sbs", b"[sb]i"]), "nullblob": rng.choice([b"b", b"sbs"])}[field]
    else:
        tags = C01.rand_tags(rng, 0, 3)
        ins = {"addr": b"", "str": rng.choice([b"s", b"S"]), "blob": b"b", "nullblob": b"b"}[field]
        k = rng.randint(0, len(tags))
        tags = tags[:k] + ins + tags[k:]
    pt = payload_tags(tags)
    args = [C01.rand_arg(rng, t, mode, st) for t in pt]
    addr = C01.rand_addr(rng)
    want = {"str": b"sS", "blob": b"b", "nullblob": b"b"}.get(field)
    if field == "addr":
        addr = b"/" + bytes(rng.randint(0x21, 0x7e) for _ in range(n - 1))
    else:
        idx = [i for i, t in enumerate(pt) if bytes([t]) in want]
        i = rng.choice(idx)
        if field == "str":
            args[i] = big_value(rng, n)
        elif field == "blob":
            args[i] = (n, bytes(rng.getrandbits(8) for _ in range(n)) + (b"xy" if rng.random() < 0.3 else b""))
        else:
            args[i] = (n, None)
    need = len(C01.encode(addr, tags, abstract_args(mode, tags, args)))
    return addr, tags, args, need


def generate(rng, tier, stats):
    quick = tier == "quick"
    st = new_stats()
    caps = rtdata_caps()
    stats.update({"msg_sweeps": 0, "bundle_sweeps": 0, "capacities": 0, "mode_A": 0, "mode_V": 0, "mode_L": 0, "junk_tags": 0,
                  "tlink_writeArray": 0, "tlink_write": 0, "rtdata": 0, "rtdata_over_cap": 0, "need_hist": [0] * 12,
                  "ntags_hist": [0] * 6, "big_parts": {}, "bundle_depth_hist": [0] * 5, "bundle_elems_hist": [0] * 6,
                  "rtdata_buffers": {k: list(v) for k, v in caps.items()}})

    def sweep(mode, addr, tags, args, need):
        for lo, hi in windows(need):
            stats["msg_sweeps"] += 1
            stats["capacities"] += hi - lo + 1
            stats["mode_" + mode] += 1
            stats["need_hist"][min(need // 16, 11)] += 1
            stats["ntags_hist"][min(len(tags) // 8, 5)] += 1
            yield m_line(mode, lo, hi, addr, tags, args)

    # parts of 64 KiB first (the Lean driver is slowest on them; they end up in different driver chunks)
    huge = []
    fields = ["addr", "str", "blob", "nullblob"]
    off = rng.randrange(4)
    for j, n in enumerate(HUGE * 2 if quick else HUGE * 4):
        field = fields[(off + j) % 4] if quick else fields[(j // 3) % 4]
        mode = rng.choice("AVL")
        addr, tags, args, need = big_message(rng, n, field, mode, st)
        stats["big_parts"]["%s:%d" % (field, n)] = stats["big_parts"].get("%s:%d" % (field, n), 0) + 1
        huge.append(list(sweep(mode, addr, tags, args, need)))

    def body():
        # exhaustive small type strings
        for tags in C01.all_tag_strings(2):
            for _ in range(1 if quick else 6):
                mode = rng.choice("AV")
                addr, args, need = rand_message(rng, tags, mode, st)
                yield from sweep(mode, addr, tags, args, need)
        # every address length 1..20 (every residue mod 4)
        for n in range(1, 21):
            tags = C01.rand_tags(rng, 0, 3)
            addr, args, need = rand_message(rng, tags, "A", st, addr=C01.rand_addr(rng, n))
            yield from sweep("A", addr, tags, args, need)
        # rtosc_message itself: every literal call site
        for k, tags in enumerate(TEMPLATES):
            for _ in range(4 if quick else 60):
                addr, args, need = rand_message(rng, tags, "L", st)
                yield from sweep("L", addr, tags, args, need)
        # one long part: address / string / blob / blob without data
        for n in BIG:
            for field in fields:
                for _ in range(1 if quick else 6):
                    mode = rng.choice("AVL")
                    addr, tags, args, need = big_message(rng, n, field, mode, st)
                    stats["big_parts"]["%s:%d" % (field, n)] = stats["big_parts"].get("%s:%d" % (field, n), 0) + 1
                    yield from sweep(mode, addr, tags, args, need)
        # random messages
        for _ in range(2500 if quick else 60000):
            r = rng.random()
            tags = C01.rand_tags(rng, 0, 8) if r < 0.7 else C01.rand_tags(rng, 0, 24) if r < 0.9 else C01.rand_tags(rng, 25, 100)
            mode = rng.choice("AV")
            addr, args, need = rand_message(rng, tags, mode, st)
            yield from sweep(mode, addr, tags, args, need)
        # type strings with bytes that are not tags (default branches): stores outside the block only
        for _ in range(120 if quick else 4000):
            tags = bytes(rng.choice(b"ifsbTx.Z0a") for _ in range(rng.randint(1, 6)))
            if all(bytes([t]) in C01.TAGS for t in tags):
                tags += b"x"
            mode = rng.choice("AV")
            addr = C01.rand_addr(rng)
            args = [C01.rand_arg(rng, t, mode, st) for t in payload_tags(tags)]
            stats["junk_tags"] += 1
            yield " ".join(["J"] + m_line(mode, 0, 64, addr, tags, args).split()[1:])
        # bundles
        for _ in range(2000 if quick else 50000):
            if rng.random() < 0.15:
                kids = [("m", C08.rand_msg(rng, small=True)) if rng.random() < 0.85 else C08.rand_tree(rng, 0, 2, small=True)
                        for _ in range(rng.randint(9, 32))]
                t = C08.set_caps(rng, ["B", C08.rand_tt(rng), None, kids], lambda s: s)
            else:
                t = C08.set_caps(rng, C08.rand_tree(rng, rng.randint(0, 4), rng.choice([1, 2, 3, 4, 8]), small=True), lambda s: s)
            need = len(C08.enc(t))
            stats["bundle_depth_hist"][min(C08.depth_of(t) - 1, 4)] += 1
            stats["bundle_elems_hist"][min(len(t[3]) // 8, 5)] += 1
            for lo, hi in windows(need):
                stats["bundle_sweeps"] += 1
                stats["capacities"] += hi - lo + 1
                yield " ".join(["B", str(lo), str(hi)] + C08.tokens(t))
        # ThreadLink::writeArray
        for _ in range(500 if quick else 20000):
            tags = C01.rand_tags(rng, 0, 6)
            addr, args, need = rand_message(rng, tags, "A", st)
            maxmsg = max(1, need + rng.choice([-9, -4, -1, 0, 0, 1, 4, 8, 40]))
            stats["tlink_writeArray"] += 1
            yield " ".join(["T", str(maxmsg), hx(addr), hx(tags)] + [C01.tok("A", t, a) for t, a in zip(payload_tags(tags), args)])
        # ThreadLink::write and RtData::reply / broadcast through literal call sites
        for _ in range(600 if quick else 20000):
            k = rng.randrange(len(TEMPLATES))
            tags = TEMPLATES[k]
            addr, args, need = rand_message(rng, tags, "V", st)
            toks = [C01.tok("V", t, a) for t, a in zip(payload_tags(tags), args)]
            r = rng.random()
            if r < 0.5:
                maxmsg = max(1, need + rng.choice([-9, -4, -1, 0, 0, 1, 4, 8, 40]))
                stats["tlink_write"] += 1
                yield " ".join(["W%d" % k, str(maxmsg), hx(addr)] + toks)
            else:
                stats["rtdata"] += 1
                c = rng.choice("RQ")
                n, cap = caps["reply" if c == "R" else "broadcast"]
                yield " ".join(["%s%d" % (c, k), str(n), str(cap), hx(addr)] + toks)
        # RtData::reply / broadcast around the size of the stack buffer / the capacity passed
        for j in range(24 if quick else 200):
            c = "RQ"[j % 2]
            n, cap = caps["reply" if c == "R" else "broadcast"]
            addr = C01.rand_addr(rng, rng.randint(1, 8))
            head = len(C01.pad_str(addr)) + 4
            around = cap if (j // 2) % 3 else n
            ln = around - head - rng.choice([0, 1, 2, 3, 4, 5, 8]) + rng.choice([-4, 0, 0, 1, 4, 9])
            s_ = C01.rand_nonnul(rng, max(ln, 0))
            need = len(C01.encode(addr, b"s", [s_]))
            stats["rtdata"] += 1
            stats["rtdata_over_cap"] += need > cap
            yield " ".join(["%s1" % c, str(n), str(cap), hx(addr), "s" + hx(s_)])

    rest = list(body())
    # spread the expensive lines evenly over the op list
    step_ = max(len(rest) // (len(huge) + 1), 1)
    pos = 0
    for i, grp in enumerate(huge):
        yield from rest[pos:pos + step_]
        pos += step_
        yield from grp
    yield from rest[pos:]


def nontrivial(op):
    w = op.split()
    if w[0] in "MJ":
        return len(w) > 6
    if w[0] == "B":
        return any(x[0] == "m" for x in w[3:])
    return True


# ---------------------------------------------------------------------------------------
# the property, evaluated on the implementation's output
# ---------------------------------------------------------------------------------------
def parse_args(tags, toks):
    """abstract values (what the encoding must contain) from arg tokens"""
    args = []
    k = 0
    for t in tags:
        tb = bytes([t])
        if tb not in C01.PAYLOAD:
            continue
        x = toks[k]
        k += 1
        if x[0] in "wm":
            args.append(int(x[1:], 16))
        elif x[0] == "q":
            v = int(x[1:], 16)
            args.append(C01.narrow(v) if tb == b"f" else v)
        elif x[0] == "s":
            args.append(unhx(x[1:]))
        else:
            n, d = x[1:].split(":")
            args.append((int(n), None if d == "N" else unhx(d)))
    return args


def parse_caps(s):
    out = []
    for part in s.split(","):
        cap, ret, blk = part.split(":")
        out.append((int(cap), ret, blk))
    return out


def check_sweep(out, lo, hi, need, spec, with_z):
    """need/spec None: only the safety clauses (any input)."""
    if out.startswith("crash"):
        return "construction crashed (store or read outside a block): " + out
    f = C08.fields(out)
    if "c" not in f or "g" not in f:
        return "unparsable output"
    if f["g"] != "ok":
        return "canary run differs or canary destroyed: g=" + f["g"]
    z = None
    if with_z:
        if not f.get("z", "").isdigit() or not f.get("zh", "").isdigit():
            return "unparsable output"
        z = int(f["z"])
        if need is not None and z != need:
            return "NULL buffer: returned %d, the encoding has %d bytes" % (z, need)
        if int(f["zh"]) != z:
            return "NULL buffer with len = %d: returned %s, with len = 0: %d" % (hi, f["zh"], z)
    caps = parse_caps(f["c"])
    if [c[0] for c in caps] != list(range(lo, hi + 1)):
        return "capacities missing in output"
    size = need if need is not None else z
    for cap, ret, blk in caps:
        if "!" in blk or not ret.isdigit():
            return "capacity %d: return value exceeds len" % cap
        ret = int(ret)
        buf = C08.unhx_z(blk)
        if ret > cap:
            return "capacity %d: returned %d" % (cap, ret)
        if len(buf) != (cap if ret == 0 else ret):
            return "capacity %d: %d bytes reported" % (cap, len(buf))
        if ret == 0 and any(buf):
            return "capacity %d: returned 0 but the buffer is not zero-filled" % cap
        if size is not None:
            if cap < size and ret != 0:
                return "capacity %d < %d: returned %d instead of 0" % (cap, size, ret)
            if cap >= size and ret != size:
                return "capacity %d >= %d: returned %d" % (cap, size, ret)
        if spec is not None and cap >= need and buf != spec:
            return "capacity %d: bytes written differ from the encoding" % cap
    return None


def tlink_expected(maxmsg, spec):
    if len(spec) > maxmsg:
        return "n=0 w=%s" % C08.hexz(b"\0" * maxmsg)
    return "n=1 m=%d:%s" % (len(spec), hx(spec))


def oracle(op, out):
    w = op.split()
    if w[0] == "J":
        # outside the property's input space: only a store outside the block counts
        if out.startswith("crash:asan") or out.startswith("crash:signal:11"):
            return "construction with an unknown type character stored or read outside a block: " + out
        if "unsafe" in out or (out.startswith("g=") and not out.startswith("g=ok")):
            return "construction with an unknown type character: " + out[:120]
        return None
    if w[0] == "M":
        mode, lo, hi, addr, tags = w[1], int(w[2]), int(w[3]), unhx(w[4]), unhx(w[5])
        args = parse_args(tags, w[6:])
        if C01.wellformed(addr, tags, args):
            spec = C01.encode(addr, tags, args)
            return check_sweep(out, lo, hi, len(spec), spec, True)
        return None
    if w[0] == "B":
        lo, hi = int(w[1]), int(w[2])
        t, _ = C08.parse_tokens(w, 3)
        ok, _k4 = C08.nested_status(t)
        if not ok:
            return None
        spec = C08.enc(t)
        return check_sweep(out, lo, hi, len(spec), spec, False)
    if out.startswith("crash"):
        return "wrapper crashed (store or read outside a block): " + out
    if w[0] == "T":
        maxmsg, addr, tags = int(w[1]), unhx(w[2]), unhx(w[3])
        args = parse_args(tags, w[4:])
        if not C01.wellformed(addr, tags, args):
            return None
        exp = tlink_expected(maxmsg, C01.encode(addr, tags, args))
        return None if out == exp else "ThreadLink::writeArray: expected %s, got %s" % (exp[:120], out[:120])
    k = int(w[0][1:])
    tags = TEMPLATES[k]
    if w[0][0] == "W":
        maxmsg, addr = int(w[1]), unhx(w[2])
        args = parse_args(tags, w[3:])
        exp = tlink_expected(maxmsg, C01.encode(addr, tags, args))
        return None if out == exp else "ThreadLink::write: expected %s, got %s" % (exp[:120], out[:120])
    n, cap, addr = int(w[1]), int(w[2]), unhx(w[3])
    args = parse_args(tags, w[4:])
    spec = C01.encode(addr, tags, args)
    name = "reply" if w[0][0] == "R" else "broadcast"
    # cap = the capacity the wrapper passes for its own buffer (read from the source of the tree under test)
    exp = "%s=%d:%s" % (name, len(spec), hx(spec)) if len(spec) <= cap else "%s=0:-" % name
    return None if out == exp else "RtData::%s (buffer %d, capacity %d): expected %s, got %s" % (name, n, cap, exp[:120], out[:120])


def neighbours(op, rng):
    w = op.split()
    if w[0] == "B":
        t, _ = C08.parse_tokens(w, 3)
        need = len(C08.enc(t))
        yield " ".join(["B", "0", str(need + 8)] + C08.tokens(t))
        for k in t[3]:
            sub = ("B", t[1], 0, [k])
            yield " ".join(["B", "0", str(len(C08.enc(sub)) + 8)] + C08.tokens(sub))
    elif w[0] == "M":
        st = new_stats()
        tags = unhx(w[5])
        for _ in range(100):
            mode = rng.choice("AVL" if tags in TEMPLATES else "AV")
            addr, args, need = rand_message(rng, tags, mode, st)
            yield m_line(mode, 0, need + 8, addr, tags, args)
