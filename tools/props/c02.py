"""C02 — Fixed-buffer discipline: never write past the caller's buffer, fail closed."""
from props import c01 as C01
from props import c08 as C08

PROP = "C02"
ENGINE = "oscbuf"
LEAN_MODULES = ["RtoscModel.Props.C02"]
THEOREMS = [
    "Rtosc.Osc.amessage_never_oob",
    "Rtosc.Osc.amessage_fail_closed",
    "Rtosc.Osc.amessage_fit_exact",
    "Rtosc.Osc.amessage_null_size",
    "Rtosc.Osc.vmessage_fixed_buffer",
    "Rtosc.Osc.bundle_never_oob",
    "Rtosc.Osc.bundle_fail_closed",
    "Rtosc.Osc.bundle_exact_size",
    "Rtosc.Osc.bundle_fixed_buffer",
    "Rtosc.Osc.appendBundle_never_oob",
    "Rtosc.Osc.tlink_writeArray_fixed_buffer",
    "Rtosc.Osc.tlink_write_fixed_buffer",
    "Rtosc.Osc.rtdata_reply_fixed_buffer",
]
HARNESS = {"src": ["oscbuf.cpp"], "deps": ["common.h", "bundle_common.h"]}
RULE = ("every message from C01's space (type strings exhaustively up to length 2, random up to 8 tags, boundary values, "
        "NULL blob data) and every bundle from C08's space (0..8 elements, nesting 0..4), each built by rtosc_amessage / "
        "rtosc_vmessage / rtosc_bundle into EVERY capacity 0..needed+8 (longer ones: windows 0..24 and needed-8..needed+8) "
        "on an exact-size heap block under ASan and once more on a block with a 16-byte canary; NULL-buffer size; "
        "ThreadLink::writeArray/write with MaxMsg around the needed size; RtData::reply/broadcast (literal call sites) "
        "with messages around the 8192-byte stack buffer. Non-trivial = a message with a payload argument or a bundle "
        "with an element; distinct = distinct op line")
ASSUMPTIONS = ["message arguments as in C01 (address non-empty and NUL-free, strings NUL-free, 0 <= blob length < 2^31 and "
               "not larger than the data block, NULL blob data allowed)",
               "bundle elements as in C08 (well-formed; a nested bundle is followed by a zero word inside its block)",
               "the va_list hand-off of ThreadLink::write / RtData::reply / broadcast is not modelled (the list of promoted "
               "values is); those wrappers are exercised through 8 literal call sites"]
TRUSTED = ["hand-written models RtoscModel/Osc/Encode.lean (C01) and RtoscModel/Osc/Bundle.lean of src/rtosc.c",
           "x86-64 SysV va_list layout (hand-built va_list in harness/oscbuf.cpp)"]
LEVEL_TEXT = ("Lean theorems, for every capacity and every well-formed input: the out-of-bounds-store flag of "
              "rtosc_amessage / rtosc_vmessage / rtosc_bundle (after fix C02-bundle-len) / append_bundle is never set; "
              "if the encoding does not fit they return 0 and leave len zero bytes; otherwise they return exactly the "
              "encoded size and write exactly the encoding; the NULL-buffer size equals that size; for rtosc_bundle the "
              "store-safety and fail-closed theorems hold for arbitrary element bytes. The wrappers writing into "
              "write_buffer[MaxMsg] and char[8192] are corollaries. The models are compared with the compiled "
              "implementation on every capacity of exact-size heap blocks (ASan red zones + canaries), and the property is "
              "evaluated directly on the implementation's output")

hx = C01.hx
unhx = C01.unhx
TEMPLATES = [b"", b"s", b"isi", b"ss", b"b", b"ifs", b"sT", b"hd"]


def payload_tags(tags):
    return [t for t in tags if bytes([t]) in C01.PAYLOAD]


def abstract_args(mode, tags, args):
    return [C01.narrow(a) if (bytes([t]) == b"f" and mode == "V") else a for t, a in zip(payload_tags(tags), args)]


def m_line(mode, lo, hi, addr, tags, args):
    return " ".join(["M", mode, str(lo), str(hi), hx(addr), hx(tags)] + [C01.tok(mode, t, a) for t, a in zip(payload_tags(tags), args)])


def new_stats():
    return {"empty_str": 0, "null_blob": 0, "f_via_double": 0}


def rand_message(rng, tags, mode, st, addr=None):
    addr = addr or C01.rand_addr(rng)
    args = [C01.rand_arg(rng, t, mode, st) for t in payload_tags(tags)]
    need = len(C01.encode(addr, tags, abstract_args(mode, tags, args)))
    return addr, args, need


def windows(need):
    if need + 8 <= 96:
        return [(0, need + 8)]
    return [(0, 24), (max(need - 8, 25), need + 8)]


def generate(rng, tier, stats):
    quick = tier == "quick"
    st = new_stats()
    stats.update({"msg_sweeps": 0, "bundle_sweeps": 0, "capacities": 0, "mode_A": 0, "mode_V": 0, "junk_tags": 0,
                  "tlink_writeArray": 0, "tlink_write": 0, "rtdata": 0, "rtdata_over_8192": 0, "need_hist": [0] * 12,
                  "bundle_depth_hist": [0] * 5, "bundle_elems_hist": [0] * 9})

    def sweep(mode, addr, tags, args, need):
        for lo, hi in windows(need):
            stats["msg_sweeps"] += 1
            stats["capacities"] += hi - lo + 1
            stats["mode_" + mode] += 1
            stats["need_hist"][min(need // 16, 11)] += 1
            yield m_line(mode, lo, hi, addr, tags, args)

    # exhaustive small type strings
    for tags in C01.all_tag_strings(2):
        for _ in range(1 if quick else 6):
            mode = rng.choice("AV")
            addr, args, need = rand_message(rng, tags, mode, st)
            yield from sweep(mode, addr, tags, args, need)
    # every address length 1..20 (every residue mod 4)
    for n in range(1, 21):
        tags = C01.rand_tags(rng, 0, 3)
        addr, args, need = rand_message(rng, tags, "A", st, addr=C01.rand_addr(rng, n))
        yield from sweep("A", addr, tags, args, need)
    # random messages
    for _ in range(1800 if quick else 60000):
        tags = C01.rand_tags(rng, 0, 8) if rng.random() < 0.8 else C01.rand_tags(rng, 0, 24)
        mode = rng.choice("AV")
        addr, args, need = rand_message(rng, tags, mode, st)
        yield from sweep(mode, addr, tags, args, need)
    # type strings with bytes that are not tags (default branches)
    for _ in range(120 if quick else 4000):
        tags = bytes(rng.choice(b"ifsbTx.Z0a") for _ in range(rng.randint(1, 6)))
        mode = rng.choice("AV")
        addr = C01.rand_addr(rng)
        args = [C01.rand_arg(rng, t, mode, st) for t in payload_tags(tags)]
        stats["junk_tags"] += 1
        yield m_line(mode, 0, 64, addr, tags, args)
    # bundles
    for _ in range(1500 if quick else 50000):
        t = C08.set_caps(rng, C08.rand_tree(rng, rng.randint(0, 4), rng.choice([1, 2, 3, 4, 8]), small=True), lambda s: s)
        need = len(C08.enc(t))
        stats["bundle_depth_hist"][min(C08.depth_of(t) - 1, 4)] += 1
        stats["bundle_elems_hist"][min(len(t[3]), 8)] += 1
        for lo, hi in windows(need):
            stats["bundle_sweeps"] += 1
            stats["capacities"] += hi - lo + 1
            yield " ".join(["B", str(lo), str(hi)] + C08.tokens(t))
    # ThreadLink::writeArray
    for _ in range(500 if quick else 20000):
        tags = C01.rand_tags(rng, 0, 6)
        addr, args, need = rand_message(rng, tags, "A", st)
        maxmsg = max(1, need + rng.choice([-9, -4, -1, 0, 0, 1, 4, 8, 40]))
        stats["tlink_writeArray"] += 1
        yield " ".join(["T", str(maxmsg), hx(addr), hx(tags)] + [C01.tok("A", t, a) for t, a in zip(payload_tags(tags), args)])
    # ThreadLink::write and RtData::reply / broadcast through literal call sites
    for _ in range(500 if quick else 20000):
        k = rng.randrange(len(TEMPLATES))
        tags = TEMPLATES[k]
        addr, args, need = rand_message(rng, tags, "V", st)
        toks = [C01.tok("V", t, a) for t, a in zip(payload_tags(tags), args)]
        r = rng.random()
        if r < 0.5:
            maxmsg = max(1, need + rng.choice([-9, -4, -1, 0, 0, 1, 4, 8, 40]))
            stats["tlink_write"] += 1
            yield " ".join(["W%d" % k, str(maxmsg), hx(addr)] + toks)
        else:
            stats["rtdata"] += 1
            yield " ".join(["%s%d" % (rng.choice("RQ"), k), hx(addr)] + toks)
    # RtData::reply / broadcast around the 8192-byte stack buffer
    for j in range(24 if quick else 200):
        addr = C01.rand_addr(rng, rng.randint(1, 8))
        head = len(C01.pad_str(addr)) + 4
        n = 8192 - head - rng.choice([0, 1, 2, 3, 4, 5, 8]) + rng.choice([-4, 0, 0, 1, 4, 9])
        s = C01.rand_nonnul(rng, max(n, 0))
        need = len(C01.encode(addr, b"s", [s]))
        stats["rtdata"] += 1
        stats["rtdata_over_8192"] += need > 8192
        yield " ".join(["%s1" % "RQ"[j % 2], hx(addr), "s" + hx(s)])


def nontrivial(op):
    w = op.split()
    if w[0] == "M":
        return len(w) > 6
    if w[0] == "B":
        return any(x[0] == "m" for x in w[3:])
    return True


# ---------------------------------------------------------------------------------------
# the property, evaluated on the implementation's output
# ---------------------------------------------------------------------------------------
def parse_args(tags, toks):
    """abstract values (what the encoding must contain) from arg tokens"""
    args = []
    k = 0
    for t in tags:
        tb = bytes([t])
        if tb not in C01.PAYLOAD:
            continue
        x = toks[k]
        k += 1
        if x[0] in "wm":
            args.append(int(x[1:], 16))
        elif x[0] == "q":
            v = int(x[1:], 16)
            args.append(C01.narrow(v) if tb == b"f" else v)
        elif x[0] == "s":
            args.append(unhx(x[1:]))
        else:
            n, d = x[1:].split(":")
            args.append((int(n), None if d == "N" else unhx(d)))
    return args


def parse_caps(s):
    out = []
    for part in s.split(","):
        cap, ret, blk = part.split(":")
        out.append((int(cap), ret, blk))
    return out


def check_sweep(out, lo, hi, need, spec, with_z):
    """need/spec None: only the safety clauses (any input)."""
    if out.startswith("crash"):
        return "construction crashed (store or read outside a block): " + out
    f = C08.fields(out)
    if "c" not in f or "g" not in f:
        return "unparsable output"
    if f["g"] != "ok":
        return "canary run differs or canary destroyed: g=" + f["g"]
    z = None
    if with_z:
        z = int(f["z"])
        if need is not None and z != need:
            return "NULL buffer: returned %d, the encoding has %d bytes" % (z, need)
    caps = parse_caps(f["c"])
    if [c[0] for c in caps] != list(range(lo, hi + 1)):
        return "capacities missing in output"
    size = need if need is not None else z
    for cap, ret, blk in caps:
        if "!" in blk or not ret.isdigit():
            return "capacity %d: return value exceeds len" % cap
        ret = int(ret)
        buf = C08.unhx_z(blk)
        if ret > cap:
            return "capacity %d: returned %d" % (cap, ret)
        if len(buf) != (cap if ret == 0 else ret):
            return "capacity %d: %d bytes reported" % (cap, len(buf))
        if ret == 0 and any(buf):
            return "capacity %d: returned 0 but the buffer is not zero-filled" % cap
        if size is not None:
            if cap < size and ret != 0:
                return "capacity %d < %d: returned %d instead of 0" % (cap, size, ret)
            if cap >= size and ret != size:
                return "capacity %d >= %d: returned %d" % (cap, size, ret)
        if spec is not None and cap >= need and buf != spec:
            return "capacity %d: bytes written differ from the encoding" % cap
    return None


def tlink_expected(maxmsg, spec):
    if len(spec) > maxmsg:
        return "n=0 w=%s" % C08.hexz(b"\0" * maxmsg)
    return "n=1 m=%d:%s" % (len(spec), hx(spec))


def oracle(op, out):
    w = op.split()
    if w[0] == "M":
        mode, lo, hi, addr, tags = w[1], int(w[2]), int(w[3]), unhx(w[4]), unhx(w[5])
        args = parse_args(tags, w[6:])
        if C01.wellformed(addr, tags, args):
            spec = C01.encode(addr, tags, args)
            return check_sweep(out, lo, hi, len(spec), spec, True)
        return check_sweep(out, lo, hi, None, None, True)
    if w[0] == "B":
        lo, hi = int(w[1]), int(w[2])
        t, _ = C08.parse_tokens(w, 3)
        ok, _k4 = C08.nested_status(t)
        if not ok:
            return None
        spec = C08.enc(t)
        return check_sweep(out, lo, hi, len(spec), spec, False)
    if out.startswith("crash"):
        return "wrapper crashed (store or read outside a block): " + out
    if w[0] == "T":
        maxmsg, addr, tags = int(w[1]), unhx(w[2]), unhx(w[3])
        args = parse_args(tags, w[4:])
        if not C01.wellformed(addr, tags, args):
            return None
        exp = tlink_expected(maxmsg, C01.encode(addr, tags, args))
        return None if out == exp else "ThreadLink::writeArray: expected %s, got %s" % (exp[:120], out[:120])
    k = int(w[0][1:])
    tags = TEMPLATES[k]
    if w[0][0] == "W":
        maxmsg, addr = int(w[1]), unhx(w[2])
        args = parse_args(tags, w[3:])
        exp = tlink_expected(maxmsg, C01.encode(addr, tags, args))
        return None if out == exp else "ThreadLink::write: expected %s, got %s" % (exp[:120], out[:120])
    addr = unhx(w[1])
    args = parse_args(tags, w[2:])
    spec = C01.encode(addr, tags, args)
    name = "reply" if w[0][0] == "R" else "broadcast"
    exp = "%s=%d:%s" % (name, len(spec), hx(spec)) if len(spec) <= 8192 else "%s=0:-" % name
    return None if out == exp else "RtData::%s: expected %s, got %s" % (name, exp[:120], out[:120])


def neighbours(op, rng):
    w = op.split()
    if w[0] == "B":
        t, _ = C08.parse_tokens(w, 3)
        need = len(C08.enc(t))
        yield " ".join(["B", "0", str(need + 8)] + C08.tokens(t))
        for k in t[3]:
            sub = ("B", t[1], 0, [k])
            yield " ".join(["B", "0", str(len(C08.enc(sub)) + 8)] + C08.tokens(sub))
    elif w[0] == "M":
        st = new_stats()
        tags = unhx(w[5])
        for _ in range(100):
            mode = rng.choice("AV")
            addr, args, need = rand_message(rng, tags, mode, st)
            yield m_line(mode, 0, need + 8, addr, tags, args)
