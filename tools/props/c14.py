"""C14 — Parameter ports clamp to their declared range and report every change."""
import math
import re
import struct
import subprocess

import vlib

PROP = "C14"
ENGINE = "param"
LEAN_MODULES = ["RtoscModel.Props.C14"]
_T = "Rtosc.Param."
THEOREMS = [_T + n for n in (
    # clause "stored value = incoming value clamped to the declared range"
    "limit_clamps", "stored_is_clamped_int", "stored_is_clamped_float", "stored_is_clamped_option",
    "stored_toggle",
    # the repaired rLIMIT of the integer kinds: mathematical clamp whenever the declared range meets the type of
    # the callback's variable; the result always is a value of that type
    "limitInt_eq_limit", "limitInt_inRange", "stored_int_in_var_type",
    # clause "a message without arguments replies the stored value at the full address and changes nothing"
    "query_replies_and_preserves_int", "query_replies_and_preserves_float", "query_replies_and_preserves_option",
    "query_replies_and_preserves_toggle", "query_replies_and_preserves_string", "query_replies_and_preserves_array",
    # clause "a change is broadcast with the new value"
    "change_is_broadcast_int", "change_is_broadcast_float", "change_is_broadcast_option",
    "change_is_broadcast_toggle", "change_is_broadcast_string",
    # clause "exactly one undo event with the true old and new value iff the stored value changed"
    "undo_event_iff_changed_int", "undo_event_iff_changed_float", "undo_event_iff_changed_option",
    # clause "an array port touches only the element its address names"
    "array_index_of_address", "array_touches_only_index", "array_applies_element_callback",
    # the element an enumerated sub-tree (rRecurs: name#N/) hands down; index digit runs that do not fit `int` are
    # undefined in the model, never wrapped
    "recurs_index_of_address", "matchPath_index_overflow", "array_index_overflow_unsup",
    # clause "strings truncated to the declared length"
    "string_truncated",
    # clause "option symbols translated to their index"
    "option_symbol_translated",
    # clause "at the port's full address", one port over the restricted matcher of Param/Port.lean: scalar ports ...
    "dispatch_scalar_at_address", "macro_specs_accept", "portMatches_scalar",
    # ... and array ports (name<k> reaches element k iff k < N, nothing else is delivered)
    "dispatch_array_at_address", "dispatch_array_only", "array_callback_runs_element",
    "portMatches_array", "portMatches_array_only",
    # ... through the rRecur address walk of Ports::dispatch (C04's model), trees of any depth: loc = full address
    "delivery_through_recur", "full_address_base",
    # the restricted matcher agrees with C05's matcher (used by C04's dispatch) on macro names
    "matchB_scalar", "matchB_array", "matchB_array_conv", "matchArgs_typesCode",
    # integer fields / variables of every C integer type (unsigned short, unsigned, long, unsigned long):
    # conservative extension of intCb, same clauses
    "intCbW_eq_intCb", "limitIntW_eq_limit", "limitIntW_inRange",
    "stored_is_clamped_int_wide", "stored_int_in_var_type_wide", "query_replies_and_preserves_int_wide",
    "change_is_broadcast_int_wide", "undo_event_iff_changed_int_wide",
    # finding: negative declared bound of an unsigned variable
    "limitIntW_clamps_counterexample", "limitIntW_clamps_partial", "boundOutsidePromoted_signed",
    # the float order the clamping theorems assume is the one of the bit-pattern model
    "fltOps_ordered", "intOps_ordered",
    # a non-NaN float is reported with its own bit pattern (float -> double -> float of the variadic call)
    "fArg_of_not_nan",
    # finding C14-K1: the bound an integer port uses vs. the declared literal
    "declared_int_bound_respected_counterexample", "declared_int_bound_respected_partial",
)] + [
    # what the callback of one given port of a tree is handed by Ports::dispatch (C04's model), any depth
    "Rtosc.Ports.semLoc_handed", "Rtosc.Ports.dispatch_handed",
]
HARNESS = {"src": ["param.cpp"], "deps": ["common.h"]}
RULE = ("one op line = one port of the fixed tables in harness/param.cpp (147 ports: every port macro x several declared "
        "ranges: negative, fractional, one-sided, absent, outside the type of the callback's variable; storage "
        "char/unsigned char/short/int/enum/float/bool/char[]/struct member; arrays of length 1..300 incl. names "
        "containing digits; rOptions() of every arity 1..24 judged by the position of the symbol; DOC() of every arity "
        "1..24: a numeric port d<k> with the declared minimum and maximum at two of the k-1 positions in front of the doc "
        "string and an option port e<k> whose k-1 arguments are all observable (rOpt entries and the range), judged by "
        "the numbers written in the oracle's own PORTS table; rLogWithLogmin, rParams, rArray; rCOptionCb and "
        "rArrayTCbMember instantiated by hand; metadata with rSpecial/rShort/rDefault/rCentered/rNoDefaults entries in "
        "front of the range; string capacity 1..600 and 8300), dispatched directly (`/`), through rRecur below `/sub/` "
        "and below a 200-letter address, through the hashed branch of Ports::dispatch (`/flat/`: six ports of a table "
        "without array ports), and through rRecurs: element k of `Vo voice[3]` / `Vo bank[12]` (int, int array, string, "
        "float, toggle, float array and option ports) and of `Flat fl[2]` at `/voice<k>/`, `/bank<k>/`, `/fl<k>/` and "
        "one rRecur level further down (`/rack/...`), some indices with leading zeros - the object of element k is "
        "observed: the port's field in element k holds the value and no other byte of the whole tree changed; "
        "with a history of 1..8 set/query messages; values: each bound and its neighbours, "
        "storage extremes, in-range, far outside, float bit patterns incl. +-0, subnormals, infinities, non-integral; "
        "option symbols of the port; strings of length 0..2*capacity; for the 8300-byte string lengths that put the "
        "reply/broadcast just below, at and just above the size of RtData's formatting buffer (the size declared in "
        "src/cpp/ports.cpp of the tree under test, and the 8192 bytes the library ships with); array indices incl. "
        ">= 256, leading zeros, and beyond the declared length (nothing may be stored); a small "
        "stream of wrong-typed arguments, further arguments behind the first one, unknown symbols, quiet and signalling "
        "NaNs, non-numeric text behind the name (`:`, `x`, `#`, `-1`), values outside the storage type and strings "
        "larger than the formatting buffer: such a message is outside the quantifier / the ASSUMPTIONS and is run for "
        "crashes and stray writes only: the oracle does not judge what the port does with it, and the comparison with "
        "the model covers the messages in front of the first such message of a history (`~` behind it in the compared "
        "text). Compared per message: "
        "delivered or not, the multiset of messages handed to reply/broadcast (address, types with c = i, values; "
        "broadcasts of an unchanged value left out; /undo_change events of toggle and string ports left out, the "
        "property demands them of numeric and option ports only), the port's field (strings up to their terminator), "
        "and that no other byte of the object tree changed. When obligations break or the model disagrees and no "
        "failing input is among the cases, the search for one is capped at 60000 further cases. "
        "Non-trivial = the history contains at least one set message; distinct = distinct op line")
ASSUMPTIONS = [
    "incoming values are representable in the type of the callback's variable (char-backed rParam/rArrayI: -128..127, "
    "unsigned char: 0..255, short: -32768..32767); stored values are in that range too",
    "declared minimum <= declared maximum when both are present; metadata bounds are decimal literals; the declared "
    "range meets the type of the callback's variable (minimum <= the type's largest value, maximum >= its smallest) - "
    "a bound beyond the type on the far side (rArrayI with maximum 200) is covered and clamps nothing",
    "float clauses: incoming value, stored value and bounds are not NaN; 'changed' is IEEE inequality (+0 = -0)",
    "option symbols are among the port's `map N` entries",
    "array addresses are <name><decimal index>; an index >= the declared length names no element and nothing may be "
    "stored; port names contain no NUL, '#', ':'",
    "index digit runs (array ports and enumerated sub-trees) denote numbers below 2^31. Beyond that the compiled code "
    "wraps: rtosc_match_number (src/dispatch.c) and the atoi of rBOILS_BEGIN (port-sugar.h) read 4294967299 as 3 - the "
    "same wrap C05/C18 document for enumeration indices - so `/ai4294967299 ,i 5` on rArrayI(ai, 4, ...) stores 5 in "
    "element 3 through an address that names no element (witness `/ ai 4294967299@i5 3@q` in corpus/C14.ops, run for "
    "crashes only); the model reports such an address as undefined (array_index_overflow_unsup, "
    "matchPath_index_overflow), it does not wrap",
    "every reply / broadcast (address + value) fits the formatting buffer of RtData::reply/broadcast, 8192 bytes as "
    "shipped: the string clauses are judged for messages up to that size whatever size the tree under test declares; "
    "a larger message is sent empty by the unchanged code (rtosc_vmessage returns 0)",
    "a message outside this list is run for crashes and stray writes only; the comparison with the model covers the "
    "messages in front of the first such message of a history (behind it the pre-state may be outside too), the "
    "oracle judges every message inside the list from the state the implementation printed in front of it",
    "the callbacks read the first argument only; the theorems hold for any further arguments (the type pattern's last "
    "alternative accepts them); the property's quantifier has one value per message, so the check runs messages with "
    "further arguments for crashes and stray writes only",
    "integer ports: the clamping theorems are about the bound the callback uses, atoi(metadata literal); that this "
    "bound lies inside the declared literal range holds outside the trigger boundTruncatedOutward (finding C14-K1)",
    "field types of the integer kinds: char, unsigned char, short, int and int-based enums (IntTy) are executed by the "
    "engine and compared with the compiled macros; unsigned short, unsigned, long, unsigned long (LP64) are covered by "
    "the theorems `..._int_wide` over intCbW (Param/Wide.lean), which is proved equal to the executed model on the four "
    "IntTy types (intCbW_eq_intCb) and which the engine executes for the ports pus, pusb (unsigned short), pun, punr "
    "(unsigned), pl, pln (long), pul (unsigned long) of the harness table - compared with the compiled macros on every "
    "run like the IntTy ports (the int32 argument converts to the field's type modulo 2^bits, events carry the low 32 "
    "bits); for these types the clamping theorem needs the "
    "declared bounds to be values of decltype(var+0) - not negative for unsigned / unsigned long (trigger "
    "boundOutsidePromoted, limitIntW_clamps_counterexample: rParamI on an `unsigned` with rLinear(-1,10) stores 10 for "
    "incoming 5) - and messages carry the low 32 bits of a value",
    "delivery (`at the port's full address`): for one port over the restricted matcher of Param/Port.lean "
    "(dispatch_scalar_at_address, dispatch_array_at_address, dispatch_array_only: the callback runs exactly when the path "
    "below the object is the port's name, resp. name<k> with k < N, with loc = object address ++ path, and an array "
    "callback acts on element k); through the rRecur walk for the model of Ports::dispatch that C04 owns "
    "(delivery_through_recur: port trees of C04's scope - literal names and #N, one path component per sub-tree level, "
    "no `{}` groups -, any depth, linear or hashed tables, dispatch with a location buffer; port names of the macro "
    "ports contain none of ':' '{' '*' '/' '#'; index digit runs below 2^31); that C04's model is what ports.cpp does "
    "is C04's correspondence",
]
TRUSTED = [
    "hand-written model RtoscModel/Param/{Num,Sugar,Port}.lean of rLIMIT, rCAPPLY/rAPPLY, rParamCb, rParamFCb, rParamICb, "
    "rCOptionCb_, rToggleCb, rStringCb, rBOILS_BEGIN, rArray*Cb incl. rArrayTCbMember (port-sugar.h) and enum_key (ports.cpp)",
    "modelled, not verified: atoi, (float)atof for decimal literals (Param/Num.lean), rtosc_vmessage/rtosc_argument "
    "transporting int32/string values unchanged and floats through double (signalling NaN quieted), the restricted "
    "rtosc_match used to decide whether the callback runs (proved to agree with C05's matcher on the macro names: "
    "matchB_scalar, matchB_array, matchB_array_conv)",
    "for delivery_through_recur: C04's model of Ports::dispatch / rRecurCb / SNIP (RtoscModel/Ports/*.lean) and C05's "
    "matcher, validated by the correspondence runs of C04 and C05, not of this property",
    "RtoscModel/Param/Wide.lean (integer callbacks for unsigned short / unsigned / long / unsigned long): hand-written, "
    "validated by its proved equality with the executed model on char/unsigned char/short/int and by the correspondence "
    "run on the ports pus, pusb, pun, punr, pl, pln, pul (rParamI on unsigned short / unsigned / long / unsigned long "
    "fields with non-negative declared bounds for the unsigned ones; rParam with tag `c` and array elements of these "
    "types are not in the harness table)",
    "RtoscModel/Meta.lean (C17) for prop[\"min\"], prop[\"max\"] and the iteration in enum_key",
    "the expansion tables of the metadata macros (OPTIONS_IMPn, rOptionsBound, DOC_IMPn, MAC_EACH) are not modelled and "
    "no theorem speaks about them: the model reads the metadata block they generate. They are checked only by the "
    "Python oracle on the compiled ports, whose declared numbers are written in its own PORTS table: rOptions arity "
    "1..24 (position of each symbol), DOC arity 1..24 (d<k>: minimum and maximum at two positions, e<k>: every "
    "argument in front of the doc string), rLogWithLogmin, rParams and rArray once each; rPresets, rDepends, "
    "rEnabledBy, rDefaultId and arities above 24 are not instantiated",
    "enumerated sub-trees (rRecurs): that element k's object is the one written is observed on the compiled code "
    "only (harness/param.cpp `/voice<k>/`, `/bank<k>/`, `/fl<k>/`); the model takes the object address as given",
]
LEVEL_TEXT = ("Lean theorems for the callback macros rParamCb, rParamICb, rParamFCb, rCOptionCb_/rOptionCb, rToggleCb, rStringCb "
              "and the array forms rArrayFCb, rArrayICb, rArrayTCb, rArrayTCbMember, rArrayOptionCb (all values, all declared "
              "ranges that meet the variable's type, arrays of every length; not rParamsCb, which only replies a blob): "
              "stored value is the clamped incoming value, queries reply and preserve, changes are broadcast, exactly one "
              "/undo_change with the true old and new value iff changed, arrays touch only the addressed element, strings "
              "truncated, symbols translated; integer fields of every C integer type (unsigned short, unsigned, long, unsigned long "
              "as a proved-conservative extension of the executed model); delivery at the port's full address: scalar and "
              "array ports (name<k> reaches element k iff k < N, nothing else is delivered; index digit runs below 2^31) "
              "over the restricted matcher, and through the rRecur address walk of C04's Ports::dispatch model for port trees of any depth (loc = full "
              "address, msg = the port's own part, object and port pointer handed down; the restricted matcher agrees with "
              "C05's on macro names). The theorems start from the metadata block and name pattern of a port: that the "
              "port macros and their expansion tables (DOC_IMPn, OPTIONS_IMPn, MAC_EACH) generate the declared block is "
              "not a theorem; it is checked on the compiled ports by an independent Python reference whose table holds the "
              "declared numbers (DOC and rOptions arities 1..24, ranges at varying positions). The model is compared with "
              "the compiled macros on tens of thousands of generated histories per run, inside the property's quantifier, "
              "and the property is evaluated by the Python reference on the implementation's own output")
LEVEL_NOTE = ("Not covered by a theorem: the metadata expansion macros (DOC_IMPn, OPTIONS_IMPn etc.: oracle on the compiled "
              "ports only, one port per arity); dispatch without a location buffer (the sugar callbacks dereference data.loc); sub-trees "
              "entered through rRecurs/rRecurp index hand-down (the object of element k) - delivery_through_recur identifies "
              "objects by table path only; the compiled code is driven through rRecurs (`/voice<k>/...`) and the object of "
              "element k is observed there, the model takes the object address as given; reply/broadcast messages larger "
              "than RtData's 8192-byte formatting buffer (sent empty) are outside the theorems and the oracle; the integer "
              "undo theorems assume that the old value fits the callback's variable (rArrayI on int storage reports "
              "(char)old otherwise); 64-bit and unsigned fields are theorem-only (no harness port), option ports on "
              "wide fields are not covered. Open finding for the maintainers (not patched): rLIMIT on an unsigned / unsigned "
              "long variable converts a negative declared bound to a huge value (limitIntW_clamps_counterexample). "
              "rOptionsBound(a,b,c) declares max = 3 (the number of symbols, one more than "
              "the largest index): the check follows the declared metadata. Indices whose digits overflow `int` are outside the model (explicit `unsup`, "
              "array_index_overflow_unsup) while the compiled code wraps them modulo 2^32 and writes an element the address "
              "does not name (ASSUMPTIONS; witness in the corpus, crash-only); float "
              "bounds given as hex/inf/nan literals are outside the model (explicit `unsup`) and outside the generator.")

INT_RANGE = {"i8": (-128, 127), "u8": (0, 255), "i16": (-32768, 32767), "i32": (-2 ** 31, 2 ** 31 - 1),
             "u16": (0, 65535), "u32": (0, 2 ** 32 - 1), "i64": (-2 ** 63, 2 ** 63 - 1), "u64": (0, 2 ** 64 - 1)}
# the wide C integer types (Param/Wide.lean).  A message carries a 32-bit `i`: `T var = rtosc_argument(msg,0).i`
# converts it to the field's type modulo 2^bits (a negative argument of an unsigned field becomes a large value), and
# replies / broadcasts / undo events carry the low 32 bits of a value (va_arg(ap, int)).
WIDE = ("u16", "u32", "i64", "u64")


def wrap_ty(ty, v):
    lo, hi = INT_RANGE[ty]
    return (v - lo) % (hi - lo + 1) + lo


def w32(v):
    return wrap_ty("i32", v)


def is_wide(P):
    return P["kind"] == "int" and P["var"] in WIDE

# ------------------------------------------------------------------------------------------
# the oracle's own description of what each port DECLARES (independent of the harness dump
# and of the Lean model): kind, storage, range as numbers, option map, length.
# ------------------------------------------------------------------------------------------
RGBT = {b"red": 0, b"blue": 1, b"green": 2, b"teal": 3}
PORTS = {
    "pc": dict(kind="int", tag="c", store="i8", var="i8", lo=0, hi=127),
    "puc": dict(kind="int", tag="c", store="u8", var="u8", lo=0, hi=127),
    "pcn": dict(kind="int", tag="c", store="i8", var="i8", lo=-10, hi=10),
    "pcu": dict(kind="int", tag="c", store="i8", var="i8"),
    "pcs": dict(kind="int", tag="c", store="i16", var="i16", lo=-1000),
    "pf0": dict(kind="flt", lo="-1.5", hi="2.25"),
    "pf1": dict(kind="flt"),
    "pf2": dict(kind="flt", lo="0.1"),
    "pf3": dict(kind="flt", hi="-0.3"),
    "pf4": dict(kind="flt", lo="0.001", hi="20000"),
    "pf5": dict(kind="flt", lo="-1", hi="10"),
    "pi0": dict(kind="int", tag="i", store="i32", var="i32", lo=-5, hi=5),
    "pi1": dict(kind="int", tag="i", store="i32", var="i32"),
    "pi2": dict(kind="int", tag="i", store="i32", var="i32", lo=-100),
    "pi3": dict(kind="int", tag="i", store="i32", var="i32", hi=-1),
    "pi4": dict(kind="int", tag="i", store="i32", var="i32", lo=0, hi=1000000),
    "pi5": dict(kind="int", tag="i", store="i32", var="i32", lo=-2.5, hi=7.9),
    "pi6": dict(kind="int", tag="i", store="i32", var="i32", lo=2.5, hi=7.9),
    "pi7": dict(kind="int", tag="i", store="i32", var="i32", lo=-7.9, hi=-2.5),
    "ps": dict(kind="int", tag="i", store="i16", var="i16", lo=-1000, hi=1000),
    "po0": dict(kind="opt", store="i32", map=RGBT),
    "po1": dict(kind="opt", store="i32", map=RGBT, lo=0, hi=3),
    "po2": dict(kind="opt", store="i32", map={b"low": -1, b"mid": 2, b"high": 5}, lo=-1, hi=5),
    "po3": dict(kind="opt", store="u8", map={b"a": 0, b"b": 1, b"c": 2, b"d": 3, b"e": 4}, lo=0, hi=4),
    "po4": dict(kind="opt", store="i32", map={b"sine": 0, b"saw": 1, b"square": 2}, lo=0, hi=3),
    # symbols that are proper prefixes of EARLIER ones (and of each other): enum_key must compare whole symbols
    "po5": dict(kind="opt", store="i32", map={b"sine": 0, b"sawtooth": 1, b"saw": 2, b"square": 3, b"sq": 4, b"s": 5}, lo=0, hi=5),
    "pt": dict(kind="tog"),
    "str8": dict(kind="str", cap=8),
    "str1": dict(kind="str", cap=1),
    "str16": dict(kind="str", cap=16),
    "strf": dict(kind="str", cap=6, set_first=True),     # the field holds 6 non-NUL bytes initially
    "af": dict(kind="flt", n=4, lo="-1.5", hi="2.25"),
    "afs": dict(kind="flt", n=1),
    "afl": dict(kind="flt", n=12, lo="0.1"),
    "at": dict(kind="tog", n=5),
    "ats": dict(kind="tog", n=1),
    "ai": dict(kind="int", tag="i", store="i32", var="i8", n=4, lo=-20, hi=100),
    "aic": dict(kind="int", tag="i", store="i8", var="i8", n=3),
    "ail": dict(kind="int", tag="i", store="i32", var="i8", n=16, lo=0, hi=127),
    "ao": dict(kind="opt", store="i32", map=RGBT, n=3, lo=0, hi=3),
    "aoe": dict(kind="opt", store="i32", map=RGBT, n=2),
    "a2x": dict(kind="flt", n=3, lo="0", hi="10"),
    "v9": dict(kind="int", tag="i", store="i32", var="i8", n=3, lo=0, hi=100),
    # rCOptionCb with its own get/set code (short storage), rArrayTCbMember
    "ocs": dict(kind="opt", store="i16", map={b"x": 0, b"y": 1, b"z": 2}, lo=0, hi=2),
    "vm": dict(kind="tog", n=4),
    # more than 256 elements, long string
    "abig": dict(kind="int", tag="i", store="i32", var="i8", n=300, lo=0, hi=100, big=True),
    "tbig": dict(kind="tog", n=260, big=True),
    "fbig": dict(kind="flt", n=257, lo="-4", hi="4", big=True),
    "strbig": dict(kind="str", cap=600, big=True),
    # declared bounds that the callback's variable cannot hold
    "aib": dict(kind="int", tag="i", store="i32", var="i8", n=4, lo=0, hi=200),
    "aicb": dict(kind="int", tag="i", store="i8", var="i8", n=3, lo=-100, hi=200),
    "psb": dict(kind="int", tag="i", store="i16", var="i16", lo=-40000, hi=40000),
    "pucn": dict(kind="int", tag="c", store="u8", var="u8", lo=-10, hi=300),
    # fields of the wide integer types (engine: intCbW of Param/Wide.lean)
    "pus": dict(kind="int", tag="i", store="u16", var="u16", lo=0, hi=60000),
    "pusb": dict(kind="int", tag="i", store="u16", var="u16", lo=3, hi=70000),
    "pun": dict(kind="int", tag="i", store="u32", var="u32"),
    "punr": dict(kind="int", tag="i", store="u32", var="u32", lo=10, hi=2000000000),
    "pl": dict(kind="int", tag="i", store="i64", var="i64", lo=-2000000000, hi=2000000000),
    "pln": dict(kind="int", tag="i", store="i64", var="i64", lo=-100),
    "pul": dict(kind="int", tag="i", store="u64", var="u64", lo=5, hi=1000000),
    "pcb": dict(kind="int", tag="c", store="i8", var="i8", lo=-200, hi=100),
    # rSpecial / rShort / rDefault / rCentered / rNoDefaults entries in front of the range
    "pfs": dict(kind="flt", lo="0", hi="2.5"),
    "pfd": dict(kind="flt", lo="-2", hi="2"),
    "pis": dict(kind="int", tag="i", store="i32", var="i32", hi=16),
    "pos": dict(kind="opt", store="i32", map={b"x": 0, b"y": 1, b"z": 2}, lo=0, hi=2),
    "afsp": dict(kind="flt", n=3, lo="-1", hi="1"),
    "ais": dict(kind="int", tag="i", store="i32", var="i8", n=2, lo=-3, hi=3),
    # the table without array ports (hashed dispatch)
    "hc": dict(kind="int", tag="c", store="i8", var="i8", lo=0, hi=127, flat=True),
    "hf": dict(kind="flt", lo="-1", hi="1", flat=True),
    "hi": dict(kind="int", tag="i", store="i32", var="i32", lo=-5, hi=5, flat=True),
    "ho": dict(kind="opt", store="i32", map=RGBT, lo=0, hi=3, flat=True),
    "ht": dict(kind="tog", flat=True),
    "hs": dict(kind="str", cap=8, flat=True),
}
# rOption(onN, rOptions(v0, ..., v<N-1>)): the symbol written at position i means index i
for _n in range(1, 25):
    PORTS["on%d" % _n] = dict(kind="opt", store="i32", map={b"v%d" % _i: _i for _i in range(_n)})
# One port per arity of the DOC() expansion table (DOC_IMP1..DOC_IMP24): d<k> / d<k>x is a numeric port whose macro
# invocation has k arguments (the doc string included) with the declared minimum and maximum at two of the k-1
# positions in front of the doc string; e<k> / e<k>x is an option port where every one of the k-1 arguments is
# observable (rOpt(i, w<i>) entries and the range).  The numbers are written here, not read from the generated block.
PORTS.update({
    "d1": dict(kind="int", tag="i", store="i32", var="i32"),
    "d2": dict(kind="flt", lo="-4.25", hi="7.5"),
    "d3x": dict(kind="int", tag="i", store="i32", var="i8", n=2, lo=-5, hi=10),
    "d4x": dict(kind="flt", n=3, lo="-6.25", hi="13.5"),
    "d5": dict(kind="int", tag="i", store="i32", var="i32", lo=-7, hi=16),
    "d6": dict(kind="flt", lo="-8.25", hi="19.5"),
    "d7x": dict(kind="int", tag="i", store="i32", var="i8", n=3, lo=-9, hi=22),
    "d8x": dict(kind="flt", n=4, lo="-10.25", hi="25.5"),
    "d9": dict(kind="int", tag="i", store="i32", var="i32", lo=-11, hi=28),
    "d10": dict(kind="flt", lo="-12.25", hi="31.5"),
    "d11x": dict(kind="int", tag="i", store="i32", var="i8", n=4, lo=-13, hi=34),
    "d12x": dict(kind="flt", n=2, lo="-14.25", hi="37.5"),
    "d13": dict(kind="int", tag="i", store="i32", var="i32", lo=-15, hi=40),
    "d14": dict(kind="flt", lo="-16.25", hi="43.5"),
    "d15x": dict(kind="int", tag="i", store="i32", var="i8", n=2, lo=-17, hi=46),
    "d16x": dict(kind="flt", n=3, lo="-18.25", hi="49.5"),
    "d17": dict(kind="int", tag="i", store="i32", var="i32", lo=-19, hi=52),
    "d18": dict(kind="flt", lo="-20.25", hi="55.5"),
    "d19x": dict(kind="int", tag="i", store="i32", var="i8", n=3, lo=-21, hi=58),
    "d20x": dict(kind="flt", n=4, lo="-22.25", hi="61.5"),
    "d21": dict(kind="int", tag="i", store="i32", var="i32", lo=-23, hi=64),
    "d22": dict(kind="flt", lo="-24.25", hi="67.5"),
    "d23x": dict(kind="int", tag="i", store="i32", var="i8", n=4, lo=-25, hi=70),
    "d24x": dict(kind="flt", n=2, lo="-26.25", hi="73.5"),
    "e2": dict(kind="opt", store="i32", map={b"w0": 0, b"w1": 1, b"w2": 2}),
    "e3x": dict(kind="opt", store="i32", map={b"w0": 0}, n=2, lo=0, hi=0),
    "e4": dict(kind="opt", store="i32", map={b"w0": 0, b"w1": 1}, lo=0, hi=0),
    "e5x": dict(kind="opt", store="i32", map={b"w0": 0, b"w1": 1, b"w2": 2}, n=4, lo=0, hi=1),
    "e6": dict(kind="opt", store="i32", map={b"w0": 0, b"w1": 1, b"w2": 2, b"w3": 3}, lo=0, hi=2),
    "e7x": dict(kind="opt", store="i32", map={b"w0": 0, b"w1": 1, b"w2": 2, b"w3": 3, b"w4": 4}, n=3, lo=0, hi=3),
    "e8": dict(kind="opt", store="i32", map={b"w0": 0, b"w1": 1, b"w2": 2, b"w3": 3, b"w4": 4, b"w5": 5}, lo=0, hi=4),
    "e9x": dict(kind="opt", store="i32", map={b"w0": 0, b"w1": 1, b"w2": 2, b"w3": 3, b"w4": 4, b"w5": 5, b"w6": 6}, n=2, lo=0, hi=5),
    "e10": dict(kind="opt", store="i32", map={b"w0": 0, b"w1": 1, b"w2": 2, b"w3": 3, b"w4": 4, b"w5": 5, b"w6": 6, b"w7": 7}, lo=0, hi=6),
    "e11x": dict(kind="opt", store="i32", map={b"w0": 0, b"w1": 1, b"w2": 2, b"w3": 3, b"w4": 4, b"w5": 5, b"w6": 6, b"w7": 7, b"w8": 8}, n=4, lo=0, hi=7),
    "e12": dict(kind="opt", store="i32", map={b"w0": 0, b"w1": 1, b"w2": 2, b"w3": 3, b"w4": 4, b"w5": 5, b"w6": 6, b"w7": 7, b"w8": 8, b"w9": 9}, lo=0, hi=8),
    "e13x": dict(kind="opt", store="i32", map={b"w0": 0, b"w1": 1, b"w2": 2, b"w3": 3, b"w4": 4, b"w5": 5, b"w6": 6, b"w7": 7, b"w8": 8, b"w9": 9, b"w10": 10}, n=3, lo=0, hi=9),
    "e14": dict(kind="opt", store="i32", map={b"w0": 0, b"w1": 1, b"w2": 2, b"w3": 3, b"w4": 4, b"w5": 5, b"w6": 6, b"w7": 7, b"w8": 8, b"w9": 9, b"w10": 10, b"w11": 11}, lo=0, hi=10),
    "e15x": dict(kind="opt", store="i32", map={b"w0": 0, b"w1": 1, b"w2": 2, b"w3": 3, b"w4": 4, b"w5": 5, b"w6": 6, b"w7": 7, b"w8": 8, b"w9": 9, b"w10": 10, b"w11": 11, b"w12": 12}, n=2, lo=0, hi=11),
    "e16": dict(kind="opt", store="i32", map={b"w0": 0, b"w1": 1, b"w2": 2, b"w3": 3, b"w4": 4, b"w5": 5, b"w6": 6, b"w7": 7, b"w8": 8, b"w9": 9, b"w10": 10, b"w11": 11, b"w12": 12, b"w13": 13}, lo=0, hi=12),
    "e17x": dict(kind="opt", store="i32", map={b"w0": 0, b"w1": 1, b"w2": 2, b"w3": 3, b"w4": 4, b"w5": 5, b"w6": 6, b"w7": 7, b"w8": 8, b"w9": 9, b"w10": 10, b"w11": 11, b"w12": 12, b"w13": 13, b"w14": 14}, n=4, lo=0, hi=13),
    "e18": dict(kind="opt", store="i32", map={b"w0": 0, b"w1": 1, b"w2": 2, b"w3": 3, b"w4": 4, b"w5": 5, b"w6": 6, b"w7": 7, b"w8": 8, b"w9": 9, b"w10": 10, b"w11": 11, b"w12": 12, b"w13": 13, b"w14": 14, b"w15": 15}, lo=0, hi=14),
    "e19x": dict(kind="opt", store="i32", map={b"w0": 0, b"w1": 1, b"w2": 2, b"w3": 3, b"w4": 4, b"w5": 5, b"w6": 6, b"w7": 7, b"w8": 8, b"w9": 9, b"w10": 10, b"w11": 11, b"w12": 12, b"w13": 13, b"w14": 14, b"w15": 15, b"w16": 16}, n=3, lo=0, hi=15),
    "e20": dict(kind="opt", store="i32", map={b"w0": 0, b"w1": 1, b"w2": 2, b"w3": 3, b"w4": 4, b"w5": 5, b"w6": 6, b"w7": 7, b"w8": 8, b"w9": 9, b"w10": 10, b"w11": 11, b"w12": 12, b"w13": 13, b"w14": 14, b"w15": 15, b"w16": 16, b"w17": 17}, lo=0, hi=16),
    "e21x": dict(kind="opt", store="i32", map={b"w0": 0, b"w1": 1, b"w2": 2, b"w3": 3, b"w4": 4, b"w5": 5, b"w6": 6, b"w7": 7, b"w8": 8, b"w9": 9, b"w10": 10, b"w11": 11, b"w12": 12, b"w13": 13, b"w14": 14, b"w15": 15, b"w16": 16, b"w17": 17, b"w18": 18}, n=2, lo=0, hi=17),
    "e22": dict(kind="opt", store="i32", map={b"w0": 0, b"w1": 1, b"w2": 2, b"w3": 3, b"w4": 4, b"w5": 5, b"w6": 6, b"w7": 7, b"w8": 8, b"w9": 9, b"w10": 10, b"w11": 11, b"w12": 12, b"w13": 13, b"w14": 14, b"w15": 15, b"w16": 16, b"w17": 17, b"w18": 18, b"w19": 19}, lo=0, hi=18),
    "e23x": dict(kind="opt", store="i32", map={b"w0": 0, b"w1": 1, b"w2": 2, b"w3": 3, b"w4": 4, b"w5": 5, b"w6": 6, b"w7": 7, b"w8": 8, b"w9": 9, b"w10": 10, b"w11": 11, b"w12": 12, b"w13": 13, b"w14": 14, b"w15": 15, b"w16": 16, b"w17": 17, b"w18": 18, b"w19": 19, b"w20": 20}, n=4, lo=0, hi=19),
    "e24": dict(kind="opt", store="i32", map={b"w0": 0, b"w1": 1, b"w2": 2, b"w3": 3, b"w4": 4, b"w5": 5, b"w6": 6, b"w7": 7, b"w8": 8, b"w9": 9, b"w10": 10, b"w11": 11, b"w12": 12, b"w13": 13, b"w14": 14, b"w15": 15, b"w16": 16, b"w17": 17, b"w18": 18, b"w19": 19, b"w20": 20, b"w21": 21}, lo=0, hi=20),
})
PORTS.update({
    # rLogWithLogmin, rParams (= rArray + an alias port that replies a blob and is never addressed), rArray (= rArrayI)
    "pfl": dict(kind="flt", lo="0.5", hi="100"),
    "prm": dict(kind="int", tag="i", store="i32", var="i8", n=5, lo=0, hi=50),
    "arr": dict(kind="int", tag="i", store="i32", var="i8", n=4, lo=-2, hi=9),
    # a string whose reply / broadcast can be larger than the formatting buffer of RtData::reply/broadcast
    "strhuge": dict(kind="str", cap=8300, big=True, huge=True),
    # the element type of the enumerated sub-trees (rRecurs): /voice<k>/, /bank<k>/
    "vvol": dict(kind="int", tag="i", store="i32", var="i32", lo=-10, hi=10, vo=True),
    "varr": dict(kind="int", tag="i", store="i32", var="i8", n=3, lo=0, hi=100, vo=True),
    "vname": dict(kind="str", cap=8, vo=True),
    "vgain": dict(kind="flt", lo="-1", hi="1", vo=True),
    "von": dict(kind="tog", vo=True),
    "vpan": dict(kind="flt", n=2, lo="-1", hi="1", vo=True),
    "vwave": dict(kind="opt", store="i32", map={b"sine": 0, b"saw": 1, b"square": 2}, lo=0, hi=2, vo=True),
})

LONGNAME = "abcdefghij" * 20
PREFIX_OBJ = ["/", "/sub/", "/" + LONGNAME + "/"]
# hashed element table below rRecur (`/flat/`) and below rRecurs (`/fl<k>/`: element k of Flat fl[2])
PREFIX_FLAT = ["/", "/flat/", "/fl0/", "/fl1/", "/rack/fl0/", "/rack/fl1/", "/fl01/"]
# enumerated sub-trees: element k of `Vo voice[3]` / `Vo bank[12]` through rRecurs, directly below the root
# and one rRecur level further down; a few indices with leading zeros (atoi reads them as the same element)
PREFIX_VO = (["/"] + ["/voice%d/" % k for k in range(3)] + ["/bank%d/" % k for k in range(12)]
             + ["/rack/voice%d/" % k for k in range(3)] + ["/rack/bank%d/" % k for k in (0, 1, 9, 10, 11)]
             + ["/voice02/", "/bank007/", "/rack/bank011/"])

# RtData::reply/broadcast format into a stack buffer; the property's string clauses are judged for messages that fit
# the size the library ships with.
DOC_BUF = 8192


def prefixes(P):
    return PREFIX_FLAT if P.get("flat") else PREFIX_VO if P.get("vo") else PREFIX_OBJ


def pad4(n):
    return (n + 3) // 4 * 4


def msgsize(loclen, n):
    """size of the OSC message `<loc> ,s <string of n bytes>`"""
    return pad4(loclen + 1) + 4 + pad4(n + 1)


_bufsz = None


def tree_bufsize():
    """N of `char buffer[N]` in RtData::reply(path, args, ...) / broadcast(path, args, ...) of the tree under test
    (the smaller of the two; 8192 when the text has another shape)"""
    global _bufsz
    if _bufsz is None:
        import os
        n = []
        try:
            src = open(os.path.join(vlib.REPO, "src/cpp/ports.cpp")).read()
        except OSError:
            src = ""
        for name in ("reply", "broadcast"):
            m = re.search(r"void\s+RtData::%s\s*\(\s*const\s+char\s*\*\s*path\s*,\s*const\s+char\s*\*\s*args\s*,"
                          r"\s*\.\.\.\s*\)\s*\{(.*?)\n\}" % name, src, re.S)
            if m:
                mb = re.search(r"char\s+buffer\s*\[\s*(\d+)\s*\]", m.group(1))
                mc = re.search(r"rtosc_vmessage\s*\(\s*buffer\s*,\s*(\d+)\s*,", m.group(1))
                if mb:
                    n.append(int(mb.group(1)))
                if mc:
                    n.append(int(mc.group(1)))
        _bufsz = min(n) if n else DOC_BUF
    return _bufsz


def f32bits(x):
    return struct.unpack(">I", struct.pack(">f", x))[0]


def bits2f(b):
    return struct.unpack(">f", struct.pack(">I", b))[0]


def hx(b):
    return b.hex() if b else "-"


def unhx(s):
    return b"" if s == "-" else bytes.fromhex(s)


# ------------------------------------------------------------------------------------------
# generator
# ------------------------------------------------------------------------------------------
_table = None


def table():
    """The port table as the working tree's macros generate it (name pattern, metadata
    block, initial value), printed by the harness itself."""
    global _table
    if _table is None:
        exe = vlib.build_harness(ENGINE, HARNESS, "san")
        out = subprocess.run([exe, "--table"], stdout=subprocess.PIPE, text=True, env=vlib.HENV, check=True).stdout
        _table = {}
        for l in out.split("\n"):
            w = l.split()
            if len(w) == 7:
                _table[w[0]] = l.strip()
    return _table


def nextf(b, d):
    """neighbouring float pattern in the total order of finite values"""
    x = bits2f(b)
    if x == 0.0:
        return 0x00000001 if d > 0 else 0x80000001
    neg = b >= 0x80000000
    if (d > 0) != neg:
        return b + 1
    return b - 1


def int_values(rng, P):
    if is_wide(P):
        # the argument is an int32 whatever the field's type; candidates: the int32 values that convert to the
        # neighbourhood of the declared bounds and of the type's limits
        lo_s, hi_s = INT_RANGE["i32"]
        c = [lo_s, hi_s, lo_s + 1, hi_s - 1, 0, 1, -1, -2, 2, 65535, 65536, 65537, -65535, -65536, -65537, 32767, 32768]
        for b in ("lo", "hi"):
            if b in P:
                c += [w32(int(P[b]) + d) for d in (-2, -1, 0, 1, 2)]
        r = rng.random()
        if r < 0.6:
            return rng.choice(c)
        if r < 0.8:
            return w32(rng.choice(c) + rng.randint(-300, 300))
        return rng.randint(lo_s, hi_s)
    lo_s, hi_s = INT_RANGE[P["store"] if P["kind"] == "opt" else P["var"]]
    c = [lo_s, hi_s, lo_s + 1, hi_s - 1, 0, 1, -1]
    for b in ("lo", "hi"):
        if b in P:
            v = int(math.floor(P[b]))
            c += [v - 1, v, v + 1, v + 2, v - 2]
    if P["kind"] == "opt":
        c += list(P["map"].values())
    c = [v for v in c if lo_s <= v <= hi_s]
    r = rng.random()
    if r < 0.6:
        return rng.choice(c)
    if r < 0.8:
        a = min(hi_s, max(lo_s, int(P.get("lo", -50)) - 20))
        b = max(lo_s, min(hi_s, int(P.get("hi", 50)) + 20))
        if a <= b:
            return rng.randint(a, b)
    return rng.randint(lo_s, hi_s)


FSPECIAL = [0x00000000, 0x80000000, 0x00000001, 0x80000001, 0x007fffff, 0x00800000, 0x7f7fffff, 0xff7fffff,
            0x7f800000, 0xff800000, 0x3f800000, 0xbf800000, 0x3fa00000, 0x3eaaaaab, 0x4b800000, 0x4b800001,
            0x3f7fffff, 0x3f800001, 0x40490fdb, 0xc0490fdb, 0x33800000]


def flt_values(rng, P):
    c = []
    for b in ("lo", "hi"):
        if b in P:
            v = f32bits(float(P[b]))
            c += [v, nextf(v, 1), nextf(v, -1), nextf(nextf(v, 1), 1), nextf(nextf(v, -1), -1)]
    r = rng.random()
    if c and r < 0.45:
        return rng.choice(c)
    if r < 0.65:
        return rng.choice(FSPECIAL)
    if r < 0.85:
        lo = float(P.get("lo", "-100"))
        hi = float(P.get("hi", "100"))
        if hi <= lo:
            hi = lo + 1
        return f32bits(rng.uniform(lo - 0.5 * (hi - lo), hi + 0.5 * (hi - lo)))
    while True:
        b = rng.getrandbits(32)
        if not math.isnan(bits2f(b)):
            return b


STR_ALPH = bytes(range(0x20, 0x7f)) + bytes([0x80, 0xc3, 0xa9, 0xff, 0x01, 0x09])


def gen_arg(rng, P, stats, loclen=8):
    """one argument token for a set message that the property quantifies over"""
    k = P["kind"]
    if k == "int":
        return "%s%d" % (P["tag"], int_values(rng, P))
    if k == "flt":
        return "f%08x" % flt_values(rng, P)
    if k == "opt":
        r = rng.random()
        if r < 0.4:
            stats["option_symbol"] = stats.get("option_symbol", 0) + 1
            return "S" + hx(rng.choice(sorted(P["map"])))
        return "%s%d" % ("i" if r < 0.8 else "c", int_values(rng, P))
    if k == "tog":
        return rng.choice("TF")
    cap = P["cap"]
    r = rng.random()
    if P.get("huge"):
        # the broadcast `<loc> ,s <stored string>` just below / at / just above the formatting buffer of
        # RtData::broadcast: the size the tree under test has, and the size the library ships with
        if r < 0.6:
            lim = rng.choice([tree_bufsize(), tree_bufsize(), DOC_BUF])
            n = lim - pad4(loclen + 1) - 4 - 1 + rng.randint(-9, 8)
            n = max(0, min(n, cap + 20))
            stats["string_near_buffer"] = stats.get("string_near_buffer", 0) + 1
        elif r < 0.75:
            n = rng.randint(cap - 3, cap + 3)
        elif r < 0.9:
            n = rng.randint(0, 64)
        else:
            n = rng.randint(0, cap + 20)
    elif r < 0.25:
        n = rng.choice([0, max(0, cap - 2), max(0, cap - 1), cap, cap + 1])
    elif r < 0.5 and cap > 64:
        n = rng.randint(cap // 3, cap - 1)
    else:
        n = rng.randint(0, 2 * cap + 2)
    return "s" + hx(bytes(rng.choice(STR_ALPH) for _ in range(n)))


def gen_odd_arg(rng, P, stats):
    """near-valid stream: judged by the correspondence only"""
    k = P["kind"]
    c = rng.randint(0, 5)
    stats["odd_args"] = stats.get("odd_args", 0) + 1
    if c == 0:      # wrong type for most ports
        return rng.choice(["i5", "c5", "f3f800000", "T", "F", "s61", "S726564"])
    if c == 1 and k in ("int", "opt"):      # outside the storage type
        return "%s%d" % (P.get("tag", "i"), rng.choice([-2 ** 31, 2 ** 31 - 1, 128, -129, 255, 256, 300, -300, 32768, -32769, 65536, 70000,
                                                     rng.randint(-2 ** 31, 2 ** 31 - 1)]))
    if c == 2 and k == "flt":       # NaNs, quiet and signalling
        return "f%08x" % rng.choice([0x7fc00000, 0xffc00000, 0x7fc00001, 0x7f800001, 0xffa00000, 0x7fbfffff])
    if c == 3 and k == "opt":
        return "S" + hx(rng.choice([b"nope", b"", b"re", b"redd", b"RED"]))
    if c == 4:      # further arguments (the last alternative of a pattern accepts them): the callbacks read the first one only
        a = gen_arg(rng, P, stats)
        if k == "opt" and rng.random() < 0.7:
            a = "S" + hx(rng.choice(sorted(P["map"])))
        stats["extra_args"] = stats.get("extra_args", 0) + 1
        extra = [rng.choice(["i1", "c2", "f3f800000", "T", "F", "s6162", "S726564", gen_arg(rng, P, stats)])
                 for _ in range(rng.randint(1, 2))]
        return "+".join([a] + extra)
    return gen_arg(rng, P, stats)


ODD_INDEX = [":", ":c", "x", "#", "-1", ":i", " "]


def gen_index(rng, P, stats):
    n = P["n"]
    r = rng.random()
    if r < 0.86:
        i = rng.randint(0, n - 1)
        if r < 0.25:
            i = rng.choice([0, n - 1])
        elif n > 256 and r < 0.7:       # indices that do not fit a byte
            i = rng.choice([255, 256, 257, n - 1, rng.randint(256, n - 1), rng.randint(256, n - 1)])
            stats["index_above_255"] = stats.get("index_above_255", 0) + 1
        s = str(i)
    elif r < 0.93:
        i = rng.randint(0, n - 1)
        s = "0" * rng.randint(1, 2) + str(i)          # leading zeros name the same element
        stats["index_leading_zero"] = stats.get("index_leading_zero", 0) + 1
    else:
        s = str(rng.choice([n, n + 1, 10 * n, 99, 100000]))   # beyond the declared length: no port matches
        stats["index_out_of_range"] = stats.get("index_out_of_range", 0) + 1
    return s + "@"


def gen_line(rng, pid, stats):
    P = PORTS[pid]
    desc = table()[pid]
    pf = prefixes(P)
    mode = rng.choice(pf)
    loclen = len(mode) + len(pid)
    nm = rng.randint(1, 3 if P.get("big") else 8)
    msgs = []
    for _ in range(nm):
        idx = gen_index(rng, P, stats) if "n" in P else ""
        r = rng.random()
        if r > 0.985 and not (P.get("set_first") and not msgs):       # not an index behind the name: no port matches
            idx = rng.choice(ODD_INDEX) + "@"
            stats["odd_path"] = stats.get("odd_path", 0) + 1
        if P.get("set_first") and not msgs:
            r = 0.5
        if r < 0.22:
            a = "q"
            stats["queries"] = stats.get("queries", 0) + 1
        elif r < 0.95:
            a = gen_arg(rng, P, stats, loclen)
            stats["sets"] = stats.get("sets", 0) + 1
        else:
            a = gen_odd_arg(rng, P, stats)
        msgs.append(idx + a)
    stats["by_port_kind"][desc.split()[1]] = stats["by_port_kind"].get(desc.split()[1], 0) + 1
    stats["history_len"][str(nm)] = stats["history_len"].get(str(nm), 0) + 1
    mname = re.sub(r"\d+", "<k>", mode) if len(mode) < 20 else "/<200 letters>/"
    stats["mode"][mname] = stats["mode"].get(mname, 0) + 1
    return "%s %s %s" % (hx(mode.encode()), desc, " ".join(msgs))


def corpus_by_id():
    """corpus/C14.ops keeps its witnesses as `#@ <prefix> <id> <msg>...`; the port's pattern,
    metadata and initial state are taken from the working tree's own table, so that a change
    of a port's metadata that does not touch the property cannot make a witness stale."""
    import os
    path = os.path.join(vlib.VERIF, "corpus", PROP + ".ops")
    out = []
    if os.path.exists(path):
        for l in open(path):
            if l.startswith("#@ "):
                w = l.split()
                if len(w) >= 4 and w[2] in table():
                    out.append("%s %s %s" % (hx(w[1].replace("<LONG>", LONGNAME).encode()), table()[w[2]], " ".join(w[3:])))
    return out


_gen_calls = 0
SEARCH_CAP = 60000      # cases of the runner's search for a failing input (its second call of generate)


def generate(rng, tier, stats):
    global _gen_calls
    _gen_calls += 1
    n = 40000 if tier == "quick" else 600000
    if _gen_calls > 1 and tier == "thorough":
        n = SEARCH_CAP
    stats.update({"by_port_kind": {}, "history_len": {}, "mode": {}, "ports": len(PORTS)})
    ids = sorted(PORTS)
    missing = [i for i in ids if i not in table()] + [i for i in table() if i not in PORTS]
    if missing:
        raise RuntimeError("harness table and oracle table differ: %s" % missing)
    # the regression witnesses of corpus/C14.ops
    cb = corpus_by_id()
    stats["corpus_by_id"] = len(cb)
    for op in cb:
        yield op
    # every port, every prefix, a query and a set first
    for pid in ids:
        P = PORTS[pid]
        idx = "0@" if "n" in P else ""
        for mode in prefixes(P):
            first = "" if P.get("set_first") else idx + "q "
            yield "%s %s %s%s%s %sq" % (hx(mode.encode()), table()[pid], first, idx,
                                        gen_arg(rng, P, stats, len(mode) + len(pid)), idx)
    # `v9` (digit at the end of an array's name) makes the unrepaired rBOILS_BEGIN index far
    # outside the object on every message; the runner gives up after 200 crashes, so this one
    # port gets a fixed small share.  The ports with several hundred elements / bytes print long
    # states: a fixed share as well.
    big = [i for i in ids if PORTS[i].get("big")]
    flat = [i for i in ids if PORTS[i].get("flat")]
    vo = [i for i in ids if PORTS[i].get("vo")]
    doc = [i for i in ids if re.fullmatch(r"[de]\d+x?", i)]
    rest = [i for i in ids if i != "v9" and i not in big]
    wide = [i for i in ids if is_wide(PORTS[i])]
    every = max(1, n // 100)
    for j in range(n):
        if j % every == 0:
            pid = "v9"
        elif j % 25 == 1:
            pid = big[(j // 25) % len(big)]
        elif j % 25 in (2, 3):
            pid = rng.choice(flat)
        elif j % 25 in (4, 5, 6):
            pid = rng.choice(vo)
        elif j % 25 in (7, 8, 9, 10):
            pid = rng.choice(doc)
        elif j % 25 == 11:
            pid = rng.choice(wide)
        else:
            pid = rng.choice(rest)
        yield gen_line(rng, pid, stats)


def neighbours(op, rng):
    w = op.split()
    if len(w) < 9 or w[1] not in PORTS:
        return
    st = {"by_port_kind": {}, "history_len": {}, "mode": {}}
    for _ in range(3000):
        yield gen_line(rng, w[1], st)


def nontrivial(op):
    w = op.split()
    return any(not m.endswith("q") for m in w[8:])


# ------------------------------------------------------------------------------------------
# oracle: the property, evaluated on what the implementation printed
# ------------------------------------------------------------------------------------------
def parse_events(s):
    evs = []
    if s == "-":
        return evs
    for e in s.split(","):
        f = e.split(":")
        evs.append((f[0], unhx(f[1]), "" if f[2] == "-" else f[2], f[3:]))
    return evs


def parse_state(P, s, raw=False):
    """strings: the C string the field holds (None = no terminator inside the field);
    `raw`: the token is the hex of the whole buffer (initial state on the op line)"""
    if P["kind"] == "str":
        if raw:
            return cstr(unhx(s))
        return None if s.startswith("!") else unhx(s)
    if P["kind"] == "flt":
        return [int(x, 16) for x in s.split(",")]
    return [int(x) for x in s.split(",")]


def cstr(b):
    i = b.find(b"\0")
    return None if i < 0 else b[:i]


def decl_bounds_int(P, trunc=False):
    """integers inside the declared range [lo, hi]: lo rounds up, hi rounds down.
    trunc=True: what `atoi` makes of the literals (truncation toward zero) - used only to
    attribute a failure to the known finding C14-K1."""
    lo = P.get("lo")
    hi = P.get("hi")
    if trunc:
        return (None if lo is None else int(lo), None if hi is None else int(hi))
    return (None if lo is None else int(math.ceil(lo)), None if hi is None else int(math.floor(hi)))


def bound_truncated_outward(P):
    """Trigger of C14-K1 (Lean: Rtosc.Param.boundTruncatedOutward): an integer port whose
    declared minimum is a positive non-integral literal, or whose declared maximum is a
    negative non-integral literal."""
    if P["kind"] not in ("int", "opt"):
        return False
    lo, hi = P.get("lo"), P.get("hi")
    return (lo is not None and lo > 0 and lo != int(lo)) or (hi is not None and hi < 0 and hi != int(hi))


def clamp(v, lo, hi):
    if lo is not None and v < lo:
        return lo
    if hi is not None and v > hi:
        return hi
    return v


def outside(P, loc, before, tok, trunc=False):
    """Is this message, sent in the state `before`, outside what the property quantifies over (its quantifier text
    and the ASSUMPTIONS)?  Such a message is run for crashes and stray writes only: the oracle does not judge what the
    port does with it, and the comparison with the model stops in front of it (the two states may differ from there)."""
    idx = None
    arg = tok
    if "@" in tok:
        it, arg = tok.split("@")
        if "n" not in P or not it.isdigit() or int(it) >= 2 ** 31:
            return True                 # not <name><decimal index>; digit runs that overflow `int`
        if int(it) >= P["n"]:
            return False                # names no element: nothing may be touched (judged)
        idx = int(it)
    elif "n" in P:
        return True
    if "+" in arg:
        return True                     # further arguments
    k = P["kind"]
    old = before if k == "str" else before[idx or 0]
    if arg == "q":
        if k == "str":
            return old is None or msgsize(len(loc), len(old)) > DOC_BUF
        if k == "flt":
            return math.isnan(bits2f(old))
        return False
    t = arg[0]
    if k == "int":
        if t != P["tag"]:
            return True
        v = int(arg[1:])
        lo_s, hi_s = INT_RANGE[P["var"]]
        if is_wide(P):
            v = wrap_ty(P["var"], v)        # T var = rtosc_argument(msg,0).i
        if not (lo_s <= v <= hi_s) or not (lo_s <= old <= hi_s):
            return True
        lo, hi = decl_bounds_int(P, trunc)
        new = clamp(v, lo, hi)
        s_lo, s_hi = INT_RANGE[P["store"]]
        return not (lo_s <= new <= hi_s) or not (s_lo <= new <= s_hi)   # the declared range lies outside the type
    if k == "opt":
        lo_s, hi_s = INT_RANGE[P["store"]]
        if t == "S":
            sym = unhx(arg[1:])
            if sym not in P["map"]:
                return True
            new = P["map"][sym]
        elif t in "ic":
            v = int(arg[1:])
            if not (lo_s <= v <= hi_s):
                return True
            lo, hi = decl_bounds_int(P, trunc)
            new = clamp(v, lo, hi)
        else:
            return True
        return not (lo_s <= new <= hi_s)
    if k == "flt":
        return t != "f" or math.isnan(bits2f(int(arg[1:], 16))) or math.isnan(bits2f(old))
    if k == "tog":
        return t not in "TF"
    if t != "s":
        return True
    return msgsize(len(loc), min(len(unhx(arg[1:])), P["cap"] - 1)) > DOC_BUF


def check_msg(P, loc, before, seg, tok, trunc=False):
    """returns (error | None, state after).  `before`/after: list of values or bytes."""
    parts = seg.split(";")
    if len(parts) != 3:
        return "unparsable output segment `%s`" % seg, before
    matched, evs, after = parts[0] == "1", parse_events(parts[1]), parse_state(P, parts[2])
    if outside(P, loc, before, tok, trunc):
        return None, after
    idx = None
    arg = tok
    if "@" in tok:
        it, arg = tok.split("@")
        if int(it) >= P["n"]:
            # the address names no element of the port: nothing may be stored
            if after != before:
                return "address names no element (index %s of %d) but the field changed: %r -> %r" % (
                    it, P["n"], before, after), after
            return None, after
        idx = int(it)
    k = P["kind"]
    undo = [e for e in evs if e[1] == b"/undo_change"]
    at_loc = [e for e in evs if e[1] == loc]

    def elem(st):
        return st if k == "str" else st[idx or 0]

    def others_same():
        if k == "str":
            return True
        j = idx or 0
        return before[:j] == after[:j] and before[j + 1:] == after[j + 1:] and len(before) == len(after)

    old = elem(before)
    # ---- query ---------------------------------------------------------------------------
    if arg == "q":
        if k == "str" and old is None:
            return None, after          # unterminated field: outside the property
        if k == "flt" and math.isnan(bits2f(old)):
            return None, after          # a NaN is stored: outside the float clauses
        if not matched:
            return "query not delivered", after
        if after != before:
            return "a query changed the stored value: %s -> %s" % (before, after), after
        if undo:
            return "a query emitted an undo event", after
        reps = [e for e in at_loc if e[0] == "R"]
        if len(reps) != 1:
            return "query: expected one reply at %r, got %r" % (loc, evs), after
        r = reps[0]
        if k == "int" or k == "opt":
            ok = r[2] in ("i", "c") and int(r[3][0]) == (w32(old) if is_wide(P) else old)
        elif k == "flt":
            ok = r[2] == "f" and int(r[3][0], 16) == old
        elif k == "tog":
            ok = r[2] == ("T" if old else "F")
        else:
            ok = r[2] == "s" and unhx(r[3][0]) == old
        return (None if ok else "query replied %r, stored value is %r" % (r, old)), after
    # ---- set: is the incoming value one the property quantifies over? ---------------------
    t = arg[0]
    wire = lambda x: x                      # what an event carries of a value
    if k == "int":
        if t != P["tag"]:
            return None, after
        v = int(arg[1:])
        lo_s, hi_s = INT_RANGE[P["var"]]
        if is_wide(P):
            v = wrap_ty(P["var"], v)        # T var = rtosc_argument(msg,0).i
            wire = w32                      # events carry the low 32 bits
        if not (lo_s <= v <= hi_s) or not (lo_s <= old <= hi_s):
            return None, after
        lo, hi = decl_bounds_int(P, trunc)
        new = clamp(v, lo, hi)
        s_lo, s_hi = INT_RANGE[P["store"]]
        if not (lo_s <= new <= hi_s) or not (s_lo <= new <= s_hi):
            return None, after          # the declared range lies outside the storage type
        changed = new != old
        dec = lambda s: int(s)
    elif k == "opt":
        lo_s, hi_s = INT_RANGE[P["store"]]
        if t == "S":
            sym = unhx(arg[1:])
            if sym not in P["map"]:
                return None, after
            new = P["map"][sym]
        elif t in "ic":
            v = int(arg[1:])
            if not (lo_s <= v <= hi_s):
                return None, after
            lo, hi = decl_bounds_int(P, trunc)
            new = clamp(v, lo, hi)
        else:
            return None, after
        if not (lo_s <= new <= hi_s):
            return None, after
        changed = new != old
        dec = lambda s: int(s)
    elif k == "flt":
        if t != "f":
            return None, after
        vb = int(arg[1:], 16)
        v = bits2f(vb)
        if math.isnan(v) or math.isnan(bits2f(old)):
            return None, after
        lo = None if "lo" not in P else bits2f(f32bits(float(P["lo"])))
        hi = None if "hi" not in P else bits2f(f32bits(float(P["hi"])))
        if lo is not None and v < lo:
            new = f32bits(lo)
        elif hi is not None and v > hi:
            new = f32bits(hi)
        else:
            new = vb
        changed = bits2f(new) != bits2f(old)
        dec = lambda s: int(s, 16)
    elif k == "tog":
        if t not in "TF":
            return None, after
        new = 1 if t == "T" else 0
        changed = new != old
    else:
        if t != "s":
            return None, after
        s = unhx(arg[1:])
        new = s[:P["cap"] - 1]
        changed = new != old
    if not matched:
        return "set message not delivered", after
    # ---- stored value ----------------------------------------------------------------------
    got = elem(after)
    if k == "str":
        if got != new:
            return "stored string %r, expected %r (capacity %d)" % (got, new, P["cap"]), after
    elif got != new:
        return "stored %r, expected %r (incoming %s, old %r)" % (got, new, arg, old), after
    if not others_same():
        return "an element other than the addressed one changed: %r -> %r" % (before, after), after
    # ---- broadcast of a change ---------------------------------------------------------------
    if changed:
        bc = [e for e in at_loc if e[0] == "B"]
        if k in ("int", "opt"):
            ok = any(e[2] in ("i", "c") and dec(e[3][0]) == wire(new) for e in bc)
        elif k == "flt":
            ok = any(e[2] == "f" and dec(e[3][0]) == new for e in bc)
        elif k == "tog":
            ok = any(e[2] == ("T" if new else "F") for e in bc)
        else:
            ok = any(e[2] == "s" and unhx(e[3][0]) == new for e in bc)
        if not ok:
            return "change to %r not broadcast at %r: %r" % (new, loc, evs), after
    # ---- undo event ----------------------------------------------------------------------------
    if k in ("int", "opt", "flt"):
        if changed:
            if len(undo) != 1:
                return "value changed %r -> %r but %d undo events" % (old, new, len(undo)), after
            u = undo[0]
            if len(u[3]) != 3 or len(u[2]) != 3 or u[2][0] != "s" or unhx(u[3][0]) != loc:
                return "undo event malformed or wrong address: %r" % (u,), after
            if dec(u[3][1]) != wire(old) or dec(u[3][2]) != wire(new):
                return "undo event carries (%s, %s), true old/new are (%r, %r)" % (u[3][1], u[3][2], old, new), after
            if k == "flt" and u[2] != "sff":
                return "undo event of a float port has types %s" % u[2], after
        elif undo:
            return "stored value unchanged (%r) but an undo event was emitted: %r" % (old, undo), after
    return None, after


def oracle(op, out, trunc=False):
    w = op.split()
    if len(w) < 9 or w[1] not in PORTS:
        return None
    out = _RAW.get(op, out)             # what the harness printed, before canon() masked anything
    if out.startswith("crash") or out.startswith("table-mismatch") or out.startswith("bad-op"):
        return "implementation: " + out[:200]
    P = PORTS[w[1]]
    segs = out.split(" ")
    msgs = w[8:]
    if len(segs) != len(msgs) + 1:
        return "output has %d segments for %d messages" % (len(segs), len(msgs))
    if segs[-1] != "X=ok":
        return "memory outside the port's own field changed (%s)" % segs[-1]
    pfx = unhx(w[0])
    state = parse_state(P, w[7], raw=True)
    for tok, seg in zip(msgs, segs):
        if seg == "bad-msg":
            continue
        path = w[1].encode() + (tok.split("@")[0].encode() if "@" in tok else b"")
        # a message outside the quantifier is not judged (check_msg); the messages behind it are, each from the state
        # the implementation printed in front of it
        err, state = check_msg(P, pfx + path, state, seg, tok, trunc)
        if err:
            return "message `%s`: %s" % (tok, err)
    return None


# ------------------------------------------------------------------------------------------
# comparison with the model: only what the property observes, only inside its quantifier
# ------------------------------------------------------------------------------------------
_RAW = {}       # op line -> what the harness printed, when canon() changed it
_CUT = {}       # op line -> number of leading messages inside the property's quantifier
UNDO_HEX = b"/undo_change".hex()


def first_outside(op, out):
    """number of leading messages of the history that are inside the quantifier/ASSUMPTIONS, following the states the
    implementation printed; None when the output cannot be followed (crash, malformed)"""
    w = op.split()
    if len(w) < 9 or w[1] not in PORTS:
        return None
    P = PORTS[w[1]]
    msgs = w[8:]
    segs = out.split(" ")
    if out.startswith(("crash", "table-mismatch", "bad-op")) or len(segs) != len(msgs) + 1:
        return None
    try:
        pfx = unhx(w[0])
        state = parse_state(P, w[7], raw=True)
        for j, (tok, seg) in enumerate(zip(msgs, segs)):
            if seg == "bad-msg":
                continue
            path = w[1].encode() + (tok.split("@")[0].encode() if "@" in tok else b"")
            if outside(P, pfx + path, state, tok):
                return j
            state = parse_state(P, seg.split(";")[2])
    except (ValueError, IndexError, KeyError):
        return None
    return len(msgs)


def canon(op, out, cut, is_model):
    """The output as far as the property speaks about it: the segments of the messages in front of the first one
    outside the quantifier (behind it `~`; crashes and the final `X=` token stay), and for toggle and string ports
    without /undo_change events (the property demands undo events of numeric and option ports only)."""
    if cut is None or out.startswith(("crash", "table-mismatch", "bad-op")):
        return out
    w = op.split()
    n = len(w) - 8
    segs = out.split(" ")
    if len(segs) == n + 1:
        body, x = segs[:n], segs[n]
    elif is_model and segs[-1].startswith("err:") and len(segs) - 1 >= cut:
        body, x = segs[:-1], "X=ok"         # the model leaves the message undefined: outside as well
    else:
        return out
    body = body[:cut] + ["~"] * (n - cut)
    if PORTS[w[1]]["kind"] in ("tog", "str"):
        for j in range(cut):
            if UNDO_HEX in body[j]:
                f = body[j].split(";")
                if len(f) == 3:
                    ev = [e for e in f[1].split(",") if e.split(":")[1:2] != [UNDO_HEX]]
                    f[1] = ",".join(ev) or "-"
                    body[j] = ";".join(f)
    return " ".join(body + [x])


def known(op, impl_out, model_out, defs):
    """A failing input belongs to C14-K1 only if the trigger holds for its port, the
    implementation printed exactly what the defect-mirroring model predicts, and the
    property holds of that output once the declared bounds are read the way `atoi` reads
    them; anything else stays a violation."""
    w = op.split()
    P = PORTS.get(w[1]) if len(w) > 1 else None
    if P is None or not bound_truncated_outward(P):
        return None
    if model_out is not None and impl_out != model_out:
        return None
    if oracle(op, impl_out) is None or oracle(op, impl_out, trunc=True) is not None:
        return None
    for d in defs:
        if d.get("id") == "C14-K1":
            return d["id"]
    return None


def main(argv):
    """vlib.main, except that a tree on which the harness dies on more than 200 inputs (the
    common runner gives up there) is still reported as a VIOLATION with a replay: the corpus
    and a short generated prefix are run again and the first input the oracle rejects
    (a crash is rejected) is written out."""
    import os
    import random
    import shutil
    import sys
    mod = sys.modules[__name__]
    orig_h, orig_d = vlib.run_harness, vlib.run_driver

    def run_harness_canon(exe, ops, workdir, tag, extra_args=()):
        raw = orig_h(exe, ops, workdir, tag, extra_args)
        out = []
        for op, r in zip(ops, raw):
            cut = first_outside(op, r)
            _CUT[op] = cut
            c = canon(op, r, cut, False)
            if c != r:
                _RAW[op] = r
            out.append(c)
        return out

    def run_driver_canon(engine, ops, workdir, tag, nproc=1):
        raw = orig_d(engine, ops, workdir, tag, nproc)
        return [canon(op, r, _CUT.get(op), True) for op, r in zip(ops, raw)]

    vlib.run_harness, vlib.run_driver = run_harness_canon, run_driver_canon
    try:
        return _main(mod, argv)
    finally:
        vlib.run_harness, vlib.run_driver = orig_h, orig_d


def _main(mod, argv):
    import os
    import random
    import shutil
    try:
        return vlib.main(mod, argv)
    except RuntimeError as e:
        if "crashes on more than 200 inputs" not in str(e):
            raise
        note = str(e)
    seed = int(os.environ.get("VERIF_SEED", "1"))
    for i, a in enumerate(argv):
        if a == "--seed" and i + 1 < len(argv):
            seed = int(argv[i + 1])
    ops = []
    rng = random.Random(seed * 1000003 + 17)
    for j, op in enumerate(generate(rng, "quick", {})):
        if j >= 400:
            break
        ops.append(op)
    exe = vlib.build_harness(ENGINE, HARNESS, "san")
    work = os.path.join(vlib.BUILD, "run-%s-crash-%d" % (PROP, os.getpid()))
    os.makedirs(work, exist_ok=True)
    try:
        impl = vlib.run_harness(exe, ops, work, "crash")
    finally:
        shutil.rmtree(work, ignore_errors=True)
    defs = vlib.load_known(PROP)
    for op, a in zip(ops, impl):
        f = oracle(op, a)
        if f is not None and not known(op, a, None, defs):
            path = vlib.write_replay(PROP, "input", {"property": PROP, "kind": "failing-input", "ops": [op], "impl": a,
                                                     "model": None, "failure": f, "seed": seed,
                                                     "note": "harness died on more than 200 inputs: " + note[-600:]})
            print("VIOLATION property=%s replay=%s" % (PROP, path))
            return 1
    path = vlib.write_replay(PROP, "nofail", {"property": PROP, "kind": "no-failing-input-found", "seed": seed,
                                              "note": "harness died on more than 200 inputs: " + note[-1500:]})
    print("VIOLATION property=%s replay=%s no-failing-input-found" % (PROP, path))
    return 1
