"""C11 — The scanner accepts the documented text syntax and canonicalises it."""
import re
from fractions import Fraction

PROP = "C11"
ENGINE = "scan"
LEAN_MODULES = ["RtoscModel.Props.C11"]
_NS = "Rtosc.Pretty.C11."
THEOREMS = [_NS + t for t in (
    # the four clauses, proved part: sentences of any length whose values are scalars in a proved spelling
    # (Tok.proved), arrays of such values (nested), nxA of a scalar or array — under every layout
    "checker_scanner_agree_partial", "scan_denotes_partial", "whitespace_comment_invariance_partial",
    "whitespace_comment_invariance_partial'", "print_scan_fixpoint_partial",
    # the statements they rest on, and the list loops over arbitrary gaps
    "reads_proved", "reads_plain", "countPrintedArgVals_lay", "scanArgVals_lay", "countPrintedArgVals_empty",
    "scanArgVals_empty",
    # per-construct agreement: every proved scalar spelling, nxA, arrays; every value built from them
    "valOK_tok", "Arg11.rep", "arg11_array", "SVal.proved.arg11", "cells_proved",
    # printing of the scanned scalar values
    "printsVal_tok", "printArgVals_lay",
    # a leading range `b ... c` of decimal 'i' integers followed by proved values (checker, scanner, denotation)
    "range_first_partial", "reads_range_first", "cells_range_first", "range_first_lay", "scanArgVal_range0",
    "skipNext_range0", "deltaUnity11",
    # ranges `b ... c` of decimal 'i' integers anywhere at top level: first, behind a scalar (an 'i' integer a gives
    # the step b - a), behind nx<scalar>, behind another range (its right end is the neighbour) — class `Ranged`
    "checker_scanner_agree_ranges_partial", "scan_denotes_ranges_partial",
    "whitespace_comment_invariance_ranges_partial", "reads_ranged", "cells_ranged", "Proved.ranged",
    "layR_ranged", "denoteElems_ranged", "countPrintedArgVals_layR", "scanArgVals_layR", "scanLoop_layR",
    "countLoop_layR", "Prov.scanRange", "Prov.skipRange", "scanArgVal_rangeB", "scanArgVal_rangeC",
    "skipNext_rangeL", "deltaStep11", "RangeOK.delta_cell", "ValOK.nomult", "exRanged_ranged",
    # ranges directly behind an array / nx[array] (Prov.arr, Prov.repArr: the checker re-skips the array with the
    # recursion bound lookBackFuel) and ranges INSIDE arrays of any nesting depth: the element loops of scanner and
    # checker over elements and ranges (ArrR), the array with ranges as a good argument, the wider value class
    # SVal.rproved (text -> ArrR / LayR, denotation), the sentences built from it
    "lookBackFuel_ge", "scanElemsR", "skipElemsR", "arg11_arrayR", "SVal.rproved.arg11", "rangedElems.body",
    "SVal.rproved.denote1", "rangedElems.denote", "layR_rangedA", "cells_rangedA", "rangedFromA_of_proved",
    "exRangedArr_ranged",
    # hypothesis the class needs: the width c - b must be an int32_t (the specification only bounds the number of
    # steps); former model artefact (recursion bound of the checker's look-back at a deeply nested left neighbour),
    # repaired in the model: the former witness is read as its denotation
    "wide_range_counterexample", "deep_neighbour_reads",
    # known finding C11-K1: the full statements fail on "077" (scan_denotes) and on "-071 -58 ... -076"
    # (checker_scanner_agree); the proved part lies outside the trigger
    "scan_denotes_counterexample", "checker_scanner_agree_counterexample", "proved_not_K1",
    # former finding C11-K2, repaired by fixes/C11-08: "42%c" (a comment directly behind a numeric literal) is read as
    # 42; a sentence with a comment directly behind every kind of numeric word is read as its denotation
    "num_comment_witness", "num_comment_reads", "exTightNum_reads",
    # non-vacuity: sentences with one value of every proved construct under a messy layout
    "exPlain", "exProved")]
HARNESS = {"src": ["scan.cpp"]}
RULE = ("each case: one text generated constructively from the grammar of doc/Guide.adoc, section 'Pretty-printing "
        "Messages' (0..10 values: integers in decimal/hex/octal with and without the i/h suffix, floats and doubles in "
        "point/exponent/suffix/hex notation with and without an exact value in parentheses, characters raw or escaped, "
        "strings with escapes and 1..3 concatenated parts, identifiers and quoted symbols, true/false/nil/inf, "
        "now/immediately, colours, MIDI, blobs (BLOB [n 0x.. …]), NxA repetitions of scalars and arrays, 'a b ... c' ranges of c/i/h/f/d, arrays "
        "with nested arrays (depth <= 4), repetitions, ranges and open-ended ranges; runs of 5..10 explicitly written values "
        "the printer compresses: arithmetic progressions of c/i/h with steps incl. 0, negative steps and first-to-last "
        "distances beyond the width of the type, and one scalar written n times, at top level and in arrays; quoted "
        "symbols whose content is a reserved word or identifier-shaped), rendered with 0..3 white-space / line-break / "
        "'%' comment insertions at every token boundary (comments between top-level values only, also directly behind a "
        "value without white space in between); 40 % of the cases carry "
        "a second rendering of the same choices; a second stream (1500 / 30000 cases) builds sentences of the Lean specification "
        "(Pretty/C11Spec.lean: every construct incl. ranges of c/i/h/f/d, open-ended arrays, floats with exact part), renders "
        "them in Python and sends the sentence along (sent=…): the driver decodes it and reports any difference between "
        "what the specification says the sentence denotes and what the model scans from the text and from the "
        "specification's own renderings (one without insertions, one with comments directly behind the values); the "
        "timestamp spellings with a date (doc/Guide.adoc) are not part of C11's sentences (C10 prints and rescans them); "
        "a case is non-trivial when the text has at least two values or one "
        "compound value; distinct = distinct op line")
ASSUMPTIONS = [
    "the fix patches fixes/C11-01 … C11-08 are applied to the tree (on top of fixes/C10-*.patch): leading white space / "
    "comments in rtosc_scan_arg_vals, numeric test for open-ended ranges in the scanner, no scan of a non-numeric left "
    "neighbour in the checker, no left neighbour taken from inside a preceding array, nearest step count for float ranges, "
    "args_before in arrays counts argument values, the checker rejects a range of a repetition (3x1 ... 5), a numeric "
    "word ends at the comment sign (42%c)",
    "what is compared between model and implementation is what observe_at names: the count, the number of cells "
    "written, the bytes consumed, the cells (booleans with their payload val.T: T1 / F0), and the same for the text "
    "printed from the cells (there only 'consumed entirely'); the printed text itself is not compared; on texts "
    "outside the grammar (corpus lines marked `ns`) only 'stays inside defined behaviour where the model says so' is compared",
    "the Lean theorems hold for layouts in which no comment follows a value directly (Layout.spaced: every '%' behind "
    "a value is preceded by white space); comments directly behind a value ('true%c') are part of the specification's "
    "layouts, of the generator and of the reference reader, and are covered by correspondence + oracle only (C10's "
    "per-token lemmas are stated for a separator that starts with white space)",
    "proved (Lean, no bound on the number of values, nesting depth, gaps or characters): checker_scanner_agree, "
    "scan_denotes and whitespace_comment_invariance for sentences whose values are built from: scalars in the "
    "spellings 'i' integers in decimal (with and without the suffix i) and hexadecimal (0x2a, -0x2a, 0x2A, two's "
    "complement 0xffffffd6), decimal 'h' integers, characters raw or escaped (incl. '\\0'), "
    "strings and quoted symbols with every escape sequence and any concatenation of parts, identifiers, "
    "true/false/nil/inf/now/immediately, colours (lower-case digits), MIDI and blobs (in the printer's spacing; any "
    "white space between the bytes of a blob); arrays without open end of such values of one type, nested to any "
    "depth, with any white space between the elements; nxA (1 <= n <= 2^31-1) of a scalar or an array — under "
    "EVERY layout of white space, line breaks and '%' comment lines in front of, between and behind the values; "
    "print_scan_fixpoint for sentences of scalars only, assuming that the printer does not compress (no five "
    "values of one type in a row); in addition (range_first_partial): a sentence that STARTS with a range b ... c of two "
    "different decimal 'i' integers (at least one white-space character in front of the dots, |c-b|+1 < 2^31), followed by "
    "any proved values: it denotes |c-b|+1 values from b in steps of sgn(c-b), and checker and scanner agree on exactly "
    "these cells; and (class Ranged: checker_scanner_agree_ranges_partial, scan_denotes_ranges_partial, "
    "whitespace_comment_invariance_ranges_partial) the first three clauses for sentences of any length in which ranges "
    "b ... c of two decimal 'i' integers (unsuffixed, at least one white-space character in front of the dots) stand "
    "anywhere among values of the proved class, at top level AND inside arrays nested to any depth (arrays without open "
    "end whose elements are values of the class or such ranges; such an array may again be repeated, nx[…], or be an "
    "element), each range being the first value (of the sentence / of its array) or standing behind a "
    "scalar value of any type in a proved spelling, behind nx<scalar>, behind another such range, behind an array or "
    "behind nx[array]: the step is b - a when the value a to "
    "the left is an 'i' integer different from b (behind a range: its right end c'), else sgn(c-b) (also behind an "
    "array: its last element is not the left neighbour, fix C11-04); hypothesis "
    "RangeOK: the step is an int32_t that reaches c from b in 1 .. 2^31-2 steps and the width c - b is an int32_t",
    "the width hypothesis of RangeOK is necessary (wide_range_counterexample): '-2100000000 -1500000000 ... 900000000' "
    "denotes five values in the manual's reading (the specification's stepsOf only bounds the number of steps), "
    "delta_from_arg_vals computes c - b in int (signed overflow in C, wrapped in the model) and the checker rejects the "
    "text; such widths are not generated",
    "former model artefact, repaired in the model (transcription repair, no change of the C code): C11.ellipsisTail "
    "re-skips the previous argument (llhssrc) with the recursion bound it is handed; C11.countLoop used to hand "
    "'length of the text from the current argument on + 2', so a left neighbour that is an array nested deeper than "
    "the rest of the text is long ('[[[[[[[[1]]]]]]]] 2...5') made the MODEL stop with Err.fuel where the C code has no "
    "bound; the loop now hands C11.lookBackFuel = length of the text from the PREVIOUS argument on + 2 (every call "
    "of rtosc_skip_next_printed_arg works inside the argument it skips or on the previous argument, so this bounds "
    "the call depth); the driver's output is unchanged on every generated case (0 diffs), Lean evaluates the former "
    "witness (deep_neighbour_reads), and arrays are now proved left neighbours of ranges",
    "NOT proved, covered by exact model/implementation correspondence and the oracle on the implementation only: octal "
    "integers, hexadecimal integers with a suffix or of type 'h', floats and doubles in every notation (point, exponent, suffix, hex, exact value in "
    "parentheses), upper-case colours, other spacings inside MIDI, "
    "ranges of c/h/f/d or in other spellings (hex, i suffix), arrays with an open end ('[a b ...]'), "
    "comments directly behind a value; print_scan_fixpoint for arrays, nxA and compressed runs",
    "known finding C11-K1: an unsuffixed integer literal with a leading zero is read as decimal although the manual "
    "promises C99 (octal) reading and the suffixed forms are read as octal; the model mirrors it, Lean proves the "
    "counterexample, the run attributes an input to it only when the trigger holds, implementation = model, and every "
    "clause holds under the decimal reading",
    "former finding C11-K2 (repaired, fixes/C11-08-numeric-word-ends-at-comment.patch): a numeric literal directly "
    "followed by '%' (42%c, 1.5%c, 2x1%c, 1 ... 5%c) was rejected by the checker although every other kind of value may "
    "be followed by a comment directly (upstream test 'comment right after true'); scanf_fmtstr now ends the numeric "
    "word at '%' as well, the model follows (C10's Pretty/Lex.lean numWordLen, C10's token lemmas re-proved with the fact "
    "that no character of a printed numeric word is '%'); such texts are generated as often as comments directly behind "
    "other values and must satisfy every clause; Lean evaluates the former witness and one sentence with a comment "
    "directly behind every kind of numeric word (num_comment_reads, exTightNum_reads), the general theorems stay "
    "restricted to Layout.spaced",
    "float ranges: the oracle follows the manual (an n with |b+nd-c| <= 0.001; the step is one IEEE subtraction); texts "
    "whose n or tolerance test is too close to call for a reference with exact arithmetic, and ranges whose left "
    "neighbour is the computed end of a float range (not defined by the manual), are not generated",
    "TZ=UTC, LC_ALL=C; the scanner's string buffer is abstracted (string/blob cells carry their bytes); the harness gives "
    "the scanner exactly `count` cells (ASan sees any cell written beyond the count)",
]
TRUSTED = [
    "hand-written model RtoscModel/Pretty/C11Model.lean (the repaired recursive cores of rtosc_scan_arg_val / "
    "rtosc_skip_next_printed_arg, their list loops, delta_from_arg_vals with float arithmetic, range printer) on top of "
    "C10's RtoscModel/Pretty/{Lex,Val,Print,Scan,Check}.lean, and RtoscModel/Pretty/C11Float.lean (IEEE sub/div/round/"
    "to-int/tolerance compare on bit patterns)",
    "libc modelled, not verified: RtoscModel/Libc/{Ctype,Printf,Float,Scanf,Time}.lean (as for C10)",
    "the specification RtoscModel/Pretty/C11Spec.lean (Sentence / render / denote) is hand-written from doc/Guide.adoc; "
    "the Python reference reader in this module is a second, independent reading of the same manual section; the two are "
    "compared with each other, with the model and with the implementation on every case of the sent= stream "
    "(Driver/ScanSentence.lean)",
    "C16's cell type, Item/flatList and comparison model RtoscModel/ArgVal/*.lean (imported)",
]
LEVEL_TEXT = ("Lean theorems over an executable model of checker, scanner and printer: for sentences of ANY length whose values "
              "are scalars in the proved spellings (decimal and hexadecimal i integers, decimal h integers, characters, strings and quoted "
              "symbols with all escapes and concatenations, identifiers, keywords, colours, MIDI, blobs), arrays of them "
              "nested to any depth, and nxA of a scalar or array, and for EVERY layout of white space, line breaks and "
              "comment lines: the checker's count equals the number of cells the scanner writes, the whole text is consumed, "
              "the cells are the denotation, and two layouts scan to the same cells (induction over the token list and the "
              "nesting, no size bound); for sentences of scalars print-then-scan is the identity on the scanned cells; "
              "of the ranges those of decimal i integers are proved, at top level and inside arrays of any nesting depth: "
              "'b ... c' as the first value (of the sentence, of its array), 'a b ... c' with the "
              "step b - a taken from the scalar a to the left, ranges behind values of other types, behind nx<scalar>, "
              "behind other ranges, behind arrays and behind nx[array] "
              "(the width c - b must be an int32_t, which the code needs and the manual does not say). "
              "'Every layout' means: every layout in which a comment behind a value is preceded by white space. "
              "The remaining constructs (octal and suffixed hex integers, floats, ranges "
              "of other types or spellings, open-ended arrays, comments directly behind a value) are checked by exact "
              "model/implementation correspondence on generated sentences and by an independent reference reader of the "
              "manual evaluated on the implementation's output, not proved. One known finding with proved counterexamples "
              "(C11-K1 octal read as decimal)")
LEVEL_NOTE = ("partial: scalars in the proved spellings, arrays, nxA and ranges of decimal i integers at top level and inside "
              "arrays (first value, or behind a scalar / nx<scalar> / another range / an array / nx[array]: 'a b ... c' with the "
              "step from a and b) under all layouts without a "
              "comment directly behind a value are proved; octal / suffixed-hex / float spellings, ranges of c/h/f/d or in other "
              "spellings (hex, i suffix: C10's token lemmas exist only for decimal integers in front of '...'), open-ended arrays "
              "'[a b ...]' (the per-range lemmas for the infinite case and the specification's open-end denotation are not "
              "linked) and adjacent comments are correspondence + oracle only")

# ------------------------------------------------------------------------------------
# exact binary floating point on bit patterns (independent of the Lean model)
# ------------------------------------------------------------------------------------
F32 = (23, 8)
F64 = (52, 11)


def round_frac(x, fmt):
    """bits of the value of format `fmt` nearest to the Fraction x (ties to even)"""
    mb, eb = fmt
    bias = 2 ** (eb - 1) - 1
    sign = 0
    if x < 0:
        sign = 1 << (mb + eb)
        x = -x
    if x == 0:
        return sign
    # exponent e with 2^e <= x < 2^(e+1)
    e = x.numerator.bit_length() - x.denominator.bit_length()
    if Fraction(2) ** e > x:
        e -= 1
    if Fraction(2) ** (e + 1) <= x:
        e += 1
    q = max(e - mb, 1 - bias - mb)          # exponent of the last place
    m = x / Fraction(2) ** q
    fl = m.numerator // m.denominator
    rem = m - fl
    if rem > Fraction(1, 2) or (rem == Fraction(1, 2) and fl % 2 == 1):
        fl += 1
    # fl may have reached 2^(mb+1): the encoding below still works (carry into the exponent)
    k = q - (1 - bias - mb)
    bits = k * 2 ** mb + fl if fl >= 2 ** mb else fl
    if fl >= 2 ** mb:
        bits = (k + 1) * 2 ** mb + (fl - 2 ** mb)
    inf = (2 ** eb - 1) * 2 ** mb
    if bits >= inf:
        bits = inf
    return sign + bits


def bits_frac(b, fmt):
    """Fraction value of a finite bit pattern"""
    mb, eb = fmt
    bias = 2 ** (eb - 1) - 1
    sign = -1 if (b >> (mb + eb)) & 1 else 1
    ef = (b >> mb) & (2 ** eb - 1)
    fr = b & (2 ** mb - 1)
    if ef == 2 ** eb - 1:
        return None
    if ef == 0:
        return sign * Fraction(fr) * Fraction(2) ** (1 - bias - mb)
    return sign * Fraction(2 ** mb + fr) * Fraction(2) ** (ef - bias - mb)


# ------------------------------------------------------------------------------------
# reference reader of the documented grammar (independent of the C code and of the Lean model)
#   read_text(bytes) -> list of items | None (None: not a sentence of the grammar as read here)
#   items: ('v', cell) | ('arr', [items]) | ('rep', n, item) | ('range', n, delta, start)   (n = 0: endless)
#   cells: ('i',v) ('c',v) ('h',v) ('f',bits) ('d',bits) ('s',bytes) ('S',bytes) ('T',) ('F',) ('N',) ('I',)
#          ('t',v) ('r',v) ('m',b0,b1,b2,b3)
# ------------------------------------------------------------------------------------
WS = b" \t\n\v\f\r"
ESC = {ord('a'): 7, ord('b'): 8, ord('t'): 9, ord('n'): 10, ord('v'): 11, ord('f'): 12, ord('r'): 13, ord('\\'): 92}
RESERVED = {b"true", b"false", b"nil", b"inf", b"now", b"immediately", b"MIDI", b"BLOB"}

RE_INT = re.compile(rb"(-?)(0[xX][0-9a-fA-F]+|0[0-7]+|0|[1-9][0-9]*)([ih]?)$")
RE_DECF = re.compile(rb"(-?)([0-9]+)(?:\.([0-9]*))?(?:[eE]([+-]?[0-9]+))?([fd]?)$")
RE_HEXF = re.compile(rb"(-?)0[xX]([0-9a-fA-F]+)(?:\.([0-9a-fA-F]*))?[pP]([+-]?[0-9]+)([fd]?)$")
RE_MULT = re.compile(rb"([1-9][0-9]*)x")
RE_IDENT = re.compile(rb"[A-Za-z_][A-Za-z0-9_]*")
RE_COLOR = re.compile(rb"#([0-9a-fA-F]{8})")
RE_MIDI = re.compile(rb"MIDI[ \t\n\v\f\r]*\[[ \t\n\v\f\r]*0x([0-9a-fA-F]{1,2})[ \t\n\v\f\r]+0x([0-9a-fA-F]{1,2})"
                     rb"[ \t\n\v\f\r]+0x([0-9a-fA-F]{1,2})[ \t\n\v\f\r]+0x([0-9a-fA-F]{1,2})[ \t\n\v\f\r]*\]")


RE_BLOB_HEAD = re.compile(rb"BLOB[ \t\n\v\f\r]*\[[ \t\n\v\f\r]*(0|[1-9][0-9]{0,3})")
RE_BLOB_BYTE = re.compile(rb"[ \t\n\v\f\r]+0x([0-9a-fA-F]{1,2})")


class NotGrammar(Exception):
    pass


def _wrap(v, bits):
    v &= (1 << bits) - 1
    return v - (1 << bits) if v >> (bits - 1) else v


def is_k1_word(word):
    """an unsuffixed octal literal whose decimal reading differs (finding C11-K1)"""
    m = RE_INT.match(word)
    return bool(m and m.group(3) == b"" and len(m.group(2)) > 1 and m.group(2)[:1] == b"0"
                and m.group(2)[:2] not in (b"0x", b"0X") and int(m.group(2), 8) != int(m.group(2), 10))


def lit_value(word, k1=False):
    """value of one numeric literal (without exact part): cell or NotGrammar.
    k1: the reading of known finding C11-K1 (an unsuffixed literal with a leading zero is decimal)"""
    m = RE_INT.match(word)
    if m:
        neg, body, suf = m.group(1) == b"-", m.group(2), m.group(3)
        if body[:2] in (b"0x", b"0X"):
            mag = int(body[2:], 16)
            based = True
        elif len(body) > 1 and body[:1] == b"0" and k1 and suf == b"":
            mag = int(body, 10)
            based = False
        elif len(body) > 1 and body[:1] == b"0":
            mag = int(body, 8)
            based = True
        else:
            mag = int(body, 10)
            based = False
        if suf == b"h":
            if mag >= 2 ** 63 + (1 if neg else 0):
                raise NotGrammar("int64 literal out of range")
            return ('h', -mag if neg else mag)
        if based and not neg:
            if mag >= 2 ** 32:
                raise NotGrammar("int32 literal out of range")
            return ('i', _wrap(mag, 32))
        if mag >= 2 ** 31 + (1 if neg else 0):
            raise NotGrammar("int32 literal out of range")
        return ('i', -mag if neg else mag)
    m = RE_HEXF.match(word)
    if m:
        neg, ip, fp, ex, suf = m.group(1) == b"-", m.group(2), m.group(3) or b"", int(m.group(4)), m.group(5)
        x = Fraction(int(ip + fp, 16)) * Fraction(2) ** (ex - 4 * len(fp))
    else:
        m = RE_DECF.match(word)
        if not m:
            raise NotGrammar("not a numeric literal: %r" % word)
        neg, ip, fp, ex, suf = m.group(1) == b"-", m.group(2), m.group(3), m.group(4), m.group(5)
        if fp is None and ex is None and suf == b"":
            raise NotGrammar("integer with leading zero / not C99: %r" % word)
        if abs(int(ex or 0)) > 400 or len(ip) + len(fp or b"") > 40:
            raise NotGrammar("extreme literal")
        x = Fraction(int(ip + (fp or b""), 10)) * Fraction(10) ** (int(ex or 0) - len(fp or b""))
    if suf == b"d":
        b = round_frac(x, F64)
        if b >= 0x7ff0000000000000:
            raise NotGrammar("overflow")
        return ('d', b | (1 << 63) if neg else b)
    b = round_frac(x, F32)
    if b >= 0x7f800000:
        raise NotGrammar("overflow")
    return ('f', b | (1 << 31) if neg else b)


class Reader:
    def __init__(self, text, k1=False):
        self.t = text
        self.n = len(text)
        self.k1 = k1
        self.k1_words = 0          # literals on which the two readings differ
        self.k2_words = 0          # numeric literals directly followed by '%' (former finding C11-K2; statistics)

    def ws(self, p):
        while p < self.n and self.t[p] in WS:
            p += 1
        return p

    def ws_comments(self, p):
        while True:
            p = self.ws(p)
            if p < self.n and self.t[p] == 37:
                while p < self.n and self.t[p] != 10:
                    p += 1
            else:
                return p

    def word_end(self, p):
        # "Comments are introduced with a percent sign": a '%' ends a numeric word like white space does
        # (so does the code since fix C11-08; before, "42%c" was rejected: former finding C11-K2)
        while p < self.n and self.t[p] not in WS and self.t[p] not in b")]%" and self.t[p:p + 3] != b"...":
            p += 1
        return p

    def string(self, p):
        """at the opening quote: (content, position behind the last closing quote)"""
        out = bytearray()
        while True:
            p += 1
            while True:
                if p >= self.n:
                    raise NotGrammar("unterminated string")
                c = self.t[p]
                if c == 34:
                    break
                if c == 92:
                    if p + 1 >= self.n:
                        raise NotGrammar("unterminated string")
                    e = self.t[p + 1]
                    if e in ESC:
                        out.append(ESC[e])
                    elif e == 34:
                        out.append(34)
                    else:
                        raise NotGrammar("unknown escape in string")
                    p += 2
                else:
                    if c < 32 or c > 126:
                        raise NotGrammar("raw control character in string")
                    out.append(c)
                    p += 1
            p += 1   # closing quote
            if p < self.n and self.t[p] == 92:
                q = self.ws(p + 1)
                if q < self.n and self.t[q] == 34:
                    p = q
                    continue
                raise NotGrammar("backslash behind a string without continuation")
            return bytes(out), p

    def scalar_or_array(self, p, in_array):
        """one value that is neither NxA nor a range: (item, position behind it)"""
        if p >= self.n:
            raise NotGrammar("value expected")
        c = self.t[p]
        if c == 34:
            s, q = self.string(p)
            if q < self.n and self.t[q] == 83:
                return ('v', ('S', s)), q + 1
            return ('v', ('s', s)), q
        if c == 39:
            if p + 2 < self.n and self.t[p + 1] != 92 and self.t[p + 1] != 39 and self.t[p + 2] == 39 and 32 <= self.t[p + 1] <= 126:
                return ('v', ('c', self.t[p + 1])), p + 3
            if p + 3 < self.n and self.t[p + 1] == 92 and self.t[p + 3] == 39:
                e = self.t[p + 2]
                if e in ESC:
                    return ('v', ('c', ESC[e])), p + 4
                if e == 39:
                    return ('v', ('c', 39)), p + 4
                if e == 48:
                    return ('v', ('c', 0)), p + 4
            raise NotGrammar("bad character literal")
        if c == 91:
            return self.array(p)
        if c == 35:
            m = RE_COLOR.match(self.t, p)
            if not m:
                raise NotGrammar("bad colour")
            return ('v', ('r', _wrap(int(m.group(1), 16), 32))), m.end()
        m = RE_IDENT.match(self.t, p)
        if m:
            w = m.group(0)
            if w == b"MIDI":
                mm = RE_MIDI.match(self.t, p)
                if not mm:
                    raise NotGrammar("bad MIDI")
                return ('v', ('m',) + tuple(int(mm.group(k), 16) for k in (1, 2, 3, 4))), mm.end()
            if w == b"BLOB":
                # the manual's example lacks the keyword ("[6 0x72 …]" would be an array of integers);
                # the syntax read here is the one the code prints and scans: BLOB [n 0x.. …]
                mm = RE_BLOB_HEAD.match(self.t, p)
                if not mm:
                    raise NotGrammar("bad BLOB")
                n = int(mm.group(1))
                q = mm.end()
                data = bytearray()
                for _ in range(n):
                    mb = RE_BLOB_BYTE.match(self.t, q)
                    if not mb:
                        raise NotGrammar("bad BLOB byte")
                    data.append(int(mb.group(1), 16))
                    q = mb.end()
                q = self.ws(q)
                if q >= self.n or self.t[q] != 93:
                    raise NotGrammar("BLOB not closed")
                return ('v', ('b', bytes(data))), q + 1
            kw = {b"true": ('T',), b"false": ('F',), b"nil": ('N',), b"inf": ('I',), b"now": ('t', 1), b"immediately": ('t', 1)}
            if w in kw:
                return ('v', kw[w]), m.end()
            return ('v', ('S', w)), m.end()
        # numeric literal, optionally with its exact value in parentheses
        e = self.word_end(p)
        if e == p:
            raise NotGrammar("value expected")
        word = self.t[p:e]
        if e < self.n and self.t[e] == 37:
            self.k2_words += 1
        if re.match(rb"[0-9]{4}-[0-9]{2}-[0-9]{2}", word):
            raise NotGrammar("dates are not part of the grammar read here")
        cell = lit_value(word, self.k1)
        if is_k1_word(word):
            self.k1_words += 1
        q = self.ws(e)
        if q < self.n and self.t[q] == 40:
            if cell[0] not in "fd":
                raise NotGrammar("exact value behind an integer")
            q = self.ws(q + 1)
            e2 = self.word_end(q)
            ex = self.t[q:e2]
            if not RE_HEXF.match(ex) or ex[-1:] in (b"f", b"d"):
                raise NotGrammar("exact value must be in hex notation")
            if cell[0] == 'd':
                cell = lit_value(ex + b"d")
            else:
                cell = lit_value(ex)
            q = self.ws(e2)
            if q >= self.n or self.t[q] != 41:
                raise NotGrammar("missing )")
            return ('v', cell), q + 1
        return ('v', cell), e

    def value(self, p, in_array):
        """one value incl. NxA: (item, position)"""
        m = RE_MULT.match(self.t, p)
        if m:
            n = int(m.group(1))
            if n > 2 ** 31 - 1:
                raise NotGrammar("multiplier out of range")
            if RE_MULT.match(self.t, m.end()):
                raise NotGrammar("NxNxA")
            it, q = self.scalar_or_array(m.end(), in_array)
            return ('rep', n, it), q
        return self.scalar_or_array(p, in_array)

    def items(self, p, in_array):
        """the list loop: items up to the end of the text / the closing bracket"""
        out = []
        while True:
            p = self.ws(p) if in_array else self.ws_comments(p)
            if p >= self.n:
                if in_array:
                    raise NotGrammar("unterminated array")
                return out, p
            if in_array and self.t[p] == 93:
                return out, p
            start = p
            it, q = self.value(p, in_array)
            # a range?
            r = self.ws(q)
            if self.t[r:r + 3] == b"...":
                if self.t[q - 1:q] == b"." :
                    raise NotGrammar("ambiguous dots")
                r = self.ws(r + 3)
                if in_array and r < self.n and self.t[r] == 93:
                    out.append(self.open_range(out, it))
                    return out, r
                if r >= self.n:
                    raise NotGrammar("range without end")
                rhs, q2 = self.scalar_or_array(r, in_array)
                out.append(self.closed_range(out, it, rhs))
                q = q2
            else:
                out.append(it)
            # values are separated by white space or a comment ("true%false" with the comment "%false" is one of
            # upstream's own tests: "comment right after true"); ']' may follow directly
            if q < self.n and self.t[q] not in WS and not (in_array and self.t[q] == 93) and not (not in_array and self.t[q] == 37):
                raise NotGrammar("values not separated")
            p = q

    def array(self, p):
        its, q = self.items(p + 1, True)
        # elements of the same type
        tys = [item_type(x) for x in its]
        for a in tys:
            if not types_match(a, tys[0]):
                raise NotGrammar("array elements of different types")
        return ('arr', its), q + 1

    @staticmethod
    def prev_value(out):
        """the value left of the left-hand side of a range, if it is a single scalar value"""
        if not out:
            return None
        x = out[-1]
        if x[0] == 'v':
            return x[1]
        if x[0] == 'rep' and x[2][0] == 'v' and x[1] != 0:
            return x[2][1]
        if x[0] == 'range' and x[1] != 0:
            if x[3][0] in "fd":
                # the manual calls the last value of "a b ... c" "c"; the code keeps (start, step, count) and
                # computes it; for floats the two differ within the tolerance: which one is the left
                # neighbour of a following range is not defined by the manual
                return ('float-range-end', x[3][0])
            return range_elem(x[2], x[3], x[1] - 1)
        return None

    def closed_range(self, out, lhs, rhs):
        if lhs[0] != 'v' or rhs[0] != 'v':
            raise NotGrammar("range of non-scalars")
        b, c = lhs[1], rhs[1]
        if b[0] not in "cihfd" or c[0] != b[0]:
            raise NotGrammar("range of non-numeric / different types")
        a = self.prev_value(out)
        if a is not None and a[0] == 'float-range-end':
            if a[1] == b[0]:
                raise NotGrammar("left neighbour is the computed end of a float range")
            a = None
        useful = a is not None and a[0] == b[0] and num(a) != num(b)
        if num(b) == num(c):
            raise NotGrammar("a b ... b")
        if useful:
            d = sub_cell(b, a)
        else:
            d = (b[0], one(b[0], 1 if num(c) > num(b) else -1))
        x = (num(c) - num(b)) / num(d)
        if b[0] in "cih":
            if x.denominator != 1 or x < 1 or x + 1 > 2 ** 31 - 1:
                raise NotGrammar("no natural n with b + n d = c")
            n = int(x)
        else:
            # the manual: "an n must exist such that |b + n d - c| <= 0.001"; the nearest n is the one that
            # exists if any does.  Too close to call for a reference that computes exactly while the code
            # computes in float / double: quotient near a half, error near the tolerance.
            if x < 0:
                raise NotGrammar("range end on the wrong side")
            n = int(x + Fraction(1, 2))
            err = abs(num(c) - num(b) - n * num(d))
            if n < 1 or n > 10 ** 6:
                raise NotGrammar("no natural n")
            if abs(x - n) > Fraction(49, 100):
                raise NotGrammar("two candidates for n")
            if err > Fraction(9, 10000):
                raise NotGrammar("float range end off by more than the tolerance (or too close to it)")
        return ('range', n + 1, d, b)

    def open_range(self, out, lhs):
        if lhs[0] == 'rep' or lhs[0] == 'range':
            raise NotGrammar("range of a range")
        if lhs[0] == 'arr':
            return ('rep', 0, lhs)
        b = lhs[1]
        a = self.prev_value(out)
        if a is not None and a[0] == 'float-range-end':
            if a[1] == b[0]:
                raise NotGrammar("left neighbour is the computed end of a float range")
            a = None
        if b[0] in "TF" and a is not None and a[0] in "TF" and a[0] != b[0]:
            raise NotGrammar("open range of booleans with a different left neighbour")
        useful = b[0] in "cihfd" and a is not None and a[0] == b[0] and num(a) != num(b)
        if useful:
            return ('range', 0, sub_cell(b, a), b)
        return ('rep', 0, lhs)


def types_match(a, b):
    return a == b or (a in "TF" and b in "TF")


def item_type(x):
    if x[0] == 'v':
        return x[1][0]
    if x[0] == 'arr':
        return 'a'
    if x[0] == 'rep':
        return item_type(x[2])
    return x[3][0]


def num(c):
    if c[0] == 'f':
        return bits_frac(c[1], F32)
    if c[0] == 'd':
        return bits_frac(c[1], F64)
    return Fraction(c[1])


def one(ty, s):
    if ty == 'f':
        return round_frac(Fraction(s), F32)
    if ty == 'd':
        return round_frac(Fraction(s), F64)
    return s


def sub_cell(b, a):
    """b - a in the arithmetic of the type; NotGrammar when it leaves the type"""
    ty = b[0]
    if ty == 'f':
        return ('f', round_frac(num(b) - num(a), F32))
    if ty == 'd':
        return ('d', round_frac(num(b) - num(a), F64))
    v = b[1] - a[1]
    lim = 2 ** 63 if ty == 'h' else 2 ** 31
    if not -lim <= v < lim:
        raise NotGrammar("delta leaves the type")
    return (ty, v)


def range_elem(d, s, k):
    """s + k*d (floats: exact value rounded once — only used with a tolerance)"""
    ty = s[0]
    if ty == 'f':
        return ('f', round_frac(num(s) + k * num(d), F32))
    if ty == 'd':
        return ('d', round_frac(num(s) + k * num(d), F64))
    v = s[1] + k * d[1]
    lim = 2 ** 63 if ty == 'h' else 2 ** 31
    if not -lim <= v < lim:
        raise NotGrammar("range leaves the type")
    return (ty, v)


def check_ranges(items):
    """every element of every finite integer range stays inside the type"""
    for x in items:
        if x[0] == 'range' and x[1] != 0:
            range_elem(x[2], x[3], x[1] - 1)
        elif x[0] == 'arr':
            check_ranges(x[1])
        elif x[0] == 'rep' and x[2][0] == 'arr':
            check_ranges(x[2][1])


def read_text(text, k1=False):
    try:
        its, _ = Reader(text, k1).items(0, False)
        check_ranges(its)
        return its
    except NotGrammar:
        return None


def num_percent(text):
    """the text has a numeric literal that is directly followed by '%' (counted by the reference reader while it
    reads the text): the trigger of the former finding C11-K2 (fix C11-08); only used for the input statistics"""
    r = Reader(text)
    try:
        r.items(0, False)
    except NotGrammar:
        pass
    return r.k2_words > 0


def k1_trigger(text):
    """finding C11-K1: the text has an unsuffixed integer literal with a leading zero whose octal and decimal
    readings differ (counted by the reference reader while it reads the text as the manual says)"""
    r = Reader(text)
    try:
        r.items(0, False)
    except NotGrammar:
        pass
    return r.k1_words > 0


# cells in the notation of the harness -------------------------------------------------------
def cell_str(c):
    k = c[0]
    if k in "ich":
        return "%s%d" % (k, c[1])
    if k == 'f':
        return "f%08x" % c[1]
    if k == 'd':
        return "d%016x" % c[1]
    if k == 't':
        return "t%016x" % c[1]
    if k == 'r':
        return "r%08x" % (c[1] & 0xffffffff)
    if k == 'm':
        return "m%02x%02x%02x%02x" % c[1:]
    if k in "sS":
        return "%s:%s" % (k, c[1].hex() if c[1] else "-")
    if k == 'b':
        return "b:%s" % (c[1].hex() if c[1] else "-")
    if k == 'T':
        return "T1"               # type 'T' carries val.T == 1, 'F' carries 0 (rtosc.h: "F=>0, T=>1")
    if k == 'F':
        return "F0"
    return k


def flat(items):
    out = []
    for x in items:
        out += flat_item(x)
    return out


def flat_item(x):
    if x[0] == 'v':
        return [cell_str(x[1])]
    if x[0] == 'arr':
        inner = flat(x[1])
        ety = ord(item_type(x[1][-1])) if x[1] else 32
        return ["a%d:%d" % (ety, len(inner))] + inner
    if x[0] == 'rep':
        return ["R%d:0" % x[1]] + flat_item(x[2])
    return ["R%d:1" % x[1], cell_str(x[2]), cell_str(x[3])]


def has_float_range(items):
    for x in items:
        if x[0] == 'range' and x[3][0] in "fd":
            return True
        if x[0] == 'arr' and has_float_range(x[1]):
            return True
        if x[0] == 'rep' and x[2][0] == 'arr' and has_float_range(x[2][1]):
            return True
    return False


# ------------------------------------------------------------------------------------
# decoding the harness output, expansion of scanned cells
# ------------------------------------------------------------------------------------
def parse_cells(toks):
    """cell tokens -> items (same shape as the reference's); None if the layout is broken"""
    def one_item(i):
        t = toks[i]
        if t[0] == 'a' and ':' in t:
            ln = int(t.split(':')[1])
            inner = toks[i + 1:i + 1 + ln]
            if len(inner) != ln:
                raise ValueError
            its = seq(inner)
            return ('arr', its, int(t[1:].split(':')[0])), i + 1 + ln
        if t[0] == 'R':
            n, hd = t[1:].split(':')
            n = int(n)
            if hd != '0':
                return ('range', n, tok_cell(toks[i + 1]), tok_cell(toks[i + 2])), i + 3
            it, j = one_item(i + 1)
            return ('rep', n, it), j
        return ('v', tok_cell(t)), i + 1

    def seq(ts):
        nonlocal toks
        save = toks
        toks = ts
        out = []
        i = 0
        while i < len(ts):
            it, i = one_item(i)
            out.append(it)
        toks = save
        return out
    try:
        return seq(toks)
    except (ValueError, IndexError, KeyError):
        return None


def tok_cell(t):
    k = t[0]
    if k in "ich":
        return (k, int(t[1:]))
    if k in "fdt":
        return (k, int(t[1:], 16))
    if k == 'r':
        return ('r', _wrap(int(t[1:], 16), 32))
    if k == 'm':
        v = int(t[1:], 16)
        return ('m', v >> 24, (v >> 16) & 255, (v >> 8) & 255, v & 255)
    if k in "sSb" and t[1:2] == ':':
        return (k, b"" if t[2:] == "-" else bytes.fromhex(t[2:]))
    if t in ("T1", "F0"):
        return (t[0],)
    if t in ("N", "I"):
        return (t,)
    raise ValueError(t)


def expand(items, limit=4096):
    """the values a list of items denotes: scalars as cells, arrays as ('arr', [...]), and a final
    ('endless', delta|None, start-item) marker for an open-ended range"""
    out = []
    for x in items:
        if x[0] == 'v':
            out.append(x[1])
        elif x[0] == 'arr':
            out.append(('arr', expand(x[1], limit)))
        elif x[0] == 'rep':
            e = expand([x[2]], limit)
            if x[1] == 0:
                out.append(('endless', None, e))
            else:
                if x[1] * len(e) > limit:
                    out.append(('many', x[1], e))
                else:
                    out += e * x[1]
        else:
            n, d, s = x[1], x[2], x[3]
            if n == 0:
                out.append(('endless', d, s))
            elif n > limit:
                out.append(('manyrange', n, d, s))
            else:
                for k in range(n):
                    try:
                        out.append(range_elem(d, s, k))
                    except NotGrammar:
                        out.append(('overflow',))
    return out


def values_equal(a, b, tol):
    """equality of two expanded value lists; float cells within `tol` when `tol` is set"""
    if len(a) != len(b):
        return False
    for x, y in zip(a, b):
        if x[0] != y[0]:
            return False
        if x[0] == 'arr':
            if not values_equal(x[1], y[1], tol):
                return False
        elif x[0] in "fd" and tol is not None:
            fx, fy = num(x), num(y)
            if fx is None or fy is None or abs(fx - fy) > tol:
                return False
        elif x[0] == 'many':
            if x[1] != y[1] or not values_equal(x[2], y[2], tol):
                return False
        elif x[0] == 'manyrange':
            if x[1] != y[1] or not values_equal([x[2], x[3]], [y[2], y[3]], tol):
                return False
        elif x[0] == 'endless':
            if (x[1] is None) != (y[1] is None):
                return False
            if x[1] is not None:
                if not values_equal([x[1], x[2]], [y[1], y[2]], tol):
                    return False
            elif not values_equal(x[2], y[2], tol):
                return False
        elif x != y:
            return False
    return True


RE_OUT = re.compile(r"^C (-?\d+)(?: W (\d+) R (\d+)/(\d+) V((?: \S+)*?)(?: P C2 (-?\d+)(?: W2 (\d+) R2 (ok|\d+/\d+) V2((?: \S+)*))?)?)?$")


def parse_out(out):
    """one `C … W … R … V …` group, possibly followed by the print/rescan part"""
    m = RE_OUT.match(out)
    if not m:
        return None
    g = m.groups()
    d = {"count": int(g[0])}
    if g[1] is not None:
        d.update(written=int(g[1]), rd=int(g[2]), len=int(g[3]), cells=g[4].split())
    if g[5] is not None:
        d.update(count2=int(g[5]))
    if g[6] is not None:
        rd2, len2 = (0, 0) if g[7] == "ok" else (int(x) for x in g[7].split("/"))
        d.update(written2=int(g[6]), rd2=rd2, len2=len2, cells2=g[8].split())
    return d


def op_texts(op):
    w = op.split()
    t = b"" if w[0] == "-" else bytes.fromhex(w[0])
    alt = None
    for x in w[1:]:
        if x.startswith("alt="):
            alt = b"" if x[4:] == "-" else bytes.fromhex(x[4:])
    return t, alt


def check_one(text, d, what, k1=False):
    """the property on one text: `d` = decoded output group; returns failure text or None"""
    ref = read_text(text, k1)
    if ref is None:
        return None                       # outside the grammar: nothing is demanded
    exp = flat(ref)
    if d["count"] != len(exp):
        return "%s: the checker counts %d values, the grammar's reading has %d cells (%s)" % (what, d["count"], len(exp), " ".join(exp)[:200])
    if d["written"] != d["count"]:
        return "%s: the checker counts %d, the scanner wrote %d cells" % (what, d["count"], d["written"])
    if d["rd"] != d["len"]:
        return "%s: the scanner consumed %d of %d bytes" % (what, d["rd"], d["len"])
    # exact, also for float ranges: the step b - a is one IEEE subtraction, the count is the nearest n
    # (texts whose n or tolerance test is too close to call are not sentences for the reference reader)
    if d["cells"] != exp:
        return "%s: scanned %s, the spelling denotes %s" % (what, " ".join(d["cells"])[:200], " ".join(exp)[:200])
    return None


def is_ns(op):
    return "ns" in op.split()[1:]


def oracle(op, impl_out, k1=False):
    """k1: evaluate under the reading of the known finding C11-K1 (an unsuffixed literal with a leading zero is
    decimal)"""
    if is_ns(op):
        return None                       # marked as lying outside the grammar: nothing is demanded
    text, alt = op_texts(op)
    ref = read_text(text, k1)
    if ref is None:
        return None
    if impl_out.startswith("crash:"):
        return "the implementation crashed on a sentence of the grammar: " + impl_out
    parts = impl_out.split(" | A ")
    d = parse_out(parts[0])
    if d is None:
        return "unreadable output: " + impl_out[:200]
    if "written" not in d:
        return "the checker rejects a sentence of the grammar (count %d)" % d["count"]
    f = check_one(text, d, "text", k1)
    if f:
        return f
    # print + scan again: equal values
    if "count2" not in d:
        return "no print/rescan part in the output"
    if "written2" not in d:
        return "the checker rejects the printed form of the scanned values (count %d)" % d["count2"]
    if d["written2"] != d["count2"] or d["rd2"] != d["len2"]:
        return "printed form: checker %d, scanner wrote %d, consumed %d of %d" % (d["count2"], d["written2"], d["rd2"], d["len2"])
    a, b = parse_cells(d["cells"]), parse_cells(d["cells2"])
    if a is None or b is None:
        return "scanned cells do not form a value list"
    tol = Fraction(1, 1000) if has_float_range(ref) else None
    if not values_equal(expand(a), expand(b), tol):
        return "scan(print(scan text)) differs from scan text: %s vs %s" % (" ".join(d["cells"])[:200], " ".join(d["cells2"])[:200])
    # a second rendering of the same choices scans to the same cells
    if alt is not None:
        if len(parts) < 2:
            return "no output for the second rendering"
        d2 = parse_out(parts[1])
        if d2 is None:
            return "second rendering: unreadable output (%s)" % parts[1][:100]
        if read_text(alt, k1) is None:
            return None
        if "written" not in d2:
            return "second rendering: the checker rejects it (%s)" % parts[1][:100]
        f = check_one(alt, d2, "second rendering", k1)
        if f:
            return f
        if d2["cells"] != d["cells"] and not has_float_range(ref):
            return "two renderings of the same choices scan differently: %s vs %s" % (" ".join(d["cells"])[:200], " ".join(d2["cells"])[:200])
    return None


def known(op, impl_out, model_out, defs):
    """C11-K1: an unsuffixed integer literal with a leading zero ("077") is read as decimal, although the manual
    (C99 rules) and the suffixed forms "077i" / "077h" read it as octal.
    An input is attributed to the finding only if (1) its trigger holds for the text (or its second rendering),
    (2) the implementation's output is what the defect-mirroring model predicts, and (3) every clause of the
    property holds for the output under the reading of the finding (the literal is decimal).
    (The former finding C11-K2, "42%c" rejected, is repaired by fixes/C11-08 and attributes nothing: a tree that
    rejects a numeric literal directly followed by a comment is a VIOLATION.)"""
    if is_ns(op):
        return None
    ids = set(e.get("id") for e in defs)
    text, alt = op_texts(op)
    texts = [text] + ([alt] if alt is not None else [])
    t1 = "C11-K1" in ids and any(k1_trigger(t) for t in texts)
    if not t1:
        return None
    # the readings to try: the one of the defect-mirroring model first; then the one in which the finding has been
    # repaired in this tree (the implementation's answer then satisfies every clause under the manual's reading of
    # that construct and only the model differs: no alarm)
    for k1 in (True, False):
        if oracle(op, impl_out, k1=k1) is not None:
            continue
        if k1 and model_out is not None and model_out != impl_out:
            continue
        return "C11-K1"
    return None


def nontrivial(op):
    if is_ns(op):
        return False
    text, _ = op_texts(op)
    ref = read_text(text)
    if ref is None:
        return False
    return len(ref) >= 2 or (len(ref) == 1 and ref[0][0] != 'v')


# ------------------------------------------------------------------------------------
# generator: (value, spelling) choices -> tokens -> rendering
# ------------------------------------------------------------------------------------
INT32_EDGE = [0, 1, -1, 2, 7, 8, 9, 10, 63, 64, 77, 99, 100, 127, 255, 256, 511, 512, 4095, 65535, 65536, -8, -64, -100,
              2 ** 31 - 1, -2 ** 31, 2 ** 31 - 2, -2 ** 31 + 1, 12345, -12345, 0xdeadbeef - 2 ** 32]
INT64_EDGE = INT32_EDGE + [2 ** 31, -2 ** 31 - 1, 2 ** 32, 0xffffffffff, 2 ** 63 - 1, -2 ** 63, 5000000000, -5000000000]


def g_int(rng, edges, bits):
    r = rng.random()
    if r < 0.3:
        return rng.choice(edges)
    if r < 0.75:
        v = rng.randint(0, 10 ** rng.randint(1, 4))
        return -v if rng.random() < 0.35 else v
    return rng.randint(-2 ** (bits - 1), 2 ** (bits - 1) - 1)


def sp_int(rng, v, suffix, stats):
    """spelling of the integer v: decimal, hex (sign + magnitude, or two's complement for int32), octal"""
    base = rng.choice("ddddddxxxxxxoo" if suffix else "ddddddddxxxxxxxo")   # unsuffixed octal is known finding C11-K1
    stats["int_" + base] = stats.get("int_" + base, 0) + 1
    mag = abs(v)
    sign = "-" if v < 0 else ""
    if base == "d":
        body = "%d" % mag
    elif base == "x":
        if v < 0 and suffix != "h" and rng.random() < 0.5:
            sign, mag = "", v + 2 ** 32
        body = "0x" + (("%X" if rng.random() < 0.3 else "%x") % mag)
        if rng.random() < 0.1:
            body = "0x" + "0" * rng.randint(1, 2) + body[2:]
        if rng.random() < 0.1:
            body = "0X" + body[2:]
    else:
        body = "0" + "%o" % mag
    return (sign + body + suffix).encode()


def g_float_lit(rng, dbl, stats, exact_ok=True):
    """a float literal (bytes); the value is whatever the reference reads from it"""
    form = rng.choice(["point", "point", "exp", "suffix", "hex", "exact", "exact"] if exact_ok else ["point", "exp", "suffix", "hex"])
    stats["float_" + form] = stats.get("float_" + form, 0) + 1
    neg = "-" if rng.random() < 0.25 else ""
    suf = "d" if dbl else ""

    def dec_digits(k):
        return "".join(rng.choice("0123456789") for _ in range(k))
    ip = rng.choice(["0", "1", "2", "10", "15", "100", dec_digits(rng.randint(1, 6))]).lstrip("0") or "0"
    if rng.random() < 0.1:
        ip = "0" * rng.randint(1, 2) + ip          # "00.5": leading zeros are fine in a float
    fp = rng.choice(["", "0", "5", "25", "125", "333", "000061", dec_digits(rng.randint(1, 9))])
    if form == "point":
        s = neg + ip + "." + fp + suf
    elif form == "exp":
        e = rng.choice(["e", "E"]) + rng.choice(["", "+", "-"]) + str(
            rng.randint(0, 12 if not dbl else 30) if rng.random() < 0.7 else rng.randint(0, 46 if not dbl else 325))
        s = neg + ip + (("." + fp) if rng.random() < 0.5 else "") + e + suf
    elif form == "suffix":
        s = neg + ip + rng.choice(["", "." + fp]) + ("d" if dbl else "f")
        if dbl and rng.random() < 0.3:
            s = neg + ip + "e" + str(rng.randint(0, 9)) + "d"
    elif form == "hex":
        s = neg + hex_float(rng) + suf
    else:
        approx = neg + ip + "." + (fp or "0") + suf
        s = approx + " (" + ("-" if neg else "") + hex_float(rng) + ")"
        return s.encode(), True
    return s.encode(), False


def hex_float(rng):
    ip = rng.choice(["0", "1", "f", "1f", "a"])
    fp = rng.choice(["", "", ".8", ".1", ".99999a", ".54fdf4", "." + "".join(rng.choice("0123456789abcdef") for _ in range(rng.randint(1, 6)))])
    ex = rng.choice(["+0", "-1", "+3", "-10", "-2", "+10", "-20", str(rng.randint(-30, 30)) if rng.random() < 0.5 else "+" + str(rng.randint(0, 30))])
    if not ex.startswith(("+", "-")):
        ex = "+" + ex
    return "0x" + ip + fp + "p" + ex


PRINTABLE = [c for c in range(32, 127)]
IDENT0 = "abcdefghijklmnopqrstuvwxyzABCDEFGHIJKLMNOPQRSTUVWXYZ_"
IDENT1 = IDENT0 + "0123456789"
WORDS = ["x", "e5", "p", "nan", "infinity", "truex", "no", "t", "f", "n", "i", "An_Identifier_with_a_Number_12345", "frequency_modulation",
         "MIDIx", "BLOBS", "h", "d", "x1", "_", "__a", "fals", "ni", "immediatel", "nowhere", "S"]


def g_ident(rng):
    if rng.random() < 0.5:
        w = rng.choice(WORDS)
    else:
        w = rng.choice(IDENT0) + "".join(rng.choice(IDENT1) for _ in range(rng.randint(0, 8)))
    if w.encode() in RESERVED:
        w += "_"
    return w.encode()


def g_symword(rng):
    """content of a quoted symbol that is shaped like a bare word: reserved words, identifiers, near misses"""
    r = rng.random()
    if r < 0.5:
        return rng.choice(sorted(RESERVED))
    if r < 0.8:
        return rng.choice(WORDS).encode()
    return rng.choice([b"True", b"NOW", b"nil ", b"1", b"1x", b"0x1", b"a-b", b"inf.", b"midi", b"Blob", b"x.y", b"_1", b"9a"])


def g_strbytes(rng):
    n = rng.choice([0, 1, 2, 3, 5, 8, 12, 20, 20, rng.randint(21, 70), rng.randint(70, 200)])
    out = bytearray()
    for _ in range(n):
        r = rng.random()
        if r < 0.12:
            out.append(rng.choice([7, 8, 9, 10, 11, 12, 13]))
        elif r < 0.3:
            out.append(rng.choice(b"\"\\'%[]().x#/ "))
        else:
            out.append(rng.choice(PRINTABLE))
    return bytes(out)


UNESC = {7: 'a', 8: 'b', 9: 't', 10: 'n', 11: 'v', 12: 'f', 13: 'r', 92: '\\'}


def sp_string(rng, s, sym, stats):
    """tokens of a (possibly concatenated) string: list of (bytes, boundary-kind-behind)"""
    nparts = 1 if len(s) < 2 or rng.random() < 0.6 else min(rng.choice([2, 2, 3, 3, 4, 6]), len(s) + 1)
    cuts = sorted(rng.sample(range(len(s) + 1), nparts - 1)) if nparts > 1 else []
    stats["str_parts_%d" % nparts] = stats.get("str_parts_%d" % nparts, 0) + 1
    parts = []
    lo = 0
    for hi in cuts + [len(s)]:
        body = bytearray(b'"')
        for c in s[lo:hi]:
            if c in UNESC:
                body += b"\\" + UNESC[c].encode()
            elif c == 34:
                body += b'\\"'
            else:
                body.append(c)
        body += b'"'
        parts.append(bytes(body))
        lo = hi
    toks = []
    for k, p in enumerate(parts):
        last = k == len(parts) - 1
        toks.append((p + (b"" if last else b"\\"), "end" if last else "cont"))
    if sym:
        toks[-1] = (toks[-1][0] + b"S", "end")
    return toks


def g_scalar(rng, stats, kinds=None):
    """one scalar value with a spelling: (type letter, list of (token bytes, boundary kind behind it))
    boundary kinds inside a value: 'cont' (string continuation: optional white space), 'paren' (white space
    required before '('), 'opt' (optional white space); the last token has kind 'end'"""
    k = rng.choice(kinds or "iiiihhfffddccsssSSSkktrmb")
    stats["kind_" + k] = stats.get("kind_" + k, 0) + 1
    if k == "i":
        v = g_int(rng, INT32_EDGE, 32)
        return "i", [(sp_int(rng, v, rng.choice(["", "", "i"]), stats), "end")]
    if k == "h":
        return "h", [(sp_int(rng, g_int(rng, INT64_EDGE, 64), "h", stats), "end")]
    if k in "fd":
        s, exact = g_float_lit(rng, k == "d", stats)
        if exact:
            a, b = s.split(b" (")
            return k, [(a, "paren"), (b"(", "opt"), (b[:-1], "opt"), (b")", "end")]
        return k, [(s, "end")]
    if k == "c":
        c = rng.choice([7, 8, 9, 10, 11, 12, 13, 92, 39, 0]) if rng.random() < 0.3 else rng.choice(PRINTABLE)
        if c in UNESC:
            return "c", [(b"'\\" + UNESC[c].encode() + b"'", "end")]
        if c == 39:
            return "c", [(b"'\\''", "end")]
        if c == 0:
            return "c", [(b"'\\0'", "end")]
        return "c", [(b"'" + bytes([c]) + b"'", "end")]
    if k == "s":
        return "s", sp_string(rng, g_strbytes(rng), False, stats)
    if k == "S":
        r = rng.random()
        if r < 0.45:
            return "S", [(g_ident(rng), "end")]
        if r < 0.7:
            # a quoted symbol whose content looks like a bare word: the printer must keep the quotes for the
            # reserved words and may drop them for identifiers
            stats["sym_quoted_word"] = stats.get("sym_quoted_word", 0) + 1
            return "S", sp_string(rng, g_symword(rng), True, stats)
        return "S", sp_string(rng, g_strbytes(rng), True, stats)
    if k == "k":
        w = rng.choice(["true", "false", "nil", "inf"])
        return {"true": "T", "false": "T", "nil": "N", "inf": "I"}[w], [(w.encode(), "end")]
    if k == "t":
        return "t", [(rng.choice([b"now", b"immediately"]), "end")]
    if k == "r":
        return "r", [(b"#" + (("%08X" if rng.random() < 0.3 else "%08x") % rng.getrandbits(32)).encode(), "end")]
    if k == "b":
        n = rng.choice([0, 1, 2, 3, 6, 7, 8, rng.randint(9, 40)])
        toks = [(b"BLOB", "opt"), (b"[", "opt"), (b"%d" % n, "sep" if n else "opt")]
        for j in range(n):
            toks.append(((b"0x%02x" if rng.random() < 0.7 else b"0x%X") % rng.getrandbits(8), "sep" if j + 1 < n else "opt"))
        toks.append((b"]", "end"))
        return "b", toks
    return "m", [(b"MIDI", "opt"), (b"[", "opt"), (b"0x%02x" % rng.getrandbits(8), "sep"), (b"0x%x" % rng.getrandbits(8), "sep"),
                 (b"0x%02x" % rng.getrandbits(8), "sep"), (b"0x%02X" % rng.getrandbits(8), "opt"), (b"]", "end")]


def g_num_of(rng, ty, stats, v=None):
    """a numeric scalar of type ty with the value v (ints) or a literal (floats, v = decimal string)"""
    if ty == "i":
        return [(sp_int(rng, v, rng.choice(["", "", "i"]), stats), "end")]
    if ty == "h":
        return [(sp_int(rng, v, "h", stats), "end")]
    if ty == "c":
        if v == 39:
            return [(b"'\\''", "end")]
        return [(b"'" + bytes([v]) + b"'", "end")]
    return [((v + ("d" if ty == "d" else "")).encode(), "end")]


def dec_str(x, places=4):
    """decimal spelling of a Fraction with a point (exact when it has few places)"""
    neg = x < 0
    x = abs(x)
    n = int(x * 10 ** places + Fraction(1, 2))
    s = "%d.%0*d" % (n // 10 ** places, places, n % 10 ** places)
    s = s.rstrip("0")
    if s.endswith("."):
        s += "0"
    return ("-" if neg else "") + s


def g_mult(rng):
    """the n of nxA"""
    r = rng.random()
    if r < 0.6:
        return rng.choice([1, 2, 3, 4, 5, 7, 10, 99, 1000, 2 ** 31 - 1])
    if r < 0.9:
        return rng.randint(1, 300)
    return rng.randint(1, 2 ** 31 - 1)


def g_run(rng, stats):
    """5..10 explicitly written values the printer may compress: an arithmetic progression of c / i / h values
    (steps incl. 0 and negative ones, spans beyond the width of the type), or one scalar written n times;
    optionally preceded by one more value of the type.  Returns a list of items (token lists)."""
    n = rng.randint(5, 10)
    r = rng.random()
    items = []
    if r < 0.7:
        ty = rng.choice("iiihhc")
        stats["run_" + ty] = stats.get("run_" + ty, 0) + 1
        if ty == "c":
            d = rng.choice([0, 1, 1, -1, 2, -2, 3])
            lo, hi = 40, 126
            b = rng.randint(lo, hi)
            vals = [b + k * d for k in range(n)]
            if not all(lo <= v <= hi and v != 92 for v in vals):
                d = 1
                vals = [97 + k for k in range(n)]
            if rng.random() < 0.4:
                vals = [rng.choice([vals[0], vals[0] - d if lo <= vals[0] - d <= hi and vals[0] - d != 92 else 65, 65])] + vals
        else:
            lim = 2 ** 31 if ty == "i" else 2 ** 63
            q = rng.random()
            if q < 0.3:
                # first-to-last distance beyond the width of the type
                stats["run_wide"] = stats.get("run_wide", 0) + 1
                d = (2 * lim - 1 - rng.randint(2000, 6000)) // (n - 1) - rng.randint(0, 1000)
                b = -lim + rng.randint(0, 1000)
                if rng.random() < 0.5:
                    b, d = b + (n - 1) * d, -d
            elif q < 0.45:
                # at the edge of the type
                d = rng.choice([1, -1, 2, -3, 1000, -(2 ** 20)])
                b = (lim - 1 - (n - 1) * d) if d > 0 else (-lim - (n - 1) * d)
            else:
                d = rng.choice([0, 1, 1, -1, -1, 2, -2, 3, -5, 7, 10, 100, -1000, rng.randint(-10 ** 6, 10 ** 6),
                                rng.randint(-lim // 8, lim // 8)])
                b = rng.randint(-1000, 1000) if rng.random() < 0.7 else rng.randint(-lim // 4, lim // 4)
            vals = [b + k * d for k in range(n)]
            if not all(-lim <= v < lim for v in vals):
                d = d // 16
                b = b // 2
                vals = [b + k * d for k in range(n)]
            assert all(-lim <= v < lim for v in vals)
            if rng.random() < 0.4:
                # one more value of the type in front: equal to the first one, one step before it, or unrelated
                p = rng.choice([vals[0], vals[0] - d, rng.randint(-50, 50)])
                if -lim <= p < lim:
                    vals = [p] + vals
            if rng.random() < 0.25:
                # the run goes on with another step
                d2 = rng.choice([1, -1, 2, d + 1])
                more = [vals[-1] + (k + 1) * d2 for k in range(rng.randint(1, 6))]
                if all(-lim <= v < lim for v in more):
                    vals += more
        for v in vals:
            items.append(g_num_of(rng, ty, stats, v))
    else:
        kind = rng.choice("ifdcsSktrmbh")
        stats["run_const_" + kind] = stats.get("run_const_" + kind, 0) + 1
        _, t = g_scalar(rng, stats, kind)
        for k in range(n):
            if kind == "k" and rng.random() < 0.3:
                _, t = g_scalar(rng, stats, kind)      # true / false mixed
            items.append(list(t))
    stats["run"] = stats.get("run", 0) + 1
    return items


def g_range(rng, stats, open_end):
    """tokens of `[a] b ... [c]`: list of elements, each a token list; returns (type, [a-elem?], b-elem, c-elem|None)"""
    ty = rng.choice("iiichffd")
    stats["range_" + ty] = stats.get("range_" + ty, 0) + 1
    with_a = rng.random() < 0.6
    n = rng.randint(1, 8)
    if ty in "ih":
        lim = 2 ** 31 if ty == "i" else 2 ** 63
        d = rng.choice([1, -1, 2, -2, 3, 5, 10, -7, 100, rng.randint(-1000, 1000) or 1]) if with_a else rng.choice([1, -1])
        if rng.random() < 0.08:
            b = rng.choice([lim - 1 - abs(d) * n, -lim + abs(d) * n]) if d * 1 else 0
            if (b + d * n) >= lim or (b + d * n) < -lim or (b - d) >= lim or (b - d) < -lim:
                b = 0
        else:
            b = rng.randint(-1000, 1000)
        a = b - d
        c = b + n * d
        g_range.last_end = c
        return ty, ([g_num_of(rng, ty, stats, a)] if with_a else []), g_num_of(rng, ty, stats, b), (None if open_end else g_num_of(rng, ty, stats, c))
    if ty == "c":
        d = rng.choice([1, -1, 2, 3]) if with_a else rng.choice([1, -1])
        b = rng.randint(48, 100)
        a, c = b - d, b + n * d
        if not (32 <= a <= 126 and 32 <= c <= 126) or 39 in (a, b, c) or 92 in (a, b, c):
            a, b, c, d = 97, 98, 98 + n, 1
        return ty, ([g_num_of(rng, ty, stats, a)] if with_a else []), g_num_of(rng, ty, stats, b), (None if open_end else g_num_of(rng, ty, stats, c))
    # floats: steps with few decimal places, the end off by less than the tolerance
    d = Fraction(rng.choice([1, -1])) if not with_a else Fraction(rng.choice([1, 2, 5, 25, 125, 333, 1000, 1500, -500, -100, 3330, 10]), 1000)
    b = Fraction(rng.randint(-5000, 5000), 1000)
    a = b - d
    c = b + n * d + (Fraction(rng.randint(-8, 8), 10000) if rng.random() < 0.5 else 0)
    return ty, ([g_num_of(rng, ty, stats, dec_str(a))] if with_a else []), g_num_of(rng, ty, stats, dec_str(b)), \
        (None if open_end else g_num_of(rng, ty, stats, dec_str(c)))


def g_array(rng, stats, depth):
    """tokens of an array; elements of one type"""
    stats["array"] = stats.get("array", 0) + 1
    toks = [(b"[", "opt")]
    n = rng.choice([0, 1, 2, 2, 3, 4, 6])
    r = rng.random()
    elems = []          # each: list of tokens
    if r < 0.3 and n:
        # numeric content with a range / open-ended range
        open_end = rng.random() < 0.6
        ty, pre, b, c = g_range(rng, stats, open_end)
        lead = rng.randint(0, 2)
        for _ in range(lead):
            if ty in "ihc":
                elems.append(g_num_of(rng, ty, stats, rng.randint(40, 90)))
            else:
                elems.append(g_num_of(rng, ty, stats, dec_str(Fraction(rng.randint(-99, 99), 10))))
        elems += pre
        rng_toks = b[:-1] + [(b[-1][0], "dots")] + [(b"...", "opt")]
        if c is not None:
            rng_toks += c
            stats["array_range"] = stats.get("array_range", 0) + 1
        else:
            rng_toks[-1] = (b"...", "end")
            stats["array_open_range"] = stats.get("array_open_range", 0) + 1
        elems.append(rng_toks)
        if c is not None and ty in "ih" and rng.random() < 0.5:
            # more behind the range: optionally a scalar, then a second range whose step comes from its left
            # neighbour (the scalar, or the last value of the first range)
            last = g_range.last_end
            if rng.random() < 0.4:
                last = rng.randint(40, 90)
                elems.append(g_num_of(rng, ty, stats, last))
            if rng.random() < 0.7:
                stats["array_two_ranges"] = stats.get("array_two_ranges", 0) + 1
                d2 = rng.choice([1, -1, 2, 3, -5])
                n2 = rng.randint(1, 5)
                b2 = last + d2
                t_b2 = g_num_of(rng, ty, stats, b2)
                elems.append(t_b2[:-1] + [(t_b2[-1][0], "dots"), (b"...", "opt")] + g_num_of(rng, ty, stats, b2 + n2 * d2))
        elif c is not None and ty in "ihc" and rng.random() < 0.4:
            elems.append(g_num_of(rng, ty, stats, rng.randint(40, 90)))
    elif r < 0.36 and n:
        # explicitly written runs (the printer compresses them inside the array)
        elems = g_run(rng, stats)
        stats["array_run"] = stats.get("array_run", 0) + 1
    elif r < 0.46 and depth < 3 and n and (depth < 1 or rng.random() < 0.5):
        if depth >= 1:
            stats["array_depth_%d" % (depth + 1)] = stats.get("array_depth_%d" % (depth + 1), 0) + 1
        for _ in range(min(n, 3 if depth < 1 else 2)):
            elems.append(g_array(rng, stats, depth + 1))
        if rng.random() < 0.2:
            elems[-1] = elems[-1][:-1] + [(b"]", "dots"), (b"...", "end")]
            stats["array_open_range"] = stats.get("array_open_range", 0) + 1
    else:
        kind = rng.choice("iihfdcsSSktrmb")
        for j in range(n):
            _, t = g_scalar(rng, stats, kind)
            if rng.random() < 0.15:
                t = [(b"%dx" % g_mult(rng), "glue")] + t
                stats["array_rep"] = stats.get("array_rep", 0) + 1
            elems.append(t)
        if n and kind in "sSktrmib" and rng.random() < 0.25 and elems[-1][0][1] != "glue":
            # open-ended range of any element type (delta-less unless numeric with a differing neighbour)
            elems[-1] = elems[-1][:-1] + [(elems[-1][-1][0], "dots"), (b"...", "end")]
            stats["array_open_range"] = stats.get("array_open_range", 0) + 1
    for k, e in enumerate(elems):
        toks += e[:-1]
        toks.append((e[-1][0], "asep" if k + 1 < len(elems) else "opt"))
    if not elems:
        pass
    toks.append((b"]", "end"))
    return toks


def g_sentence(rng, stats):
    """top-level items: list of token lists (last token kind 'end'); about <= 10 values"""
    n = rng.choice([0, 1, 1, 2, 2, 3, 3, 4, 5, 6, 8, 10])
    items = []
    while len(items) < n:
        r = rng.random()
        if r < 0.08:
            items += g_run(rng, stats)
        elif r < 0.62:
            _, t = g_scalar(rng, stats)
            items.append(t)
        elif r < 0.72:
            # NxA
            stats["rep"] = stats.get("rep", 0) + 1
            mult = b"%dx" % g_mult(rng)
            if rng.random() < 0.3:
                t = g_array(rng, stats, 1)
            else:
                _, t = g_scalar(rng, stats)
            items.append([(mult, "glue")] + t)
        elif r < 0.86:
            ty, pre, b, c = g_range(rng, stats, False)
            stats["range"] = stats.get("range", 0) + 1
            items += pre
            items.append(b[:-1] + [(b[-1][0], "dots"), (b"...", "opt")] + c)
        else:
            items.append(g_array(rng, stats, 0))
    return items


WSCH = [b" ", b" ", b" ", b"\t", b"\n", b"\n", b"\r", b"\v", b"\f"]
COMMENTS = [b"%", b"% comment", b"%% 100 %", b"% [1 2 ... ]", b"% \"quoted\" 'c' \\", b"%x", b"% 3x5 ... (", b"%\t tab", b"% /addr 1 2"]


def g_ins(rng, comments, stats):
    """0..3 insertions: white-space characters, and (where allowed) '%' comments ending at the line end"""
    out = b""
    k = rng.choice([0, 0, 0, 0, 1, 1, 2, 3])
    for _ in range(k):
        if comments and rng.random() < 0.3:
            stats["ins_comment"] = stats.get("ins_comment", 0) + 1
            out += rng.choice(COMMENTS) + b"\n"
        else:
            stats["ins_ws"] = stats.get("ins_ws", 0) + 1
            out += rng.choice(WSCH)
    return out


def sep_ins(rng, stats, canonical=False, adjacent=1.0):
    """the text between two top-level values; `adjacent` scales the probability of a comment directly behind the
    value (also behind a numeric literal, "42%c": former finding C11-K2, fix C11-08)"""
    if canonical:
        return b" "
    g = g_ins(rng, True, stats)
    if g[:1] == b"%" and rng.random() < 0.4 * adjacent:
        stats["comment_adjacent"] = stats.get("comment_adjacent", 0) + 1
        return g
    if rng.random() < 0.12 * adjacent:
        # a comment right behind the value, whatever else follows
        stats["comment_adjacent"] = stats.get("comment_adjacent", 0) + 1
        return rng.choice(COMMENTS) + b"\n" + g
    return rng.choice(WSCH[:6]) + g


def render(rng, items, stats, canonical=False):
    """the text of the items with insertions at every token boundary"""
    def ins(comments):
        return b"" if canonical else g_ins(rng, comments, stats)
    out = ins(True)
    for k, toks in enumerate(items):
        for j, (t, kind) in enumerate(toks):
            out += t
            if kind == "glue":
                pass
            elif kind in ("opt", "cont"):
                out += ins(False)
            elif kind == "dots":
                # white space before "..." is optional unless the token ends in '.'
                out += (b" " if t.endswith(b".") or canonical else b"") + ins(False)
            elif kind in ("paren", "sep", "asep"):
                out += rng.choice(WSCH[:6]) if not canonical else b" "
                out += ins(False)
            elif kind == "end":
                pass
        last = k == len(items) - 1
        if not last:
            # between two values: insertions (comments allowed).  A comment may follow the value directly
            # ("true%c\nfalse"); otherwise at least one white-space character comes first
            out += sep_ins(rng, stats, canonical)
        else:
            tail = ins(True)
            if tail[:1] == b"%" and rng.random() < 0.6:
                tail = b" " + tail
            elif tail[:1] == b"%":
                stats["comment_adjacent"] = stats.get("comment_adjacent", 0) + 1
            if tail.endswith(b"\n") and rng.random() < 0.3 and b"%" in tail:
                tail = tail[:-1]          # a comment at the very end need not be terminated
            out += tail
    return out


def hx(b):
    return b.hex() if b else "-"


# ------------------------------------------------------------------------------------
# second stream: sentences of the Lean specification (Pretty/C11Spec.lean), sent along with the text.
# The driver decodes the sentence, computes what it denotes (`cells`) and compares it with what the model
# scans from the text and from the specification's own rendering; a disagreement is appended to the model's
# output line (` SPEC-MISMATCH …`), so it shows up as a correspondence difference.  The harness ignores `sent=`.
# Encoding (no blanks):  items ','-separated;  V<tok>  R<n>(<item>)  G<tok>~<tok>  A<open01>(<items>)
#   tok:  i<base><sfx01>:<int>  h<base>:<int>  f<dbl01><sfx01>:<lit>[!<hexlit>]  c<esc01>:<byte>  s<sym01>:<parts>
#         n:<hex>  k:<T|F|N|I|n|m>  r<upper01>:<value>  m<pad01>:<a>.<b>.<c>.<d>  b:<hex|->
#   base: d x X o c;   lit: D<neg01>.<ip>.<fp|->.<exp|->.<plus01><upper01>  |  H<neg01>.<iphex>.<fphex|->.<exp>
#   parts: '|'-separated, each a sequence of r<hh> / e<hh> ('-' = empty part)
# ------------------------------------------------------------------------------------
def sp_tok_int(rng, ty):
    lim = 31 if ty == 'i' else 63
    v = g_int(rng, INT32_EDGE if ty == 'i' else INT64_EDGE, lim + 1)
    base = rng.choice("ddddxxXoc" if ty == 'i' else "ddddxxXo")
    sfx = 1 if ty == 'h' else rng.choice([0, 0, 1])
    if base == 'c':
        sfx = 0 if rng.random() < 0.7 else sfx
    mag = abs(v)
    body = {'d': "%d" % mag, 'x': "0x%x" % mag, 'X': "0x%X" % mag, 'o': "0%o" % mag, 'c': "0x%x" % (v % 2 ** 32)}[base]
    text = ("" if v >= 0 or base == 'c' else "-") + body + ({'i': "i", 'h': "h"}[ty] if sfx else "")
    if ty == 'i':
        return "i%s%d:%d" % (base, sfx, v), text.encode()
    return "h%s:%d" % (base, v), text.encode()


def sp_digits(rng, lo, hi, hexa=False):
    return "".join(rng.choice("0123456789abcdef" if hexa else "0123456789") for _ in range(rng.randint(lo, hi)))


def sp_hexlit(rng, neg):
    ip = rng.choice(["0", "1", "f", "1f", "a"])
    fp = rng.choice([None, None, "8", "1", "99999a", "54fdf4", sp_digits(rng, 1, 6, True)])
    ex = rng.choice([0, -1, 3, -10, -2, 10, -20, rng.randint(-30, 30)])
    enc = "H%d.%s.%s.%d" % (neg, ip, fp if fp is not None else "-", ex)
    text = ("-" if neg else "") + "0x" + ip + ("." + fp if fp is not None else "") + "p" + ("-%d" % -ex if ex < 0 else "+%d" % ex)
    return enc, text


def sp_tok_float(rng, dbl, simple=False):
    neg = 1 if rng.random() < 0.25 else 0
    if simple or rng.random() < 0.75:
        ip = rng.choice(["0", "1", "2", "10", "15", "100", sp_digits(rng, 1, 6)])
        fp = rng.choice([None, "", "0", "5", "25", "125", "333", "000061", sp_digits(rng, 1, 9)])
        ex = None if simple or rng.random() < 0.6 else rng.randint(-12, 12)
        plus = 1 if rng.random() < 0.3 else 0
        upper = 1 if rng.random() < 0.3 else 0
        if simple and fp is None:
            fp = "0"
        enc = "D%d.%s.%s.%s.%d%d" % (neg, ip, fp if fp not in (None, "") else ("-" if fp is None else "+"),
                                      ex if ex is not None else "-", plus, upper)
        text = ("-" if neg else "") + ip + ("." + fp if fp is not None else "")
        if ex is not None:
            text += ("E" if upper else "e") + ("-%d" % -ex if ex < 0 else ("+" if plus else "") + "%d" % ex)
        floatish = fp is not None or ex is not None
    else:
        enc, text = sp_hexlit(rng, neg)
        floatish = True
    sfx = 1 if dbl or not floatish or rng.random() < 0.2 else 0
    if sfx:
        text += "d" if dbl else "f"
    return "f%d%d:%s" % (1 if dbl else 0, sfx, enc), text.encode(), neg


def sp_tok(rng, kind, bl):
    """(encoding, text) of one scalar; `bl()` yields the blank for the next place inside it"""
    if kind in "ih":
        return sp_tok_int(rng, kind)
    if kind in "fd":
        enc, text, neg = sp_tok_float(rng, kind == "d")
        if rng.random() < 0.3:
            e2, t2 = sp_hexlit(rng, neg)
            b0 = bl() or b" "
            return enc + "!" + e2, text + b0 + b"(" + bl() + t2.encode() + bl() + b")"
        return enc, text
    if kind == "c":
        c = rng.choice([7, 8, 9, 10, 11, 12, 13, 92, 39, 0]) if rng.random() < 0.3 else rng.choice([x for x in PRINTABLE if x not in (39, 92)])
        if c in UNESC or c in (39, 0):
            e = UNESC.get(c) or {39: "'", 0: "0"}[c]
            return "c1:%d" % c, b"'\\" + e.encode() + b"'"
        return "c0:%d" % c, b"'" + bytes([c]) + b"'"
    if kind in "sS":
        data = g_symword(rng) if kind == "S" and rng.random() < 0.35 else g_strbytes(rng)
        nparts = 1 if rng.random() < 0.6 else rng.choice([2, 2, 3, 3, 4, 6])
        cuts = sorted(rng.randint(0, len(data)) for _ in range(nparts - 1))
        parts, lo = [], 0
        for hi in cuts + [len(data)]:
            parts.append(data[lo:hi])
            lo = hi
        encs, text = [], b""
        for k, part in enumerate(parts):
            e, t = "", b'"'
            for c in part:
                if c in UNESC or c == 34:
                    e += "e%02x" % c
                    t += b"\\" + (UNESC[c].encode() if c in UNESC else b'"')
                else:
                    e += "r%02x" % c
                    t += bytes([c])
            encs.append(e or "-")
            text += t + b'"'
            if k + 1 < len(parts):
                text += b"\\" + bl()
        if kind == "S":
            text += b"S"
        return "s%d:%s" % (1 if kind == "S" else 0, "|".join(encs)), text
    if kind == "n":
        w = g_ident(rng)
        return "n:" + w.hex(), w
    if kind == "k":
        k = rng.choice("TFNInm")
        return "k:" + k, {"T": b"true", "F": b"false", "N": b"nil", "I": b"inf", "n": b"now", "m": b"immediately"}[k]
    if kind == "r":
        v = rng.getrandbits(32)
        up = 1 if rng.random() < 0.3 else 0
        return "r%d:%d" % (up, v), b"#" + (("%08X" if up else "%08x") % v).encode()
    if kind == "m":
        by = [rng.getrandbits(8) for _ in range(4)]
        pad = 1 if rng.random() < 0.6 else 0
        f = "0x%02x" if pad else "0x%x"
        text = b"MIDI" + bl() + b"[" + bl()
        for k, x in enumerate(by):
            text += (f % x).encode() + ((bl() or b" ") if k < 3 else bl())
        return "m%d:%d.%d.%d.%d" % tuple([pad] + by), text + b"]"
    data = bytes(rng.getrandbits(8) for _ in range(rng.choice([0, 1, 2, 3, 6])))
    text = b"BLOB" + bl() + b"[" + bl() + b"%d" % len(data)
    tail = bl()
    for x in data:
        text += (bl() or b" ") + b"0x%02x" % x
    return "b:" + (data.hex() or "-"), text + tail + b"]"


def sp_blank(rng):
    return b"".join(rng.choice(WSCH) for _ in range(rng.choice([0, 0, 0, 1, 1, 2])))


def sp_range(rng, stats):
    """[optional a], b ... c as (enc, text) items; integer and float types"""
    ty = rng.choice("iiihcffd")
    stats["spec_range_" + ty] = stats.get("spec_range_" + ty, 0) + 1
    with_a = rng.random() < 0.6
    n = rng.randint(1, 6)
    out = []

    def num_tok(v):
        if ty in "ih":
            mag = abs(v)
            base = rng.choice("dddx")
            body = "%d" % mag if base == 'd' else "0x%x" % mag
            sfx = 1 if ty == 'h' else rng.choice([0, 0, 1])
            text = ("-" if v < 0 else "") + body + (ty if sfx else "")
            return ("i%s%d:%d" % (base, sfx, v) if ty == 'i' else "h%s:%d" % (base, v)), text.encode()
        if ty == "c":
            if v in UNESC:
                return "c1:%d" % v, b"'\\" + UNESC[v].encode() + b"'"
            return "c0:%d" % v, b"'" + bytes([v]) + b"'"
        # floats: v is a multiple of 1/1000
        neg = 1 if v < 0 else 0
        ip, fp = divmod(abs(v), 1000)
        fps = ("%03d" % fp).rstrip("0") or "0"
        sfx = 1 if ty == 'd' else 0
        return "f%d%d:D%d.%d.%s.-.00" % (1 if ty == 'd' else 0, sfx, neg, ip, fps), (("-" if neg else "") + "%d.%s" % (ip, fps) + ("d" if sfx else "")).encode()
    if ty in "ih":
        d = rng.choice([1, -1, 2, -2, 3, 5, 10, -7, 100]) if with_a else rng.choice([1, -1])
        b = rng.randint(-1000, 1000)
    elif ty == "c":
        d = rng.choice([1, -1, 2, 3]) if with_a else rng.choice([1, -1])
        b = rng.randint(60, 90)
        if 92 in (b - d, b, b + n * d):
            b += 8
        if rng.random() < 0.1:
            # the escapes \a … \r
            d, n, b = 1, rng.randint(1, 5), 8
            with_a = rng.random() < 0.5
    else:
        d = rng.choice([1000, -1000]) if not with_a else rng.choice([1, 2, 5, 25, 125, 333, 1000, 1500, -500, -100, 3330, 10])
        b = rng.randint(-5000, 5000)
    c = b + n * d
    sp_range.last = (ty, c, num_tok)
    if with_a:
        out.append(("V" + num_tok(b - d)[0], num_tok(b - d)[1]))
    eb, tb = num_tok(b)
    ec, tc = num_tok(c)
    mid = (b" " if tb.endswith(b".") else b"") + sp_blank(rng) + b"..." + sp_blank(rng)
    out.append(("G" + eb + "~" + ec, tb + mid + tc))
    return out


def sp_array(rng, stats, depth):
    stats["spec_array"] = stats.get("spec_array", 0) + 1
    n = rng.choice([0, 1, 2, 2, 3, 4])
    elems = []
    r = rng.random()
    opn = 0
    if r < 0.3 and n:
        for _ in range(rng.randint(0, 1)):
            pass
        rg = sp_range(rng, stats)
        elems = rg
        ty0, end0, num_tok0 = sp_range.last
        if ty0 in "ihc" and rng.random() < 0.35:
            # more behind the range: a second range; its step comes from the last value of the first one
            d2 = rng.choice([1, -1, 2, 3]) if ty0 == "c" else rng.choice([1, -1, 2, 3, -5])
            n2 = rng.randint(1, 4)
            b2, c2 = end0 + d2, end0 + d2 + n2 * d2
            if ty0 != "c" or all(33 <= x <= 126 and x not in (39, 92) for x in (b2, c2)):
                eb, tb = num_tok0(b2)
                ec, tc = num_tok0(c2)
                if rng.random() < 0.3:
                    elems = rg + [("V" + eb, tb)]        # … b2 ...]  counts on with the step b2 - end
                    opn = 1
                else:
                    elems = rg + [("G" + eb + "~" + ec, tb + sp_blank(rng) + b"..." + sp_blank(rng) + tc)]
                stats["spec_array_two_ranges"] = stats.get("spec_array_two_ranges", 0) + 1
        elif rng.random() < 0.5:
            # open end: b ... ]   (drop c)
            enc, text = rg[-1]
            eb = enc[1:].split("~")[0]
            tb = text.split(b"...")[0].rstrip(WS)
            elems = rg[:-1] + [("V" + eb, tb)]
            opn = 1
    elif r < 0.4 and depth < 1 and n:
        elems = [sp_array(rng, stats, depth + 1) for _ in range(min(n, 3))]
        opn = 1 if rng.random() < 0.2 else 0
    else:
        kind = rng.choice("iihfdcsSnktrmb")
        for _ in range(n):
            e, t = sp_tok(rng, kind, lambda: sp_blank(rng))
            if rng.random() < 0.15:
                m = rng.choice([1, 2, 3, 5, 10, 1000])
                elems.append(("R%d(V%s)" % (m, e), b"%dx" % m + t))
            else:
                elems.append(("V" + e, t))
        if n and kind in "sSnktrmbi" and rng.random() < 0.25 and elems[-1][0][0] == "V":
            opn = 1
    text = b"[" + sp_blank(rng)
    for k, (e, t) in enumerate(elems):
        text += t
        if k + 1 < len(elems):
            text += sp_blank(rng) or b" "
    if opn:
        text += (b" " if text.endswith(b".") else b"") + sp_blank(rng) + b"..."
    text += sp_blank(rng) + b"]"
    return "A%d(%s)" % (opn, ",".join(e for e, _ in elems)), text


def g_spec_case(rng, stats):
    """one sentence of the specification: (encoding, text)"""
    n = rng.choice([0, 1, 1, 2, 2, 3, 3, 4, 5, 6, 8])
    items = []
    while len(items) < n:
        r = rng.random()
        if r < 0.6:
            kind = rng.choice("iiiihhfffddccsssSSnnkkrmb")
            e, t = sp_tok(rng, kind, lambda: sp_blank(rng))
            items.append(("V" + e, t))
        elif r < 0.7:
            m = rng.choice([1, 2, 3, 4, 5, 7, 10, 99, 1000, 2 ** 31 - 1])
            if rng.random() < 0.3:
                e, t = sp_array(rng, stats, 1)
                items.append(("R%d(%s)" % (m, e), b"%dx" % m + t))
            else:
                e, t = sp_tok(rng, rng.choice("ihfdcsSnkrmb"), lambda: sp_blank(rng))
                items.append(("R%d(V%s)" % (m, e), b"%dx" % m + t))
        elif r < 0.85:
            items += sp_range(rng, stats)
            ty0, end0, num_tok0 = sp_range.last
            if ty0 in "ihc" and rng.random() < 0.3:
                # a second range right behind: its step comes from the last value of the first one
                d2 = rng.choice([1, -1, 2, 3]) if ty0 == "c" else rng.choice([1, -1, 2, 3, -5])
                n2 = rng.randint(1, 4)
                b2, c2 = end0 + d2, end0 + d2 + n2 * d2
                if ty0 != "c" or all(33 <= x <= 126 and x not in (39, 92) for x in (b2, c2)):
                    eb, tb = num_tok0(b2)
                    ec, tc = num_tok0(c2)
                    items.append(("G" + eb + "~" + ec, tb + sp_blank(rng) + b"..." + sp_blank(rng) + tc))
                    stats["spec_two_ranges"] = stats.get("spec_two_ranges", 0) + 1
        elif r < 0.9:
            # nxa b ... c : the repeated value is the left neighbour
            a = rng.randint(-500, 500)
            d2 = rng.choice([1, -1, 2, 3, -5, 10])
            n2 = rng.randint(1, 4)
            m = rng.choice([1, 2, 3, 10])
            sfx = rng.choice([0, 1])
            def itok(v):
                return "id%d:%d" % (sfx, v), (b"%d" % v) + (b"i" if sfx else b"")
            ea, ta = itok(a)
            eb, tb = itok(a + d2)
            ec, tc = itok(a + d2 + n2 * d2)
            items.append(("R%d(V%s)" % (m, ea), b"%dx" % m + ta))
            items.append(("G" + eb + "~" + ec, tb + sp_blank(rng) + b"..." + sp_blank(rng) + tc))
            stats["spec_rep_range"] = stats.get("spec_rep_range", 0) + 1
        else:
            items.append(sp_array(rng, stats, 0))
    text = g_ins(rng, True, stats)
    for k, (e, t) in enumerate(items):
        text += t
        # (comments directly behind a value, numeric literals included: fix C11-08; the driver itself also renders
        #  every sentence with comments directly behind all the values)
        if k + 1 < len(items):
            text += sep_ins(rng, stats, False)
    tail = g_ins(rng, True, stats)
    if tail[:1] == b"%" and rng.random() < 0.6:
        tail = b" " + tail
    return ",".join(e for e, _ in items) or "-", text + tail


def generate(rng, tier, stats):
    n = 6000 if tier == "quick" else 120000
    stats["generated"] = n
    for _ in range(n):
        items = g_sentence(rng, stats)
        text = render(rng, items, stats)
        if b"\0" in text:
            continue
        # the property quantifies over sentences: a text the reference reader does not accept (two constructs
        # that happen to combine into something the manual forbids or leaves open, e.g. a scalar in front of a
        # range that makes its step point away from the end) is not run; rejected / near-valid texts on which
        # the model is defined are in corpus/C11.ops
        ref = read_text(text)
        if ref is None:
            stats["not_a_sentence"] = stats.get("not_a_sentence", 0) + 1
            continue
        stats["sentences"] = stats.get("sentences", 0) + 1
        nv = len(flat(ref))
        stats["cells_%02d" % min(nv, 20)] = stats.get("cells_%02d" % min(nv, 20), 0) + 1
        if k1_trigger(text):
            stats["k1_octal_plain"] = stats.get("k1_octal_plain", 0) + 1
        if num_percent(text):
            stats["comment_adjacent_numeric"] = stats.get("comment_adjacent_numeric", 0) + 1
        op = hx(text)
        if rng.random() < 0.4:
            alt = render(rng, items, stats, canonical=rng.random() < 0.3)
            if read_text(alt) is not None:
                op += " alt=" + hx(alt)
                stats["pairs"] = stats.get("pairs", 0) + 1
        yield op
    # the stream that ties the Lean specification to model and implementation
    m = 1500 if tier == "quick" else 30000
    for _ in range(m):
        enc, text = g_spec_case(rng, stats)
        if b"\0" in text or read_text(text) is None:
            stats["spec_not_a_sentence"] = stats.get("spec_not_a_sentence", 0) + 1
            continue
        stats["spec_sentences"] = stats.get("spec_sentences", 0) + 1
        if num_percent(text):
            stats["spec_comment_adjacent_numeric"] = stats.get("spec_comment_adjacent_numeric", 0) + 1
        yield hx(text) + " sent=" + enc
