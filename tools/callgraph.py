#!/usr/bin/env python3
"""C03 translator: working tree -> LLVM IR -> call graph -> lean/RtoscModel/CallGraph/Generated.lean

  TWO configurations, one generated Lean module each (the certificate must hold for both):
    min     : -std=c++11 / -std=gnu99, -O1 -DNDEBUG   (lowest language level the headers support:
              target_compile_features(rtosc-cpp PUBLIC cxx_std_11))      -> CallGraph/Generated.lean
    shipped : language level, optimisation level and NDEBUG as CMakeLists.txt builds the library
              (CMAKE_CXX_STANDARD 17 with extensions = -std=gnu++17, the rtosc target's -std=c99,
              Release = -O3 -DNDEBUG)                                     -> CallGraph/Generated17.lean
  clang(++)-14 -S -emit-llvm   (clang 14 prints typed pointers; gcc, the shipping compiler, emits no IR)
      all C sources of the library, src/cpp/ports.cpp, src/cpp/thread-link.cpp and
      harness/rt_entries.cpp (sample sugar tree instantiating every callback macro of
      port-sugar.h + the realtime entry points of namespace `rte`)
  llvm-link-14 -S   -> one module (internal names are made unique by the linker); the other C++
      sources of the library are linked with --only-needed, so that a function of the realtime
      path that lives in (or is moved to) another translation unit keeps its body in the graph

Extracted from the text of that module:
  * nodes     : every defined function, every declared (external) function, three pseudo nodes
                for calls the extractor cannot resolve and one pseudo node for atomic
                read-modify-write instructions (`atomicrmw`, `cmpxchg`) that stand inside a loop:
                the building block of a lock that has no callee, e.g. a std::atomic_flag spin lock
  * edges     : direct call/invoke edges; a function whose body contains an atomic
                read-modify-write instruction in a basic block that lies on a cycle of its control
                flow graph has an edge to that pseudo node; a virtual call
                (callee loaded from a slot of a `vtable pointer` load) is resolved to the functions
                in that slot of the vtables of the receiver's static class and its derived
                classes, restricted to the classes that are instantiated by code the realtime
                entries or the harness support functions reach (or by a static initialiser);
                every other indirect call is resolved to EVERY address-taken function whose type
                equals the call's function type once all pointer types are erased (std::function's
                `_M_invoke` thunks stay separate from its `_M_manager`)
  * excluded  : (stated preconditions) calls to std::__throw_bad_function_call and
                __assert_fail, and calls in basic blocks reachable only through an `unwind`
                edge (exception landing pads / catch handlers).  Listed explicitly.
  * entries   : functions of namespace rte + the library API symbols listed in API_ENTRIES
  * forbidden : allocator / deallocator / mutex / exception-allocation / stdio functions
  * whitelist : external leaves assumed not to allocate, lock or throw (WHITELIST below)
  * cert      : bit mask of the set of nodes reachable from the entries

The Lean side (Props/C03.lean) re-checks with the kernel that cert contains the entries, is
closed under the edge list, avoids the forbidden set, and that every external in it is on the
whitelist; Reach.lean turns that into the statement about paths of any length.
"""
import collections
import hashlib
import json
import os
import re
import subprocess
import sys

sys.path.insert(0, os.path.dirname(os.path.abspath(__file__)))
import vlib  # noqa: E402

GEN_DIR = os.path.join(vlib.LEAN, "RtoscModel", "CallGraph")
CXX_SOURCES = ["src/cpp/ports.cpp", "src/cpp/thread-link.cpp"]
HARNESS_UNIT = ["rt_entries.cpp"]
HARNESS_DEPS = ["rt_entries.cpp", "rt_entries.h", "rt_tree.h"]
CHUNK = 400

BUILD_TYPE_FLAGS = {"Release": ["-O3", "-DNDEBUG"], "RelWithDebInfo": ["-O2", "-DNDEBUG"], "MinSizeRel": ["-Os", "-DNDEBUG"],
                    "Debug": ["-O0"], "None": []}


def cmake_config():
    """What CMakeLists.txt of the working tree says about how the library is built: language levels, default
    build type, definitions and the source lists of the two library targets."""
    try:
        cm = open(os.path.join(vlib.REPO, "CMakeLists.txt")).read()
    except OSError:
        cm = ""
    cm = re.sub(r"#[^\n]*", "", cm)
    m = re.search(r"CMAKE_CXX_STANDARD\s+(\d+)", cm)
    cxxstd = m.group(1) if m else "11"
    ext = not re.search(r"CMAKE_CXX_EXTENSIONS\s+(OFF|FALSE|0)\b", cm)
    m = re.search(r"target_compile_options\s*\(\s*rtosc\s+PRIVATE[^)]*?-std=([\w+]+)", cm, re.S)
    c_core = m.group(1) if m else None
    m = re.search(r"CMAKE_C_STANDARD\s+(\d+)", cm)
    c_other = ("gnu" + m.group(1)) if m else None
    m = re.search(r"if\s*\(\s*NOT\s+CMAKE_BUILD_TYPE\s*\)\s*set\s*\(\s*CMAKE_BUILD_TYPE\s+\"?(\w+)", cm)
    btype = m.group(1) if m else "None"
    defs = []
    for m in re.finditer(r"add_(?:compile_)?definitions\s*\(([^)]*)\)", cm):
        for d in m.group(1).split():
            d = d.strip('"')
            if re.match(r"^(-D)?[A-Za-z_]\w*(=[\w.]*)?$", d):
                defs.append(d if d.startswith("-D") else "-D" + d)
    core = []
    m = re.search(r"add_library\s*\(\s*rtosc\s+([^)]*)\)", cm)
    if m:
        core = [x for x in m.group(1).split() if x.endswith(".c")]
    cpp = []
    m = re.search(r"add_library\s*\(\s*rtosc-cpp\s+([^)]*)\)", cm)
    if m:
        cpp = [x for x in m.group(1).split() if re.search(r"^src/.*\.(c|cpp)$", x)]
    return {"cxx_std": ("gnu++" if ext else "c++") + cxxstd, "c_std_core": c_core, "c_std_other": c_other,
            "build_type": btype, "opt": BUILD_TYPE_FLAGS.get(btype, []), "defs": defs, "core_c": core, "cpp_target": cpp}


# when the tree no longer compiles at the lowest level, the `min` configuration moves up to the lowest level it compiles at
MIN_FALLBACK_CXX = ["-std=c++14", "-std=c++17"]


def configs():
    """The configurations the call graph is extracted for."""
    cm = cmake_config()
    core = set(cm["core_c"] or ["src/rtosc.c", "src/dispatch.c", "src/rtosc-time.c"])
    return [
        {"name": "min", "ns": "Gen", "file": "Generated.lean",
         "what": "lowest supported language level: clang-14 -std=c++11 / -std=gnu99, -O1 -DNDEBUG",
         "cxx": ["-std=c++11"], "c_core": ["-std=gnu99"], "c_other": ["-std=gnu99"], "opt": ["-O1", "-DNDEBUG"], "core": core,
         "cmake": cm},
        {"name": "shipped", "ns": "Gen17", "file": "Generated17.lean",
         "what": "as CMakeLists.txt builds the library: clang-14 -std=%s / %s, %s" % (
             cm["cxx_std"], "-std=" + cm["c_std_core"] if cm["c_std_core"] else "default C", " ".join(cm["opt"] + cm["defs"]) or "no flags"),
         "cxx": ["-std=" + cm["cxx_std"]], "c_core": (["-std=" + cm["c_std_core"]] if cm["c_std_core"] else []),
         "c_other": (["-std=" + cm["c_std_other"]] if cm["c_std_other"] else []), "opt": cm["opt"] + cm["defs"] + ["-fPIC"],
         "core": core, "cmake": cm},
    ]


# library API symbols that are entries in their own right (when present in the module)
API_ENTRIES = [
    "rtosc_message", "rtosc_vmessage", "rtosc_amessage", "rtosc_message_length",
    "rtosc_message_ring_length", "rtosc_valid_message_p", "rtosc_argument_string",
    "rtosc_narguments", "rtosc_type", "rtosc_argument", "rtosc_itr_begin", "rtosc_itr_next",
    "rtosc_itr_end", "rtosc_bundle", "rtosc_bundle_elements", "rtosc_bundle_fetch",
    "rtosc_bundle_size", "rtosc_bundle_p", "rtosc_bundle_timetag", "rtosc_match",
    "rtosc_match_path", "rtosc_match_options",
    "_ZNK5rtosc5Ports8dispatchEPKcRNS_6RtDataEb",
    "_ZN5rtosc6RtData5replyEPKcS2_z", "_ZN5rtosc6RtData5replyEPKc",
    "_ZN5rtosc6RtData9broadcastEPKcS2_z", "_ZN5rtosc6RtData9broadcastEPKc",
    "_ZN5rtosc10ThreadLink5writeEPKcS2_z", "_ZN5rtosc10ThreadLink10writeArrayEPKcS2_PK11rtosc_arg_t",
    "_ZN5rtosc10ThreadLink9raw_writeEPKc", "_ZNK5rtosc10ThreadLink7hasNextEb",
    "_ZNK5rtosc10ThreadLink7hasNextEv", "_ZNK5rtosc10ThreadLink16hasNextLookaheadEv",
    "_ZN5rtosc10ThreadLink4readEb", "_ZN5rtosc10ThreadLink4readEv",
    "_ZN5rtosc10ThreadLink14read_lookaheadEv", "_ZNK5rtosc10ThreadLink4peakEv",
]
ENTRY_PREFIX = "_ZN3rte"

# ---- classification of externals -------------------------------------------------------
FORBIDDEN_EXACT = {
    # allocator
    "malloc", "calloc", "realloc", "free", "posix_memalign", "aligned_alloc", "memalign", "valloc",
    "pvalloc", "reallocarray", "cfree", "strdup", "strndup", "wcsdup", "asprintf", "vasprintf",
    "getline", "getdelim", "open_memstream", "fmemopen", "realpath", "get_current_dir_name",
    "mmap", "munmap", "mremap", "brk", "sbrk", "__libc_malloc", "__libc_free",
    # locks / blocking
    "pthread_mutex_lock", "pthread_mutex_trylock", "pthread_mutex_timedlock", "pthread_mutex_clocklock",
    "pthread_mutex_unlock", "pthread_mutex_init", "pthread_mutex_destroy",
    "__pthread_mutex_lock", "__pthread_mutex_trylock", "__pthread_mutex_unlock",
    "pthread_rwlock_rdlock", "pthread_rwlock_wrlock", "pthread_rwlock_tryrdlock", "pthread_rwlock_trywrlock",
    "pthread_rwlock_timedrdlock", "pthread_rwlock_timedwrlock", "pthread_rwlock_unlock",
    "pthread_spin_lock", "pthread_spin_trylock", "pthread_cond_wait", "pthread_cond_timedwait",
    "pthread_once", "pthread_create", "pthread_join", "sem_wait", "sem_timedwait", "sem_trywait",
    "mtx_lock", "mtx_trylock", "mtx_timedlock", "call_once", "flockfile", "ftrylockfile",
    "__cxa_guard_acquire", "__cxa_guard_release", "__cxa_guard_abort",
    "usleep", "sleep", "nanosleep", "sched_yield",
    # exceptions (allocate the exception object)
    "__cxa_allocate_exception", "__cxa_throw", "__cxa_rethrow", "__cxa_allocate_dependent_exception",
    "_Unwind_Resume", "_Unwind_RaiseException", "__cxa_begin_catch", "__cxa_end_catch",
    "__cxa_bad_cast", "__cxa_bad_typeid", "__cxa_throw_bad_array_new_length",
    # stdio streams (take the FILE lock, may allocate the stream buffer)
    "printf", "fprintf", "vprintf", "vfprintf", "puts", "fputs", "fputc", "putc", "putchar", "fwrite",
    "fread", "fflush", "fopen", "fclose", "fdopen", "freopen", "perror", "fgets", "fgetc", "getc",
    "scanf", "fscanf", "tmpfile", "setvbuf", "fseek", "ftell", "rewind",
    "__cxa_atexit", "atexit", "exit",
}
FORBIDDEN_RE = [
    (re.compile(r"^_Zn[wa][mj]"), "operator new"),
    (re.compile(r"^_Zd[la]Pv"), "operator delete"),
    (re.compile(r"^_ZSt\d+__throw_"), "std::__throw_* (allocates an exception)"),
    (re.compile(r"^_ZNSt7__cxx1112basic_string"), "non-const std::string member (may allocate)"),
    (re.compile(r"^_ZNSs"), "non-const std::string member (may allocate)"),
    (re.compile(r"^_ZNSt(5mutex|15recursive_mutex|11timed_mutex|12shared_mutex|18condition_variable|6thread)"), "std::mutex / std::thread"),
    (re.compile(r"^_ZNSt6locale"), "std::locale (reference counted, locks)"),
    (re.compile(r"^_ZNS[oi]"), "iostream"),
    (re.compile(r"^_ZSt16__ostream_insert"), "iostream"),
    (re.compile(r"^_ZNSt9basic_ios"), "iostream"),
    (re.compile(r"^_ZNSt8ios_base"), "iostream"),
    (re.compile(r"^_ZNSt8__detail15_List_node_base"), "std::list node hooks (only used around node allocation)"),
    (re.compile(r"^_ZSt(29_Rb_tree_insert_and_rebalance|28_Rb_tree_rebalance_for_erase)"), "std::map/set node insertion (only used around node allocation)"),
]
PRECONDITION_CALLEES = {
    "_ZSt25__throw_bad_function_callv": "an empty std::function callback is a construction error (stated precondition)",
    "__assert_fail": "assertions are compiled out (NDEBUG, like the default build)",
}
# external leaves assumed not to allocate, not to lock and not to throw
WHITELIST = {
    "memcpy": "libc memory/string leaf", "memmove": "libc memory/string leaf", "memset": "libc memory/string leaf",
    "memcmp": "libc memory/string leaf", "bcmp": "libc memory/string leaf", "memchr": "libc memory/string leaf",
    "strlen": "libc memory/string leaf", "strnlen": "libc memory/string leaf", "strcmp": "libc memory/string leaf",
    "strncmp": "libc memory/string leaf", "strcasecmp": "libc memory/string leaf (reads the C locale table)",
    "strncasecmp": "libc memory/string leaf (reads the C locale table)",
    "strchr": "libc memory/string leaf", "strrchr": "libc memory/string leaf", "strstr": "libc memory/string leaf",
    "strcpy": "libc memory/string leaf", "strncpy": "libc memory/string leaf", "strcat": "libc memory/string leaf",
    "strncat": "libc memory/string leaf", "stpcpy": "libc memory/string leaf", "strspn": "libc memory/string leaf",
    "strcspn": "libc memory/string leaf", "strpbrk": "libc memory/string leaf",
    "strchrnul": "glibc memory/string leaf", "mempcpy": "glibc memory/string leaf", "memccpy": "libc memory/string leaf",
    "memrchr": "glibc memory/string leaf", "stpncpy": "libc memory/string leaf", "rawmemchr": "glibc memory/string leaf",
    "__mempcpy": "glibc memory/string leaf", "__stpcpy": "glibc memory/string leaf", "__strchrnul": "glibc memory/string leaf",
    "atoi": "glibc strtol: pure digit loop, reads the locale pointer from TLS",
    "atol": "glibc strtol", "atoll": "glibc strtol", "strtol": "glibc strtol", "strtoul": "glibc strtol",
    "strtoll": "glibc strtol", "strtoull": "glibc strtol",
    "atof": "glibc strtod: multi-precision arithmetic on the stack, no heap, no lock (validated by the dynamic engine on every float port)",
    "strtod": "glibc strtod (see atof)", "strtof": "glibc strtod (see atof)",
    "__ctype_b_loc": "returns the TLS pointer to the ctype table (isdigit)",
    "__ctype_tolower_loc": "TLS pointer to the ctype table", "__ctype_toupper_loc": "TLS pointer to the ctype table",
    "tolower": "ctype table lookup", "toupper": "ctype table lookup", "isdigit": "ctype table lookup",
    "roundf": "libm leaf", "round": "libm leaf", "floorf": "libm leaf", "floor": "libm leaf", "ceilf": "libm leaf",
    "ceil": "libm leaf", "fabsf": "libm leaf", "fabs": "libm leaf", "powf": "libm leaf", "pow": "libm leaf",
    "logf": "libm leaf", "log": "libm leaf", "expf": "libm leaf", "exp": "libm leaf", "log2f": "libm leaf",
    "exp2f": "libm leaf", "sqrtf": "libm leaf", "sqrt": "libm leaf", "lroundf": "libm leaf", "lround": "libm leaf",
    "snprintf": "glibc vsnprintf on a caller buffer: no stream lock; assumed not to allocate for %d/%s/%f-class directives without huge widths",
    "vsnprintf": "see snprintf",
    "abort": "terminates the process (not an allocation or a lock)",
    "_ZSt9terminatev": "terminates the process (not an allocation or a lock)",
    "__clang_call_terminate": "terminates the process (not an allocation or a lock)",
    "__cxa_pure_virtual": "terminates the process",
    "__gxx_personality_v0": "personality routine: only runs while an exception unwinds (excluded by precondition)",
    "_ZNKSt7__cxx1112basic_stringIcSt11char_traitsIcESaIcEE7compareEPKc": "const std::string::compare: reads only",
    "_ZNKSt7__cxx1112basic_stringIcSt11char_traitsIcESaIcEE4findEcm": "const std::string::find: reads only",
    "_ZSt18_Rb_tree_incrementPKSt18_Rb_tree_node_base": "std::map iterator step: reads only",
    "_ZSt18_Rb_tree_decrementPSt18_Rb_tree_node_base": "std::map iterator step: reads only",
    "_ZSt18_Rb_tree_incrementPSt18_Rb_tree_node_base": "std::map iterator step: reads only",
}
# libm leaves (float / double / long double variants): pure computations
LIBM_OK = re.compile(r"^(a?sinh?|a?cosh?|a?tanh?|atan2|exp|exp2|expm1|log|log2|log10|log1p|pow|sqrt|cbrt|hypot|fabs|fmod|fmax|fmin|fdim|"
                     r"floor|ceil|round|trunc|rint|nearbyint|lround|llround|lrint|llrint|copysign|ldexp|frexp|modf|remainder|fma|"
                     r"scalbn|logb|ilogb|erf|erfc|tgamma|lgamma|nan|isnan|isinf|finite)[fl]?$")
INTRINSIC_OK = re.compile(r"^llvm\.(memcpy|memmove|memset|lifetime|stacksave|stackrestore|va_start|va_end|va_copy|"
                          r"assume|experimental\.noalias|dbg\.|ctlz|cttz|ctpop|bswap|fabs|floor|ceil|round|rint|nearbyint|trunc|"
                          r"sqrt|fma|fmuladd|minnum|maxnum|copysign|umin|umax|smin|smax|abs|usub|uadd|ssub|sadd|umul|smul|"
                          r"fshl|fshr|bitreverse|expect|objectsize|is\.constant|invariant|launder|strip|prefetch|trap|"
                          r"ubsantrap|debugtrap|donothing|sideeffect|annotation|ptr\.annotation|var\.annotation|"
                          r"vector\.reduce|masked|pow|powi|exp|exp2|log|log2|log10|sin|cos|lround|llround|lrint|llrint|"
                          r"eh\.typeid\.for|threadlocal|frameaddress|returnaddress|prefetch|readcyclecounter|x86\.)")

PSEUDO_UNRESOLVED = "<indirect call with no address-taken candidate>"
PSEUDO_ASM = "<inline asm>"
PSEUDO_UNPARSED = "<call the extractor could not parse>"
PSEUDO_ATOMIC = "<atomic read-modify-write in a loop>"


class TranslatorError(Exception):
    pass


# ---------------------------------------------------------------------------------------
# step 1: IR
# ---------------------------------------------------------------------------------------
def sources(cfg):
    """(C sources, C++ sources of the realtime path, other C++ sources of the library).  All C sources (so that a
    helper moved between C files stays inside the graph); the other C++ sources are linked with --only-needed."""
    cm = cfg["cmake"]
    csrc = list(vlib.LIB_C)
    for x in list(cm["core_c"]) + [y for y in cm["cpp_target"] if y.endswith(".c")]:
        if x not in csrc and os.path.exists(os.path.join(vlib.REPO, x)):
            csrc.append(x)
    others = [x for x in vlib.LIB_CXX if x not in CXX_SOURCES]
    for x in cm["cpp_target"]:
        if x.endswith(".cpp") and x not in others and x not in CXX_SOURCES and os.path.exists(os.path.join(vlib.REPO, x)):
            others.append(x)
    return csrc, list(CXX_SOURCES), others


def build_ir(cfg):
    """Returns (path of linked module text, key, 'cached'|'built').  The `min` configuration falls back to the next
    language level when the tree does not compile at c++11 (a project that builds at C++17 may use it)."""
    if cfg["name"] != "min":
        return _build_ir(cfg)
    last = None
    for cxx in [cfg["cxx"]] + [[x] for x in MIN_FALLBACK_CXX]:
        c = dict(cfg, cxx=cxx)
        try:
            r = _build_ir(c)
            cfg["cxx_used"] = cxx
            if cxx != cfg["cxx"]:
                cfg["what"] = cfg["what"].replace(cfg["cxx"][0], cxx[0] + " (the tree does not compile at " + cfg["cxx"][0] + ")")
            return r
        except vlib.BuildError as e:
            last = e
    raise last


def _build_ir(cfg):
    hdir = os.path.join(vlib.VERIF, "harness")
    deps = [os.path.join(hdir, d) for d in HARNESS_DEPS]
    flags = ["-S", "-emit-llvm", "-DRTOSC_VERIF"] + cfg["opt"]
    key = vlib.sha_files(vlib.repo_files() + deps, " ".join(flags + cfg["cxx"] + cfg["c_core"] + cfg["c_other"]) + "cg6")
    pre = "cg-%s-" % cfg["name"]
    d = os.path.join(vlib.BUILD, pre + key)
    out = os.path.join(d, "all.ll")
    os.makedirs(vlib.BUILD, exist_ok=True)
    with vlib.Lock("cg-" + cfg["name"]):
        if os.path.exists(out):
            return out, key, "cached"
        import shutil
        for x in os.listdir(vlib.BUILD):
            if x.startswith(pre) and not x.endswith(".lock"):
                shutil.rmtree(os.path.join(vlib.BUILD, x), ignore_errors=True)
        os.makedirs(d, exist_ok=True)
        inc = ["-I", os.path.join(vlib.REPO, "include"), "-I", os.path.join(vlib.REPO, "src/cpp"),
               "-I", os.path.join(vlib.REPO, "src"), "-I", hdir]
        csrc, cxxsrc, others = sources(cfg)
        procs = []
        lls = []
        olls = []

        def start(tag, cmd, ll, optional=False):
            procs.append((tag, optional, ll, subprocess.Popen(cmd + flags + inc + ["-o", ll], stdout=subprocess.PIPE,
                                                               stderr=subprocess.STDOUT, text=True)))

        for s in csrc:
            p = os.path.join(vlib.REPO, s)
            if not os.path.exists(p):
                continue
            ll = os.path.join(d, s.replace("/", "_") + ".ll")
            lls.append(ll)
            start(s, ["clang-14"] + (cfg["c_core"] if s in cfg["core"] else cfg["c_other"]) + [p], ll)
        for s in cxxsrc:
            ll = os.path.join(d, s.replace("/", "_") + ".ll")
            lls.append(ll)
            start(s, ["clang++-14"] + cfg["cxx"] + [os.path.join(vlib.REPO, s)], ll)
        for s in HARNESS_UNIT:
            ll = os.path.join(d, "harness_" + s + ".ll")
            lls.append(ll)
            start(s, ["clang++-14"] + cfg["cxx"] + [os.path.join(hdir, s)], ll)
        for s in others:
            if not os.path.exists(os.path.join(vlib.REPO, s)):
                continue
            ll = os.path.join(d, "other_" + s.replace("/", "_") + ".ll")
            start(s, ["clang++-14"] + cfg["cxx"] + [os.path.join(vlib.REPO, s)], ll, optional=True)
        bad = ""
        skipped = []
        for s, optional, ll, p in procs:
            o, _ = p.communicate()
            if p.returncode != 0:
                if optional:
                    # a translation unit outside the realtime path that clang cannot compile is left out (its
                    # functions stay externals: a reachable one fails the whitelist obligation)
                    skipped.append(s)
                else:
                    bad += "== %s\n%s\n" % (s, o[-3000:])
            elif optional:
                olls.append(ll)
        if bad:
            raise vlib.BuildError("clang cannot compile the working tree to LLVM IR (%s):\n%s" % (cfg["name"], bad))
        base = os.path.join(d, "base.ll")
        r = vlib.sh(["llvm-link-14", "-S"] + lls + ["-o", base])
        if r.returncode != 0:
            raise vlib.BuildError("llvm-link failed:\n" + r.stdout[-3000:])
        final = base
        if olls:
            oth = os.path.join(d, "others.ll")
            r = vlib.sh(["llvm-link-14", "-S"] + olls + ["-o", oth])
            if r.returncode == 0:
                # static initialisers of the other translation units (their own port tables) are not part of the
                # realtime path under analysis: without the constructor list nothing of them is "needed"
                txt = open(oth).read().split("\n")
                with open(oth, "w") as f:
                    f.write("\n".join(l for l in txt if not l.startswith("@llvm.global_ctors")) + "\n")
                r = vlib.sh(["llvm-link-14", "-S", base, "--only-needed", oth, "-o", out + ".tmp"])
            if r.returncode == 0:
                final = out + ".tmp"
            else:
                skipped.append("llvm-link --only-needed: " + r.stdout[-300:])
        os.rename(final, out)
        with open(os.path.join(d, "skipped.json"), "w") as f:
            json.dump(skipped, f)
        for ll in lls + olls + [base, os.path.join(d, "others.ll")]:
            if os.path.exists(ll):
                os.remove(ll)
        return out, key, "built"


# ---------------------------------------------------------------------------------------
# step 2: parsing the textual IR
# ---------------------------------------------------------------------------------------
_PRIM = re.compile(r"(void|i\d+|half|bfloat|float|double|fp128|x86_fp80|ppc_fp128|x86_mmx|x86_amx|label|metadata|token|ptr|opaque)\b")
_NAME = re.compile(r'%("(?:[^"\\]|\\.)*"|[-\w.$]+)')
_WS = re.compile(r"\s*")
_GLOBAL = re.compile(r'@("(?:[^"\\]|\\.)*"|[-\w.$]+)')


def _skip(s, i):
    return _WS.match(s, i).end()


def parse_type(s, i):
    """Parses an LLVM type starting at s[i:]; returns (normalised type, index after it).
    Normalisation: every pointer type becomes `ptr`; numeric suffixes of struct names are dropped."""
    i = _skip(s, i)
    m = _PRIM.match(s, i)
    if m:
        t = m.group(1)
        i = m.end()
    elif s.startswith("%", i):
        m = _NAME.match(s, i)
        if not m:
            raise ValueError("bad type name at " + s[i:i + 40])
        t = "%" + re.sub(r"\.\d+$", "", m.group(1).strip('"'))
        i = m.end()
    elif s.startswith("<{", i):
        ts, i = _parse_type_list(s, i + 2, "}")
        i = _skip(s, i)
        if not s.startswith(">", i):
            raise ValueError("bad packed struct")
        i += 1
        t = "<{" + ",".join(ts) + "}>"
    elif s.startswith("{", i):
        ts, i = _parse_type_list(s, i + 1, "}")
        t = "{" + ",".join(ts) + "}"
    elif s.startswith("[", i) or s.startswith("<", i):
        close = "]" if s[i] == "[" else ">"
        m = re.compile(r"\s*(vscale\s+x\s+)?(\d+)\s+x\s+").match(s, i + 1)
        if not m:
            raise ValueError("bad array/vector type at " + s[i:i + 40])
        et, j = parse_type(s, m.end())
        j = _skip(s, j)
        if s[j] != close:
            raise ValueError("bad array/vector close")
        t = "%s%s x %s%s" % (s[i], m.group(2), et, close)
        i = j + 1
    else:
        raise ValueError("not a type: " + s[i:i + 40])
    # suffixes
    while True:
        j = _skip(s, i)
        if s.startswith("*", j):
            t = "ptr"
            i = j + 1
        elif s.startswith("addrspace(", j):
            k = s.index(")", j)
            i = k + 1
        elif s.startswith("(", j):
            ps, k, va = _parse_param_types(s, j + 1)
            t = "%s(%s%s)" % (t, ",".join(ps), (",..." if ps else "...") if va else "")
            i = k
        else:
            break
    return t, i


def _parse_type_list(s, i, close):
    ts = []
    i = _skip(s, i)
    if s.startswith(close, i):
        return ts, i + 1
    while True:
        t, i = parse_type(s, i)
        ts.append(t)
        i = _skip(s, i)
        if s.startswith(",", i):
            i += 1
            continue
        if s.startswith(close, i):
            return ts, i + 1
        raise ValueError("bad type list at " + s[i:i + 40])


def _skip_value(s, i):
    """Skips attributes and a value up to the next top-level ',' or ')'; returns index of that char."""
    depth = 0
    n = len(s)
    while i < n:
        c = s[i]
        if c == '"':
            i += 1
            while i < n and s[i] != '"':
                i += 2 if s[i] == "\\" else 1
        elif c in "([{":
            depth += 1
        elif c in ")]}":
            if depth == 0:
                return i
            depth -= 1
        elif c == "," and depth == 0:
            return i
        i += 1
    raise ValueError("unterminated argument list")


def _parse_param_types(s, i):
    """After '(' of a parameter/argument list: returns (types, index after ')', is_vararg).
    Each element: type [attributes] [value or name]."""
    ts = []
    va = False
    i = _skip(s, i)
    if s.startswith(")", i):
        return ts, i + 1, va
    while True:
        i = _skip(s, i)
        if s.startswith("...", i):
            va = True
            i += 3
        else:
            t, i = parse_type(s, i)
            ts.append(t)
        i = _skip_value(s, i)
        if s[i] == ",":
            i += 1
            continue
        return ts, i + 1, va


_DEF_KW = re.compile(r"\s*(private|internal|available_externally|linkonce_odr|linkonce|weak_odr|weak|common|appending|extern_weak|"
                     r"external|dso_local|dso_preemptable|hidden|protected|default|dllimport|dllexport|ccc|fastcc|coldcc|"
                     r"cc\s+\d+|webkit_jscc|anyregcc|preserve_mostcc|preserve_allcc|cxx_fast_tlscc|tailcc|swiftcc|swifttailcc|"
                     r"cfguard_checkcc|x86_\w+cc|unnamed_addr|local_unnamed_addr|zeroext|signext|inreg|noalias|nonnull|noundef|"
                     r"dereferenceable(_or_null)?\(\d+\)|align\s+\d+|nnan|ninf|nsz|arcp|contract|"
                     r"afn|reassoc|fast|addrspace\(\d+\))(?=\s)")


def _skip_kw(s, i):
    """Skips linkage / calling convention / return attribute keywords in front of a type."""
    while True:
        m = _DEF_KW.match(s, i)
        if not m:
            return _skip(s, i)
        i = m.end()


def unq(name):
    return name[1:-1] if name.startswith('"') else name


class Func:
    __slots__ = ("name", "defined", "ftype", "calls", "internal", "atomics", "vtrefs")

    def __init__(self, name, defined, ftype, internal=False):
        self.name = name
        self.defined = defined
        self.ftype = ftype
        self.internal = internal
        self.calls = []     # (kind, target, excluded_reason or None, block)   kind in direct|indirect|virtual|atomic|asm|unparsed
        self.atomics = []   # atomic read-modify-write instructions of the body (text)
        self.vtrefs = set() # vtable globals the body mentions (a constructor stores the vtable pointer)


_HDR = re.compile(r'^(define|declare)\s+(.*?)@("(?:[^"\\]|\\.)*"|[-\w.$]+)\s*\(')


def parse_header(line):
    m = _HDR.match(line)
    if not m:
        raise ValueError("bad function header: " + line[:120])
    pre = m.group(2) + " "
    rt, j = parse_type(pre, _skip_kw(pre, 0))
    if pre[j:].strip():
        raise ValueError("unparsed return type remainder `%s` in %s" % (pre[j:], line[:120]))
    ps, k, va = _parse_param_types(line, m.end())
    ftype = "%s(%s%s)" % (rt, ",".join(ps), (",..." if ps else "...") if va else "")
    return unq(m.group(3)), ftype, ("internal" in m.group(2).split() or "private" in m.group(2).split())


_CALL = re.compile(r"^\s*(?:%[-\w.$\"]+\s*=\s*)?((?:tail\s+|musttail\s+|notail\s+)?call|invoke)\s+(.*)$")
_LABEL = re.compile(r'^("(?:[^"\\]|\\.)*"|[-\w.$]+):')
_LABELREF = re.compile(r'(unwind\s+)?label\s+%("(?:[^"\\]|\\.)*"|[-\w.$]+)')


def parse_call(rest):
    """rest = text after `call`/`invoke`.  Returns (kind, target_or_type, callee_span)."""
    s = rest + " "
    t, i = parse_type(s, _skip_kw(s, 0))
    i = _skip(s, i)
    if s.startswith("@", i):
        m = _GLOBAL.match(s, i)
        return "direct", unq(m.group(1)), None
    if s.startswith("%", i):
        m = _NAME.match(s, i)
        j = _skip(s, m.end())
        if _is_fn_type(t):
            ftype = t
        else:
            if not s.startswith("(", j):
                raise ValueError("no argument list")
            ps, k, va = _parse_param_types(s, j + 1)
            ftype = "%s(%s)" % (t, ",".join(ps))
        return "indirect", ftype, (m.group(0), s[j:])
    if s.startswith("asm", i):
        return "asm", None, None
    m = re.match(r"(bitcast|addrspacecast|inttoptr|getelementptr)\b", s[i:])
    if m:
        g = _GLOBAL.search(s, i)
        if g:
            return "direct", unq(g.group(1)), None
    raise ValueError("unknown callee: " + s[i:i + 60])


def _is_fn_type(t):
    # a normalised type is a function type iff it ends with ')' and the matching '(' is at top level
    if not t.endswith(")"):
        return False
    depth = 0
    for k in range(len(t) - 1, -1, -1):
        if t[k] == ")":
            depth += 1
        elif t[k] == "(":
            depth -= 1
            if depth == 0:
                return k > 0
    return False


_DEFLINE = re.compile(r'^\s*(%(?:"(?:[^"\\]|\\.)*"|[-\w.$]+))\s*=\s*(.*)$')
_TOK = r'%(?:"(?:[^"\\]|\\.)*"|[-\w.$]+)'
_LOAD_PTR = re.compile(r'^load\s.*[\s*](' + _TOK + r')\s*(?:,\s*align\s+\d+)?((?:,\s*![\w.]+\s+!\d+)*)\s*$')
_GEP_SLOT = re.compile(r'^getelementptr\s+(?:inbounds\s+)?.*[\s*](' + _TOK + r'),\s*i64\s+(\d+|' + _TOK + r')\s*$')
_ATOMIC = re.compile(r'^\s*(?:' + _TOK + r'\s*=\s*)?(atomicrmw|cmpxchg)\b')
_VT_GLOBAL = re.compile(r'@(_ZTV[\w.$]+)')


def class_of_type(tok):
    """`%"struct.rtosc::RtData"` / `%class.Foo.12` -> `rtosc::RtData` / `Foo`"""
    t = tok[1:]
    if t.startswith('"'):
        t = t[1:-1]
    t = re.sub(r"^(struct|class|union)\.", "", t)
    t = re.sub(r"\.base$", "", re.sub(r"\.\d+$", "", t))
    return t


def virtual_site(defs, callee, after, vt_tags):
    """A call through `callee` (an SSA name) is a virtual call when the callee was loaded from slot K of a table whose
    address was loaded with `vtable pointer` TBAA.  Returns (receiver class, K) or None."""
    rhs = defs.get(callee)
    if rhs is None:
        return None
    m = _LOAD_PTR.match(rhs)
    if not m:
        return None
    slotp = m.group(1)
    rhs2 = defs.get(slotp)
    if rhs2 is None:
        return None
    g = _GEP_SLOT.match(rhs2)
    slots = [0]
    if g:
        if g.group(2).isdigit():
            slots = [int(g.group(2))]
        else:
            # the optimiser merges two virtual calls of the same type into one call whose slot is a phi of constants
            ph = defs.get(g.group(2))
            if ph is None or not ph.startswith("phi i64 "):
                return None
            inc = re.findall(r"\[\s*([^,\]]+?)\s*,", ph)
            if not inc or not all(x.isdigit() for x in inc):
                return None
            slots = sorted(set(int(x) for x in inc))
        rhs2 = defs.get(g.group(1))
        if rhs2 is None:
            return None
    m2 = _LOAD_PTR.match(rhs2)
    if not m2:
        return None
    tags = set(re.findall(r"!tbaa\s+!(\d+)", m2.group(2)))
    if not (tags & vt_tags):
        return None
    r = re.match(r'\s*\(\s*(' + _TOK + r')\s*\*', after)
    if not r:
        return None
    return class_of_type(r.group(1)), tuple(slots)


def parse_vtable(line):
    """`@_ZTVX = ... constant { [n x i8*], ... } { [n x i8*] [e0, e1, ...], ... }` -> (functions of the primary table
    from its address point on: index k = slot k).  None when the shape is not understood."""
    m = re.search(r"\}\s*\{\s*\[\d+ x i8\*\]\s*\[", line)
    if not m:
        return None
    i = m.end()
    depth = 0
    elems = []
    cur = []
    n = len(line)
    while i < n:
        c = line[i]
        if c in "([{":
            depth += 1
        elif c in ")]}":
            if depth == 0:
                break
            depth -= 1
        if c == "," and depth == 0:
            elems.append("".join(cur))
            cur = []
        else:
            cur.append(c)
        i += 1
    elems.append("".join(cur))
    syms = []
    ap = None
    for k, e in enumerate(elems):
        g = _GLOBAL.search(e)
        sym = unq(g.group(1)) if g else None
        if ap is None and sym and sym.startswith("_ZTI"):
            ap = k + 1
        syms.append(sym)
    if ap is None:
        ap = 2
    return syms[ap:]


def parse_module(path):
    funcs = collections.OrderedDict()
    addr_taken = collections.Counter()
    text = open(path).read().split("\n")
    n = len(text)
    i = 0
    problems = []
    bodies = []   # (Func, start, end)
    aliases = []
    # pass 1: headers
    while i < n:
        line = text[i]
        if line.startswith("define "):
            name, ftype, internal = parse_header(line)
            f = Func(name, True, ftype, internal)
            funcs[name] = f
            j = i + 1
            while j < n and text[j] != "}":
                j += 1
            bodies.append((f, i, j))
            i = j + 1
            continue
        if line.startswith("declare "):
            name, ftype, _ = parse_header(line)
            if name not in funcs:
                funcs[name] = Func(name, False, ftype)
        if line.startswith("@") and re.search(r"=[^=]*\balias\b", line):
            gs = _GLOBAL.findall(line)
            aliases.append((unq(gs[0]), unq(gs[-1])))
        i += 1
    # an alias is modelled as a defined thunk node with one edge to its aliasee
    for a, tgt in aliases:
        if a not in funcs and tgt in funcs:
            f = Func(a, True, funcs[tgt].ftype)
            f.calls.append(("direct", tgt, None, "<alias>"))
            funcs[a] = f
    fnames = set(funcs)

    def note_addr(line, skip_first_of=None):
        skipped = False
        for m in _GLOBAL.finditer(line):
            g = unq(m.group(1))
            if g in fnames:
                if skip_first_of is not None and g == skip_first_of and not skipped:
                    skipped = True
                    continue
                addr_taken[g] += 1

    # pass 2: globals (address-taken in initialisers), vtables, type infos, TBAA tags of vtable-pointer loads
    vtables = {}       # `_ZTVX` -> functions by slot
    bases = {}         # `X` (mangled suffix) -> set of mangled suffixes of its direct bases
    static_inst = set()
    vt_types = set()
    vt_tags = set()
    for line in text:
        if line.startswith("@") and not line.startswith("@llvm.used") and not line.startswith("@llvm.compiler.used") \
                and not re.search(r"=[^=]*\balias\b", line):
            eq = line.find("=")
            note_addr(line[eq + 1:])
            gname = unq(_GLOBAL.match(line).group(1))
            if gname.startswith("_ZTV"):
                if re.search(r"=\s*(?:[\w()]+\s+)*(constant|global)\s+\{", line) and "external" not in line[eq:eq + 40]:
                    vt = parse_vtable(line)
                    if vt is not None:
                        vtables[gname] = vt
            elif gname.startswith("_ZTI"):
                bs = set(unq(x)[4:] for x in _GLOBAL.findall(line[eq + 1:]) if unq(x).startswith("_ZTI"))
                bases[gname[4:]] = bs
            elif not gname.startswith(("_ZTT", "_ZTC", "_ZTS")):
                static_inst.update(_VT_GLOBAL.findall(line[eq + 1:]))
        elif line.startswith("!"):
            m = re.match(r'^!(\d+) = !\{!"vtable pointer"', line)
            if m:
                vt_types.add(m.group(1))
    for line in text:
        if line.startswith("!"):
            m = re.match(r"^!(\d+) = !\{!(\d+), !(\d+), i64 0\}", line)
            if m and m.group(2) in vt_types:
                vt_tags.add(m.group(1))
    # pass 3: bodies
    for f, a, b in bodies:
        note_addr(text[a].split("(", 1)[1] if "personality" in text[a] else "")
        # blocks
        blocks = collections.OrderedDict()
        cur = "<entry>"
        blocks[cur] = []
        for k in range(a + 1, b):
            line = text[k]
            m = _LABEL.match(line)
            if m:
                cur = unq(m.group(1))
                blocks[cur] = []
                continue
            blocks[cur].append(line)
        succ = {}
        for bl, lines in blocks.items():
            ns, us = set(), set()
            for line in lines:
                for m in _LABELREF.finditer(line):
                    (us if m.group(1) else ns).add(unq(m.group(2)))
            succ[bl] = (ns, us)
        normal = set()
        stack = ["<entry>"]
        while stack:
            x = stack.pop()
            if x in normal or x not in succ:
                continue
            normal.add(x)
            stack.extend(succ[x][0])
        cyc = {}

        def in_cycle(bl0):
            """can control come back to block bl0 (any edge, unwind edges included)?"""
            if bl0 not in cyc:
                seen_, st = set(), list(succ[bl0][0] | succ[bl0][1])
                while st:
                    y = st.pop()
                    if y in seen_ or y not in succ:
                        continue
                    seen_.add(y)
                    st.extend(succ[y][0] | succ[y][1])
                cyc[bl0] = bl0 in seen_
            return cyc[bl0]
        defs = {}
        for k in range(a + 1, b):
            dm_ = _DEFLINE.match(text[k])
            if dm_:
                defs[dm_.group(1)] = dm_.group(2)
        for bl, lines in blocks.items():
            for line in lines:
                if "@_ZTV" in line:
                    f.vtrefs.update(_VT_GLOBAL.findall(line))
                m = _CALL.match(line)
                if not m:
                    note_addr(line)
                    am = _ATOMIC.match(line)
                    if am and in_cycle(bl):
                        # an atomic read-modify-write inside a loop: what a lock without a callee (spin lock, ticket
                        # lock) or a retry loop is made of.  Counted wherever it stands (also in a landing pad).  One
                        # outside of any loop (a counter, a flag set once) completes in a bounded number of steps.
                        f.atomics.append(line.strip()[:120])
                        f.calls.append(("atomic", None, None, bl))
                    continue
                try:
                    kind, tgt, callee = parse_call(m.group(2))
                    if kind == "indirect" and callee is not None:
                        v = virtual_site(defs, callee[0], callee[1], vt_tags)
                        if v is not None:
                            kind, tgt = "virtual", (tgt, v[0], v[1])
                except Exception as e:  # noqa: BLE001
                    kind, tgt = "unparsed", None
                    problems.append("%s: %s :: %s" % (f.name, e, line.strip()[:160]))
                excl = None
                if bl not in normal:
                    excl = "landing-pad"
                elif kind == "direct" and tgt in PRECONDITION_CALLEES:
                    excl = "precondition"
                f.calls.append((kind, tgt, excl, bl))
                note_addr(line, skip_first_of=tgt if kind == "direct" else None)
    meta = {"vtables": vtables, "bases": bases, "static_inst": static_inst, "vt_tags": vt_tags}
    return funcs, addr_taken, problems, meta


# ---------------------------------------------------------------------------------------
# step 3: graph
# ---------------------------------------------------------------------------------------
def classify_external(name):
    """Returns ('forbidden', why) | ('whitelist', why) | ('intrinsic', why) | ('unknown', '')."""
    if name in FORBIDDEN_EXACT:
        return "forbidden", "allocator / lock / exception / stdio"
    for rx, why in FORBIDDEN_RE:
        if rx.search(name):
            return "forbidden", why
    if name in WHITELIST:
        return "whitelist", WHITELIST[name]
    if LIBM_OK.match(name):
        return "whitelist", "libm leaf"
    if name.startswith("llvm."):
        if INTRINSIC_OK.match(name):
            return "whitelist", "LLVM intrinsic (lowered to inline code or to memcpy/memset/memmove)"
        return "unknown", ""
    return "unknown", ""


def demangle(names):
    try:
        p = subprocess.run(["llvm-cxxfilt-14"], input="\n".join(names) + "\n", stdout=subprocess.PIPE, text=True)
        out = p.stdout.split("\n")
        if len(out) >= len(names):
            return dict(zip(names, out))
    except OSError:
        pass
    return {n: n for n in names}


class Graph:
    pass


SUPPORT_RE = re.compile(r"^_Z\d+rt_support_")


def build_graph(funcs, addr_taken, problems, meta=None):
    meta = meta or {"vtables": {}, "bases": {}, "static_inst": set(), "vt_tags": set()}
    g = Graph()
    names = list(funcs.keys()) + [PSEUDO_UNRESOLVED, PSEUDO_ASM, PSEUDO_UNPARSED, PSEUDO_ATOMIC]
    idx = {n: k for k, n in enumerate(names)}
    by_type = collections.defaultdict(list)
    for n in addr_taken:
        by_type[funcs[n].ftype].append(n)

    # ---- class hierarchy from the type infos / vtables of the module -------------------------------------
    vtables, bases = meta["vtables"], meta["bases"]
    dm_v = demangle(sorted(vtables))
    cls_of_vt = {}             # `_ZTVX` -> `ns::Class`
    vt_of_cls = {}
    for v in vtables:
        d = dm_v.get(v, v)
        if d.startswith("vtable for "):
            cls_of_vt[v] = d[len("vtable for "):]
            vt_of_cls.setdefault(cls_of_vt[v], v)
    derived = collections.defaultdict(set)      # mangled suffix -> direct derived classes (mangled suffix)
    for x, bs in bases.items():
        for y in bs:
            derived[y].add(x)

    def hierarchy(vt):
        """vtables of the class of `vt` and of every class derived from it (those that have a vtable in the module)"""
        out, stack, seen = [], [vt[4:]], set()
        while stack:
            x = stack.pop()
            if x in seen:
                continue
            seen.add(x)
            if "_ZTV" + x in vtables:
                out.append("_ZTV" + x)
            stack.extend(derived.get(x, ()))
        return out

    virtual_sites = []     # (src, class, slot, ftype)

    def resolve_virtual(tgt, inst):
        """candidates of a virtual call, or None when the class-aware resolution does not apply"""
        ftype, cls, slots = tgt
        vt = vt_of_cls.get(cls)
        if vt is None:
            return None
        hs = hierarchy(vt)
        cands_all, cands_inst = [], []
        for h in hs:
            tab = vtables[h]
            for slot in slots:
                if slot >= len(tab) or tab[slot] is None or tab[slot] not in idx:
                    return None
                cands_all.append(tab[slot])
                if h in inst:
                    cands_inst.append(tab[slot])
        # no instantiated class in the hierarchy (the application is expected to derive one): every override
        return sorted(set(cands_inst or cands_all)) or None

    def all_edges(inst):
        edges = set()
        excluded = []
        indirect_sites = []
        edge_kind = {}
        nvirt = 0
        for f in funcs.values():
            for kind, tgt, excl, bl in f.calls:
                if kind == "direct":
                    if tgt not in idx:
                        dsts = [PSEUDO_UNPARSED]
                    else:
                        dsts = [tgt]
                elif kind == "virtual":
                    cands = resolve_virtual(tgt, inst)
                    if cands is None:
                        cands = by_type.get(tgt[0], [])
                    else:
                        nvirt += 1
                    if not excl:
                        indirect_sites.append((f.name, "virtual %s slot %s : %s" % (tgt[1], "/".join(map(str, tgt[2])), tgt[0]), len(cands)))
                    dsts = list(cands) if cands else [PSEUDO_UNRESOLVED]
                elif kind == "indirect":
                    cands = by_type.get(tgt, [])
                    if not excl:
                        indirect_sites.append((f.name, tgt, len(cands)))
                    dsts = list(cands) if cands else [PSEUDO_UNRESOLVED]
                elif kind == "atomic":
                    dsts = [PSEUDO_ATOMIC]
                elif kind == "asm":
                    dsts = [PSEUDO_ASM]
                else:
                    dsts = [PSEUDO_UNPARSED]
                for d in dsts:
                    e = (idx[f.name], idx[d])
                    if excl:
                        excluded.append((f.name, d, excl if excl != "precondition" else "precondition: " + PRECONDITION_CALLEES[d]))
                    else:
                        edges.add(e)
                        edge_kind.setdefault(e, kind)
        return edges, excluded, indirect_sites, edge_kind, nvirt

    for f in funcs.values():
        for kind, tgt, excl, bl in f.calls:
            if kind == "direct" and tgt not in idx:
                problems.append("%s: direct call to unknown symbol %s" % (f.name, tgt))

    # entries
    ent = [n for n in funcs if funcs[n].defined and n.startswith(ENTRY_PREFIX) and not funcs[n].internal]
    missing_api = []
    for a in API_ENTRIES:
        if a in funcs and funcs[a].defined:
            ent.append(a)
        else:
            missing_api.append(a)
    g.entries = sorted(set(ent), key=lambda n: idx[n])
    g.missing_api = missing_api
    support = [n for n in funcs if funcs[n].defined and SUPPORT_RE.match(n)]

    def bfs(edges, roots):
        adj = collections.defaultdict(list)
        for a, b in sorted(edges):
            adj[a].append(b)
        parent = {}
        dq = collections.deque()
        for e in roots:
            if idx[e] not in parent:
                parent[idx[e]] = None
                dq.append(idx[e])
        while dq:
            x = dq.popleft()
            for y in adj[x]:
                if y not in parent:
                    parent[y] = x
                    dq.append(y)
        return parent, adj

    # ---- instantiated classes: fixpoint (rapid type analysis rooted at the entries + the harness support functions) ---
    inst = set(v for v in meta["static_inst"] if v in vtables)
    rounds = 0
    while True:
        rounds += 1
        edges, excluded, indirect_sites, edge_kind, nvirt = all_edges(inst)
        seen, _ = bfs(edges, g.entries + support)
        inst2 = set(inst)
        for x in seen:
            n = names[x]
            if n in funcs:
                inst2.update(v for v in funcs[n].vtrefs if v in vtables)
        if inst2 == inst or rounds > 50:
            break
        inst = inst2
    g.instantiated = sorted(cls_of_vt.get(v, v) for v in inst)
    g.classes = sorted(cls_of_vt.values())
    g.virtual_resolved = nvirt
    g.support = support

    g.names = names
    g.idx = idx
    g.edges = sorted(edges)
    g.edge_kind = edge_kind
    g.excluded = sorted(set(excluded))
    g.indirect_sites = indirect_sites
    g.funcs = funcs
    g.addr_taken = addr_taken
    g.problems = problems
    g.atomic_functions = [n for n in funcs if funcs[n].atomics]
    # classification
    g.externals = [n for n in names if n not in funcs or not funcs[n].defined]
    g.cls = {}
    for n in g.externals:
        if n in (PSEUDO_UNRESOLVED, PSEUDO_ASM, PSEUDO_UNPARSED):
            g.cls[n] = ("forbidden", "call the extractor cannot resolve")
        elif n == PSEUDO_ATOMIC:
            g.cls[n] = ("forbidden", "atomic read-modify-write instruction (atomicrmw / cmpxchg) inside a loop: a lock or a retry loop without a callee")
        else:
            g.cls[n] = classify_external(n)
    # a defined function with a forbidden name (e.g. a replaced operator new) stays forbidden
    g.forbidden = [n for n in names if (g.cls.get(n, ("", ""))[0] == "forbidden") or
                   (n in funcs and funcs[n].defined and classify_external(n)[0] == "forbidden")]
    g.whitelist = [n for n in g.externals if g.cls[n][0] == "whitelist"]
    # reachability (BFS, remembers parents for shortest paths)
    parent, adj = bfs(g.edges, g.entries)
    g.parent = parent
    g.reach = set(parent)
    g.cert = 0
    for x in g.reach:
        g.cert |= 1 << x
    g.adj = adj
    return g


def path_to(g, node):
    p = []
    x = node
    while x is not None:
        p.append(x)
        x = g.parent[x]
    return list(reversed(p))


def offending(g):
    """Reachable forbidden nodes and reachable unknown externals, each with its shortest path."""
    out = []
    dm = None
    bad_nodes = []
    for n in g.forbidden:
        if g.idx[n] in g.reach:
            bad_nodes.append((n, "forbidden: " + (g.cls.get(n) or classify_external(n))[1]))
    for n in g.externals:
        if g.cls[n][0] == "unknown" and g.idx[n] in g.reach:
            bad_nodes.append((n, "external function that is neither forbidden nor on the whitelist"))
    if not bad_nodes:
        return out
    allnames = set()
    paths = {}
    for n, why in bad_nodes:
        p = path_to(g, g.idx[n])
        paths[n] = p
        allnames.update(g.names[x] for x in p)
    dm = demangle(sorted(allnames))
    for n, why in sorted(bad_nodes, key=lambda t: len(paths[t[0]])):
        p = paths[n]
        steps = []
        for a, b in zip(p, p[1:]):
            steps.append("%s -> %s [%s]" % (dm[g.names[a]], dm[g.names[b]], g.edge_kind.get((a, b), "?")))
        out.append({"function": n, "demangled": dm[n], "why": why, "entry": g.names[p[0]], "entry_demangled": dm[g.names[p[0]]],
                    "path": [g.names[x] for x in p], "path_demangled": [dm[g.names[x]] for x in p], "steps": steps})
    return out


# ---------------------------------------------------------------------------------------
# step 4: Lean
# ---------------------------------------------------------------------------------------
def lean_str(s):
    return '"' + s.replace("\\", "\\\\").replace('"', '\\"') + '"'


def nat_list(xs, per=24):
    xs = list(xs)
    if not xs:
        return "[]"
    rows = [", ".join(str(x) for x in xs[i:i + per]) for i in range(0, len(xs), per)]
    return "[" + ",\n   ".join(rows) + "]"


def pair_list(ps, per=10):
    ps = list(ps)
    if not ps:
        return "[]"
    rows = [", ".join("(%d, %d)" % p for p in ps[i:i + per]) for i in range(0, len(ps), per)]
    return "[" + ",\n   ".join(rows) + "]"


def sample_path(g):
    """A longest shortest call path that starts at one of the harness entry points `rte::*`
    (documentation / non-vacuity witness)."""
    starts = ([g.idx[n] for n in g.entries if n.startswith(ENTRY_PREFIX) and "dispatch_loc" in n] or
              [g.idx[n] for n in g.entries])[:1]
    parent = {x: None for x in starts}
    depth = {x: 0 for x in starts}
    dq = collections.deque(starts)
    while dq:
        x = dq.popleft()
        for y in sorted(g.adj[x]):
            if y not in parent:
                parent[y] = x
                depth[y] = depth[x] + 1
                dq.append(y)
    if not depth:
        return []
    best = min(depth, key=lambda x: (-depth[x], x))
    p = []
    while best is not None:
        p.append(best)
        best = parent[best]
    return list(reversed(p))


def emit_lean(g, key, cfg):
    dm = demangle(g.names)
    ns = cfg["ns"]
    L = []
    L.append("/-")
    L.append("GENERATED by tools/callgraph.py from the LLVM IR of the working tree's realtime-path sources +")
    L.append("harness/rt_entries.cpp; configuration `%s` = %s." % (cfg["name"], cfg["what"]))
    L.append("Regenerated on every run of `tools/check.py C03`; the committed copy is the last good one.  Do not edit.")
    L.append("")
    L.append("nodes %d (defined %d, external %d, pseudo 4), edges %d, excluded edges %d, entries %d, forbidden %d," % (
        len(g.names), sum(1 for f in g.funcs.values() if f.defined), len(g.externals) - 4, len(g.edges), len(g.excluded),
        len(g.entries), len(g.forbidden)))
    L.append("whitelisted externals %d, reachable nodes %d, indirect call sites %d (virtual, resolved by class: %d)" % (
        len(g.whitelist), len(g.reach), len(g.indirect_sites), g.virtual_resolved))
    L.append("classes with a vtable: %s" % ", ".join(g.classes)[:600])
    L.append("instantiated (entries + harness support + static initialisers): %s" % ", ".join(g.instantiated)[:600])
    L.append("functions containing an atomic read-modify-write instruction in a loop: %s" % (", ".join(dm[n][:80] for n in g.atomic_functions)[:800] or "none"))
    L.append("-/")
    L.append("import RtoscModel.CallGraph.Reach")
    L.append("")
    L.append("namespace Rtosc.CallGraph.%s" % ns)
    L.append("")
    L.append("/-- number of nodes; node `i` is the function `nodeNames[i]` -/")
    L.append("def numNodes : Nat := %d" % len(g.names))
    L.append("")
    # names, chunked (a name = 1 followed by its bytes, as one base-256 number; `name! "..."` in Reach.lean)
    nchunks = []
    for c in range(0, len(g.names), 100):
        nm = "nodeNames%d" % (c // 100)
        nchunks.append(nm)
        L.append("def %s : List Nat := [" % nm)
        part = g.names[c:c + 100]
        for k, n in enumerate(part):
            tag = []
            i = c + k
            if i in g.reach:
                tag.append("R")
            if n in g.externals:
                tag.append("ext")
            comment = dm.get(n, n)
            if comment == n:
                comment = ""
            L.append("  -- %d%s %s%s" % (i, (" [" + ",".join(tag) + "]") if tag else "", n[:200],
                                        (" = " + comment[:150].replace("\n", " ")) if comment else ""))
            L.append("  0x01%s%s" % (n.encode().hex(), "," if k + 1 < len(part) else ""))
        L.append("]")
    L.append("/-- mangled names of the nodes, coded as numbers: `Props/C03.lean` pins the public realtime API (must be")
    L.append("    entries) and the allocator / lock names (must be forbidden) against this list -/")
    L.append("def nodeNames : List Nat := " + " ++ ".join(nchunks))
    L.append("")
    # edges
    echunks = []
    for c in range(0, max(1, len(g.edges)), CHUNK):
        nm = "edgeChunk%d" % (c // CHUNK)
        echunks.append(nm)
        L.append("def %s : List (Nat × Nat) :=\n  %s" % (nm, pair_list(g.edges[c:c + CHUNK])))
    L.append("/-- the call edges (caller, callee), in chunks of %d -/" % CHUNK)
    L.append("def edgeChunks : List (List (Nat × Nat)) := [" + ", ".join(echunks) + "]")
    L.append("")
    L.append("/-- realtime entry points -/")
    L.append("def entries : List Nat :=\n  " + nat_list(g.idx[n] for n in g.entries))
    for n in g.entries:
        L.append("-- entry %d %s" % (g.idx[n], dm[n][:160]))
    L.append("")
    L.append("/-- functions that allocate, free, lock, throw or block, the pseudo nodes for unresolvable calls and the pseudo")
    L.append("    node for atomic read-modify-write instructions inside a loop -/")
    L.append("def forbidden : List Nat :=\n  " + nat_list(g.idx[n] for n in g.forbidden))
    for n in g.forbidden:
        L.append("-- forbidden %d %s" % (g.idx[n], dm[n][:160]))
    L.append("")
    L.append("/-- nodes without a body in the module -/")
    L.append("def externals : List Nat :=\n  " + nat_list(g.idx[n] for n in g.externals))
    L.append("")
    L.append("/-- ASSUMPTION: external leaves assumed not to allocate, lock or throw -/")
    L.append("def whitelist : List Nat :=\n  " + nat_list(g.idx[n] for n in g.whitelist))
    for n in g.whitelist:
        L.append("-- whitelist %d %s : %s" % (g.idx[n], n, g.cls[n][1]))
    L.append("")
    L.append("/-- STATED PRECONDITIONS: call edges left out of `edgeChunks` (caller, callee):")
    L.append("    calls to std::__throw_bad_function_call / __assert_fail, and calls in basic blocks that are only")
    L.append("    reachable through an `unwind` edge (exception landing pads and catch handlers).  The theorem has the")
    L.append("    hypothesis that none of them is executed. -/")
    L.append("def excludedEdges : List (Nat × Nat) :=\n  " + pair_list(sorted(set((g.idx[a], g.idx[b]) for a, b, _ in g.excluded))))
    seen = set()
    for a, b, why in g.excluded:
        if (a, b) in seen:
            continue
        seen.add((a, b))
        L.append("-- excluded %s -> %s (%s)" % (dm[a][:90], dm[b][:90], why[:60]))
    L.append("")
    sp = sample_path(g)
    L.append("/-- a longest shortest call path from an entry (non-vacuity witness) -/")
    L.append("def samplePath : List Nat := " + nat_list(sp))
    for x in sp:
        L.append("-- path %d %s" % (x, dm[g.names[x]][:160]))
    L.append("")
    L.append("/-- CERTIFICATE: bit mask of the nodes reachable from the entries, computed by the translator -/")
    L.append("def cert : Nat := 0x%x" % g.cert)
    L.append("")
    L.append("/-- the generated call graph of configuration `%s` -/" % cfg["name"])
    L.append("def graph : Graph :=")
    L.append("  { numNodes := numNodes, nodeNames := nodeNames, edgeChunks := edgeChunks, entries := entries,")
    L.append("    forbidden := forbidden, externals := externals, whitelist := whitelist, excludedEdges := excludedEdges,")
    L.append("    samplePath := samplePath, cert := cert }")
    L.append("")
    L.append("end Rtosc.CallGraph.%s" % ns)
    return "\n".join(L) + "\n"


def translate_one(cfg, write=True):
    ll, key, how = build_ir(cfg)
    funcs, addr_taken, problems, meta = parse_module(ll)
    g = build_graph(funcs, addr_taken, problems, meta)
    g.cfg = cfg
    src = emit_lean(g, key, cfg)
    gen = os.path.join(GEN_DIR, cfg["file"])
    changed = False
    if write:
        old = open(gen).read() if os.path.exists(gen) else None
        if old != src:
            os.makedirs(os.path.dirname(gen), exist_ok=True)
            with open(gen + ".tmp", "w") as f:
                f.write(src)
            os.rename(gen + ".tmp", gen)
            changed = True
    try:
        skipped = json.load(open(os.path.join(os.path.dirname(ll), "skipped.json")))
    except (OSError, ValueError):
        skipped = []
    info = {"config": cfg["name"], "what": cfg["what"], "lean_module": "RtoscModel.CallGraph." + cfg["file"][:-5],
            "ir": how, "ir_key": key, "nodes": len(g.names), "defined": sum(1 for f in funcs.values() if f.defined),
            "edges": len(g.edges), "excluded_edges": len(g.excluded), "entries": len(g.entries),
            "forbidden": len(g.forbidden), "reachable": len(g.reach), "indirect_sites": len(g.indirect_sites),
            "virtual_sites_resolved_by_class": g.virtual_resolved, "classes_instantiated": g.instantiated,
            "functions_with_atomic_rmw": len(g.atomic_functions), "other_units_not_compiled": skipped,
            "generated_changed": changed, "parse_problems": problems[:20], "missing_api_entries": g.missing_api,
            "sha256_generated": hashlib.sha256(src.encode()).hexdigest()[:16]}
    return g, info


def translate(write=True):
    """Runs the whole translator for every configuration.  Returns [(graph, info dict)]."""
    import concurrent.futures
    cfgs = configs()
    with concurrent.futures.ThreadPoolExecutor(max_workers=len(cfgs)) as ex:
        futs = [ex.submit(build_ir, c) for c in cfgs]     # compile the configurations side by side
        for f in futs:
            f.result()
    return [translate_one(c, write) for c in cfgs]


if __name__ == "__main__":
    for g, info in translate(write="--dry" not in sys.argv):
        print(json.dumps(info, indent=1))
        dm = demangle(g.names)
        if "--reach" in sys.argv:
            for x in sorted(g.reach):
                n = g.names[x]
                print("%4d %s %s" % (x, "ext" if n in g.externals else "   ", dm[n][:150]))
        if "--indirect" in sys.argv:
            for s_, t, c in g.indirect_sites:
                if g.idx[s_] in g.reach:
                    print("indirect in %s : %s -> %d candidates" % (dm[s_][:80], t, c))
        for o in offending(g):
            print("OFFENDING %s (%s)" % (o["demangled"], o["why"]))
            for st in o["steps"]:
                print("    " + st)
