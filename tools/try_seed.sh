#!/bin/bash
# usage: try_seed.sh <Cnn> <dir with patch.diff run.sh> [check tier]
# Confirms a seeded change in a scratch worktree: applies, builds, runs the repo's test-suite,
# runs the demonstration on the changed and on the unchanged tree, then runs our check against
# the changed tree.  Prints a one-line summary.  Removes the worktree afterwards.
set -u
P=$1; D=$(readlink -f $2); TIER=${3:-quick}
WT=/tmp/try-$P-$$
# (several of these run at once: `git worktree add` takes a lock, so a loser of that race tries again)
for try in 1 2 3 4 5 6; do git -C /repo worktree add --detach $WT HEAD >/dev/null 2>&1 && break; sleep $((try * 2)); done
[ -d $WT ] || { echo "SEED $P $D: could not create a scratch worktree"; exit 3; }
cleanup() { git -C /repo worktree remove --force $WT >/dev/null 2>&1; rm -rf /tmp/trybuild-$P-$$ /tmp/try-$P-$$-*.log /tmp/try-$P-$$-apply.err; }
trap cleanup EXIT
cd $WT
if ! git apply $D/patch.diff 2>/tmp/try-$P-$$-apply.err; then
  if ! git apply -3 $D/patch.diff 2>>/tmp/try-$P-$$-apply.err && ! patch -p1 < $D/patch.diff >>/tmp/try-$P-$$-apply.err 2>&1; then
    echo "SEED $P $D: patch does not apply"; exit 4; fi
fi
cmake -G Ninja -B _build -S . >/dev/null 2>&1 && cmake --build _build >/tmp/try-$P-$$-build.log 2>&1
if [ $? -ne 0 ]; then echo "SEED $P $D: does not compile"; exit 5; fi
ctest --test-dir _build -j8 --timeout 900 >/tmp/try-$P-$$-ctest.log 2>&1; CT=$?
TESTS=$(grep -c "Passed" /tmp/try-$P-$$-ctest.log)
bash $D/run.sh $WT >/tmp/try-$P-$$-demo-mut.log 2>&1; DM=$?
# unchanged tree: /repo/_build must be current
( cd /repo && cmake --build _build >/dev/null 2>&1 )
bash $D/run.sh /repo >/tmp/try-$P-$$-demo-clean.log 2>&1; DC=$?
cd /verif
VERIF_REPO=$WT VERIF_BUILD=/tmp/trybuild-$P-$$ python3 tools/check.py $P --tier $TIER >/tmp/try-$P-$$-check.log 2>&1; CK=$?
V=$(grep -m1 "^VIOLATION" /tmp/try-$P-$$-check.log)
echo "SEED $P $(basename $(dirname $D))/$(basename $D): ctest_rc=$CT passed=$TESTS demo_mut_rc=$DM demo_clean_rc=$DC check_rc=$CK ${V:-no-violation-line}"
