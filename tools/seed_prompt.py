#!/usr/bin/env python3
"""Prints the prompt handed to a fresh seeding sub-agent for one property (the agent gets only the
property's text and a scratch worktree; nothing from /verif)."""
import json, sys, subprocess, os
pid = sys.argv[1]
n = int(sys.argv[2]) if len(sys.argv) > 2 else 3
ROUND2 = len(sys.argv) > 3 and sys.argv[3] == "round2"
for l in open(os.path.join(os.path.dirname(os.path.dirname(os.path.abspath(__file__))), "properties.jsonl")):
    p = json.loads(l)
    if p["id"] == pid:
        break
wt = "/tmp/seed-%s" % pid
out = "/tmp/seed-%s-out" % pid
if not os.path.exists(wt):
    subprocess.run(["git", "-C", "/repo", "worktree", "add", "--detach", wt, "HEAD"], check=True, stdout=subprocess.DEVNULL, stderr=subprocess.DEVNULL)
os.makedirs(out, exist_ok=True)
mech = "\n".join("  - %s (%s)" % (m["name"], m.get("where", "")) for m in p["anchors"]["mechanism"])
print(f"""You are testing how well a property of a C/C++ library can be defended. The library is `rtosc` (realtime-safe OSC messaging library: message serialization, path-pattern dispatch through port trees, pretty-printing/scanning of arguments, savefiles). You have your own scratch git worktree of it at {wt} (work ONLY there and in {out}; do not look at or touch /verif or /repo, and do not read other /tmp/seed-* or /tmp/wt-* directories).

The property (id {pid}, "{p['title']}"):

"{p['statement']}"

Quantified over: {p['quantifier']['text']}
Why the existing tests cannot settle it: {p['why_tests_cant']}
Code anchors: files {', '.join(p['anchors']['files'])}; mechanisms:
{mech}
Observed at: {'; '.join(p['anchors'].get('observe_at', []))}

Your job: produce {n} different, independent changes to the library source (files under src/ or include/ only), each of which
 (a) breaks the property above for some inputs / histories / schedules,
 (b) still compiles, and the library's existing test-suite still passes with it: `cd {wt} && cmake -G Ninja -B _build -S . >/dev/null && cmake --build _build >/dev/null && ctest --test-dir _build -j8 --timeout 900` (31 tests; all pass on the unchanged tree),
 (c) is realistic — the kind of slip, refactoring error or "optimisation" a maintainer could make (an off-by-one, a wrong comparison, a dropped branch or special case, a reordered pair of statements, a mishandled boundary) — and needs something specific to manifest: a particular interleaving, a multi-step sequence of operations, an unusual or boundary input, or two cooperating sites that each look fine alone; NOT something any ordinary use would expose at once. Make the {n} changes different in kind and located in different functions where possible.
 (d) comes with a small demonstration (a C or C++ program using the library's public API, or its internals via #include of the .cpp file if unavoidable) that exits non-zero / fails an assert with the change and exits 0 without it.

For each change i = 1..{n} write into {out}/<i>/: `patch.diff` (output of `git diff` in the worktree; must apply cleanly to the unchanged tree with `git apply`), `demo.cpp` (or demo.c), `run.sh` (usage: `run.sh <tree>`; builds the demo against the library built in <tree>/_build — link `<tree>/_build/librtosc-cpp.a` and `<tree>/_build/librtosc.a`, include `<tree>/include` — and runs it; exit status = the demo's), `meta.json` ({{"property":"{pid}","what_it_breaks":"…","needs_to_manifest":"…","verified":"the commands you ran and their outcome"}}). Verify (b) and (d) yourself for each change, one at a time (demo fails with the change, passes on the unchanged tree), and reset the worktree between changes (`git -C {wt} checkout -- .`). Leave the worktree clean at the end and delete its _build directory. Do not commit anything.

Report the {n} changes briefly (one paragraph each) in your final message.""" + ("""

Additional guidance for this round: the most obvious single-line slips in the main loops of the anchored functions (a flipped comparison, an off-by-one in the central loop bound) have already been tried by someone else. Look for less obvious ones: helper functions the anchors rely on, rarely taken branches, boundary handling (empty, maximal, exactly-full, wrap-around), integer width and signedness, state that persists between calls, clean-up after an error path, and pairs of sites that must stay consistent with each other.""" if ROUND2 else ""))
