#!/usr/bin/env python3
"""Rebuilds seeded/REVALIDATION.log from the `revalidated` field of every seed's meta.json (so that a partial
re-validation run keeps the lines of the other seeds)."""
import glob
import json
import os

ROOT = os.path.join(os.path.dirname(os.path.dirname(os.path.abspath(__file__))), "seeded")
rows = []
for mp in sorted(glob.glob(os.path.join(ROOT, "*", "meta.json"))):
    m = json.load(open(mp))
    s = mp.split("/")[-2]
    r = m.get("revalidated", {})
    if not r:       # kept after the last sweep: the confirmation run of tools/process_seeds.sh is its record
        r = {"repo_head": "kept", "outcome": m.get("confirmed_by_coordinator", {}).get("outcome", "(not revalidated)")}
    rows.append("%s %s %s%s" % (r.get("repo_head", "-"), s, r.get("outcome", "(not revalidated)"),
                                ("  [obsolete: " + m["obsolete"][:90] + "...]") if m.get("obsolete") else ""))
with open(os.path.join(ROOT, "REVALIDATION.log"), "w") as f:
    f.write("# <repo HEAD at revalidation> <seed> <outcome of tools/try_seed.sh>; written from seeded/*/meta.json "
            "'revalidated' (tools/revalidate_seeds.sh, tools/seed_log.py)\n" + "\n".join(rows) + "\n")
bad = [r for r in rows if "check_rc=1 VIOLATION" not in r]
print(len(rows), "seeds,", len(rows) - len(bad), "detected at their last revalidation")
for r in bad:
    print("  not detected:", r[:170])
