"""Common machinery for all property checks (see DESIGN.md section 2.4/2.5).

A property module (tools/props/cNN.py) supplies the property-specific parts:
  PROP, ENGINE, LEAN_MODULES, THEOREMS, HARNESS, generate(), oracle(), nontrivial(),
  optional known(), RULE, ASSUMPTIONS, TRUSTED, optional translators.
This file supplies: building the Lean project and auditing it, building the
implementation harness from /repo's working tree, running both over the same op
lines, diffing, verdict logic, replay files, evidence files.
"""
import fcntl
import hashlib
import json
import os
import random
import re
import shutil
import subprocess
import sys
import time

VERIF = os.path.dirname(os.path.dirname(os.path.abspath(__file__)))
REPO = os.environ.get("VERIF_REPO", "/repo")
LEAN = os.path.join(VERIF, "lean")
BUILD = os.environ.get("VERIF_BUILD", os.path.join(VERIF, "build"))
# evidence/ and replays/ of /verif are only written by runs against /repo itself; a run against another tree
# (VERIF_REPO=<scratch worktree>: seeded changes, candidate fixes) writes them under its build directory, so that
# the committed evidence can never come from a mutated tree
_OWN = os.path.realpath(REPO) == "/repo"
REPLAYS = os.environ.get("VERIF_REPLAYS") or (os.path.join(VERIF, "replays") if _OWN else os.path.join(BUILD, "replays"))
EVID = os.environ.get("VERIF_EVIDENCE") or (os.path.join(VERIF, "evidence") if _OWN else os.path.join(BUILD, "evidence"))
NCPU = os.cpu_count() or 4

ALLOWED_AXIOMS = {"propext", "Classical.choice", "Quot.sound"}

LIB_C = ["src/rtosc.c", "src/dispatch.c", "src/rtosc-time.c", "src/cpp/pretty-format.c",
         "src/cpp/arg-ext.c", "src/cpp/arg-val.c", "src/cpp/arg-val-math.c",
         "src/cpp/arg-val-cmp.c", "src/cpp/arg-val-itr.c", "src/cpp/util.c"]
LIB_CXX = ["src/cpp/ports.cpp", "src/cpp/ports-runtime.cpp", "src/cpp/default-value.cpp",
           "src/cpp/savefile.cpp", "src/cpp/miditable.cpp", "src/cpp/automations.cpp",
           "src/cpp/midimapper.cpp", "src/cpp/thread-link.cpp", "src/cpp/undo-history.cpp",
           "src/cpp/subtree-serialize.cpp"]
SAN = ["-O1", "-g", "-fsanitize=address,undefined", "-fno-sanitize=shift",
       "-fno-sanitize-recover=all", "-fno-omit-frame-pointer", "-DNDEBUG", "-DRTOSC_VERIF"]
PLAIN = ["-O1", "-g", "-DNDEBUG", "-DRTOSC_VERIF"]


def log(*a):
    print(*a, file=sys.stderr, flush=True)


def sh(cmd, **kw):
    kw.setdefault("stdout", subprocess.PIPE)
    kw.setdefault("stderr", subprocess.STDOUT)
    kw.setdefault("text", True)
    return subprocess.run(cmd, **kw)


class Lock:
    def __init__(self, name):
        os.makedirs(BUILD, exist_ok=True)
        self.path = os.path.join(BUILD, name + ".lock")

    def __enter__(self):
        self.f = open(self.path, "w")
        fcntl.flock(self.f, fcntl.LOCK_EX)
        return self

    def __exit__(self, *a):
        fcntl.flock(self.f, fcntl.LOCK_UN)
        self.f.close()


def sha_files(paths, extra=""):
    h = hashlib.sha256()
    h.update(extra.encode())
    for p in sorted(paths):
        h.update(p.encode())
        try:
            with open(p, "rb") as f:
                h.update(f.read())
        except OSError:
            h.update(b"<missing>")
    return h.hexdigest()[:20]


def repo_files():
    out = []
    for d in ("src", "include"):
        for root, _, fs in os.walk(os.path.join(REPO, d)):
            for f in fs:
                out.append(os.path.join(root, f))
    out.append(os.path.join(REPO, "CMakeLists.txt"))
    return out


# ---------------------------------------------------------------------------------
# implementation side
# ---------------------------------------------------------------------------------
def version_c(dst):
    src = open(os.path.join(REPO, "src/cpp/version.c.in")).read()
    cm = open(os.path.join(REPO, "CMakeLists.txt")).read()
    for k in ("VERSION_MAJOR", "VERSION_MINOR", "VERSION_PATCH"):
        m = re.search(r"set\(%s\s+(\d+)\)" % k, cm)
        src = src.replace("${%s}" % k, m.group(1) if m else "0")
    with open(dst, "w") as f:
        f.write(src)


def build_lib(flavour="san"):
    """Compile every library source of the working tree into objects; returns
    (objdir, {relative source: object path}, build log).  Cached by content hash."""
    flags = SAN if flavour == "san" else PLAIN
    key = sha_files(repo_files(), " ".join(flags))
    objdir = os.path.join(BUILD, "lib-%s-%s" % (flavour, key))
    with Lock("lib-" + flavour):
        stamp = os.path.join(objdir, "OK")
        objs = {}
        for s in LIB_C + LIB_CXX + ["version.c"]:
            objs[s] = os.path.join(objdir, s.replace("/", "_") + ".o")
        if os.path.exists(stamp):
            return objdir, objs, "cached"
        # drop older caches of this flavour (disk space)
        for d in os.listdir(BUILD):
            if d.startswith("lib-%s-" % flavour):
                shutil.rmtree(os.path.join(BUILD, d), ignore_errors=True)
        os.makedirs(objdir, exist_ok=True)
        version_c(os.path.join(objdir, "version.c"))
        procs = []
        inc = ["-I", os.path.join(REPO, "include"), "-I", os.path.join(REPO, "src/cpp")]
        for s in LIB_C + ["version.c"]:
            src = os.path.join(objdir, s) if s == "version.c" else os.path.join(REPO, s)
            procs.append((s, subprocess.Popen(["gcc", "-std=gnu99", "-c", src, "-o", objs[s]] + flags + inc,
                                              stdout=subprocess.PIPE, stderr=subprocess.STDOUT, text=True)))
        for s in LIB_CXX:
            procs.append((s, subprocess.Popen(["g++", "-std=c++11", "-c", os.path.join(REPO, s), "-o", objs[s]] + flags + inc,
                                              stdout=subprocess.PIPE, stderr=subprocess.STDOUT, text=True)))
        logtxt = ""
        ok = True
        for s, p in procs:
            out, _ = p.communicate()
            if p.returncode != 0:
                ok = False
                logtxt += "== %s\n%s\n" % (s, out)
        if not ok:
            raise BuildError("library does not compile:\n" + logtxt[-4000:])
        open(stamp, "w").write("ok")
        return objdir, objs, "built"


class BuildError(Exception):
    pass


def build_harness(name, spec, flavour="san"):
    """spec: {"src": [harness files relative to /verif/harness], "exclude": [lib sources
    whose objects must not be linked because the harness #includes them],
    "cxxflags": [...], "libs": [...]}.  Returns path of the executable."""
    objdir, objs, _ = build_lib(flavour)
    flags = (SAN if flavour == "san" else PLAIN) + spec.get("cxxflags", [])
    hsrc = [os.path.join(VERIF, "harness", s) for s in spec["src"]]
    hdeps = hsrc + [os.path.join(VERIF, "harness", d) for d in spec.get("deps", ["common.h"])]
    key = sha_files(hdeps + repo_files(), " ".join(flags) + name)
    exe = os.path.join(BUILD, "h-%s-%s" % (name, key))
    with Lock("h-" + name):
        if os.path.exists(exe):
            return exe
        for f in os.listdir(BUILD):
            if f.startswith("h-%s-" % name) and not f.endswith(".lock"):
                try:
                    os.remove(os.path.join(BUILD, f))
                except OSError:
                    pass
        link = [o for s, o in objs.items() if s not in spec.get("exclude", [])]
        inc = ["-I", os.path.join(REPO, "include"), "-I", os.path.join(REPO, "src/cpp"),
               "-I", os.path.join(REPO, "src"), "-I", os.path.join(VERIF, "harness")]
        cmd = ["g++", "-std=c++11"] + flags + inc + hsrc + link + ["-o", exe + ".tmp", "-lpthread"] + spec.get("libs", [])
        r = sh(cmd)
        if r.returncode != 0:
            raise BuildError("harness %s does not compile:\n%s" % (name, r.stdout[-6000:]))
        os.rename(exe + ".tmp", exe)
        return exe


HENV = dict(os.environ, ASAN_OPTIONS="detect_leaks=0:abort_on_error=0:exitcode=99:allocator_may_return_null=1",
            UBSAN_OPTIONS="print_stacktrace=1:halt_on_error=1:exitcode=98", TZ="UTC", LC_ALL="C")


def _harness_once(exe, ops, workdir, tag, extra_args, tmo):
    opf = os.path.join(workdir, "%s.ops.%d" % (tag, os.getpid()))
    with open(opf, "w") as f:
        f.write("\n".join(ops) + "\n")
    timed_out = False
    try:
        p = subprocess.run([exe, opf] + list(extra_args), stdout=subprocess.PIPE, stderr=subprocess.PIPE,
                           text=True, env=HENV, errors="replace", timeout=tmo)
        out, err, rc = p.stdout, p.stderr, p.returncode
    except subprocess.TimeoutExpired as te:
        out = te.stdout if isinstance(te.stdout, str) else (te.stdout or b"").decode("utf-8", "replace")
        err, rc, timed_out = "timeout", -14, True
    os.remove(opf)
    got = out.split("\n")
    if got and got[-1] == "":
        got.pop()
    return got, err, rc, timed_out


def run_harness(exe, ops, workdir, tag, extra_args=()):
    """Runs the harness over the op lines.  The harness prints exactly one output line
    per op line (flushed).  If it dies (sanitizer abort, signal) on line k, the output
    of line k becomes `crash:<kind>` and the harness is restarted on the remaining
    lines.  Returns list of output lines (len == len(ops)).

    Wall-clock limit: a batch gets max(120 s, sec_per_op * lines); when the limit strikes, the line the
    harness was working on is re-run ALONE with a generous limit before anything is concluded: only a line
    that does not finish on its own is reported as a hang (`crash:timeout`); a batch that was merely slow
    (machine under load, expensive ops) is continued with a doubled allowance.  (A slow batch used to be
    reported as `crash:signal:14` on its next line — a false alarm of the runner found by the C13 review.)"""
    outs = []
    start = 0
    crashes = 0
    scale = 1.0
    per_op = float(os.environ.get("VERIF_SEC_PER_OP", "0.05"))
    single = float(os.environ.get("VERIF_SINGLE_OP_TIMEOUT", "300"))
    while start < len(ops):
        tmo = float(os.environ.get("VERIF_HARNESS_TIMEOUT", "0")) or scale * max(120.0, per_op * (len(ops) - start))
        got, err, rc, timed_out = _harness_once(exe, ops[start:], workdir, tag, extra_args, tmo)
        if rc == 0 and len(got) == len(ops) - start:
            outs.extend(got)
            break
        # died on line start+len(got) (or printed a partial line)
        k = len(got)
        if rc == 0:
            raise RuntimeError("harness %s printed %d lines for %d ops" % (exe, len(got), len(ops) - start))
        if k > len(ops) - start - 1:
            k = len(ops) - start - 1
            got = got[:k]
        if timed_out:
            g1, e1, rc1, to1 = _harness_once(exe, [ops[start + k]], workdir, tag + "-single", extra_args, single)
            if rc1 == 0 and len(g1) == 1:
                # the line is fine on its own: the batch was slow, not hanging
                outs.extend(got)
                outs.append(g1[0])
                start += k + 1
                scale *= 2.0
                continue
            if to1:
                kind = "timeout"
            else:
                err, rc = e1, rc1
        if not (timed_out and rc == -14):
            kind = "signal"
            m = re.search(r"ERROR: AddressSanitizer: ([a-zA-Z0-9_-]+)", err)
            if m:
                kind = "asan:" + m.group(1)
            elif "runtime error:" in err:
                m = re.search(r"runtime error: ([^\n]{0,80})", err)
                kind = "ubsan:" + re.sub(r"[^a-zA-Z0-9]+", "_", m.group(1))[:60]
            elif rc < 0:
                kind = "signal:%d" % (-rc)
            else:
                kind = "exit:%d" % rc
        outs.extend(got)
        outs.append("crash:" + kind)
        crashes += 1
        start += k + 1
        if crashes > 200:
            # crash flood: do not restart any more; every remaining line is reported as such
            outs.extend(["crash:flood"] * (len(ops) - len(outs)))
            break
    return outs


# ---------------------------------------------------------------------------------
# Lean side
# ---------------------------------------------------------------------------------
FORBIDDEN = re.compile(r"\bsorry\b|\badmit\b|^\s*axiom\s|native_decide|bv_decide|implemented_by|\bunsafe\s|maxHeartbeats\s+0\b")


def strip_lean_comments(src):
    out = []
    i = 0
    depth = 0
    n = len(src)
    while i < n:
        if src.startswith("/-", i):
            depth += 1
            i += 2
        elif depth and src.startswith("-/", i):
            depth -= 1
            i += 2
        elif depth:
            if src[i] == "\n":
                out.append("\n")
            i += 1
        elif src.startswith("--", i):
            while i < n and src[i] != "\n":
                i += 1
        elif src[i] == '"':
            j = i + 1
            while j < n and src[j] != '"':
                j += 2 if src[j] == "\\" else 1
            out.append('""')
            i = j + 1
        else:
            out.append(src[i])
            i += 1
    return "".join(out)


def import_closure(modules):
    """Files of the lake project reachable from `modules` through `import` lines."""
    seen = {}
    todo = list(modules)
    while todo:
        m = todo.pop()
        if m in seen:
            continue
        path = os.path.join(LEAN, *m.split(".")) + ".lean"
        if not os.path.exists(path):
            continue
        seen[m] = path
        for line in strip_lean_comments(open(path).read()).split("\n"):
            mm = re.match(r"\s*(?:public\s+)?import\s+((?:RtoscModel|Driver)[A-Za-z0-9_.]*)", line)
            if mm:
                todo.append(mm.group(1))
    return seen


def textual_audit(modules):
    """No sorry/admit/axiom/native_decide/... in any file the property's theorems depend on."""
    bad = []
    for m, p in sorted(import_closure(modules).items()):
        code = strip_lean_comments(open(p).read())
        for ln, line in enumerate(code.split("\n"), 1):
            if FORBIDDEN.search(line):
                bad.append("%s:%d: %s" % (os.path.relpath(p, LEAN), ln, line.strip()[:100]))
    return bad


def lake_build(targets):
    with Lock("lake"):
        t0 = time.time()
        r = sh(["lake", "build"] + targets, cwd=LEAN)
        return r.returncode == 0, r.stdout, time.time() - t0


def axiom_audit(modules, theorems, tag):
    """Returns {theorem: set(axioms) | None if the theorem does not exist}."""
    os.makedirs(BUILD, exist_ok=True)
    f = os.path.join(BUILD, "Audit_%s.lean" % tag)
    with open(f, "w") as fh:
        for m in modules:
            fh.write("import %s\n" % m)
        for t in theorems:
            fh.write("#print axioms %s\n" % t)
    r = sh(["lake", "env", "lean", f], cwd=LEAN)
    res = {t: None for t in theorems}
    txt = r.stdout
    for t in theorems:
        m = re.search(r"'%s' depends on axioms: \[([^\]]*)\]" % re.escape(t), txt, re.S)
        if m:
            res[t] = set(x.strip() for x in m.group(1).replace("\n", " ").split(",") if x.strip())
        elif re.search(r"'%s' does not depend on any axioms" % re.escape(t), txt):
            res[t] = set()
    return res, txt


def driver_path(engine):
    return os.path.join(LEAN, ".lake", "build", "bin", "drv_" + engine)


def run_driver(engine, ops, workdir, tag, nproc=1):
    """Pipe op lines through the compiled model.  Stateless engines may be split over
    several processes (nproc > 1)."""
    exe = driver_path(engine)
    if nproc <= 1 or len(ops) < 2000:
        p = subprocess.run([exe], input="\n".join(ops) + "\n", stdout=subprocess.PIPE,
                           stderr=subprocess.PIPE, text=True)
        if p.returncode != 0:
            raise RuntimeError("driver failed: " + p.stderr[-2000:])
        got = p.stdout.split("\n")
        if got and got[-1] == "":
            got.pop()
        return got
    chunks = []
    per = (len(ops) + nproc - 1) // nproc
    procs = []
    for i in range(0, len(ops), per):
        part = ops[i:i + per]
        fn = os.path.join(workdir, "%s.drv.%d" % (tag, i))
        with open(fn, "w") as f:
            f.write("\n".join(part) + "\n")
        # output goes to a file: a pipe would fill up and serialise the processes
        fo = open(fn + ".out", "w")
        procs.append((fn, len(part), fo, subprocess.Popen([exe], stdin=open(fn), stdout=fo,
                                                          stderr=subprocess.PIPE, text=True)))
    for fn, n, fo, p in procs:
        _, err = p.communicate()
        fo.close()
        out = open(fn + ".out").read()
        os.remove(fn)
        os.remove(fn + ".out")
        if p.returncode != 0:
            raise RuntimeError("driver failed: " + err[-2000:])
        got = out.split("\n")
        if got and got[-1] == "":
            got.pop()
        if len(got) != n:
            raise RuntimeError("driver printed %d lines for %d ops" % (len(got), n))
        chunks.extend(got)
    return chunks


# ---------------------------------------------------------------------------------
# known findings
# ---------------------------------------------------------------------------------
def load_known(prop):
    """Committed known findings: known_findings.json (consolidated) and known_findings.d/*.json.
    Never written at run time."""
    files = [os.path.join(VERIF, "known_findings.json")]
    d = os.path.join(VERIF, "known_findings.d")
    if os.path.isdir(d):
        files += sorted(os.path.join(d, f) for f in os.listdir(d) if f.endswith(".json"))
    out = []
    seen = set()
    for p in files:
        if not os.path.exists(p):
            continue
        data = json.load(open(p))
        for e in data.get("findings", []):
            if e.get("property") == prop and e.get("status") == "known" and e.get("id") not in seen:
                seen.add(e.get("id"))
                out.append(e)
    return out


# ---------------------------------------------------------------------------------
# the run
# ---------------------------------------------------------------------------------
class Result:
    def __init__(self):
        self.violations = []      # (kind, replay path, text)
        self.known = {}           # finding id -> count
        self.notes = []


def write_replay(prop, kind, payload):
    os.makedirs(REPLAYS, exist_ok=True)
    h = hashlib.sha256(json.dumps(payload, sort_keys=True).encode()).hexdigest()[:10]
    path = os.path.join(REPLAYS, "%s_%s_%s.json" % (prop, kind, h))
    with open(path, "w") as f:
        json.dump(payload, f, indent=1)
    return path


def main(mod, argv):
    import argparse
    ap = argparse.ArgumentParser()
    ap.add_argument("--tier", default=os.environ.get("VERIF_TIER", "quick"), choices=["quick", "thorough"])
    ap.add_argument("--replay")
    ap.add_argument("--seed", type=int, default=int(os.environ.get("VERIF_SEED", "1")))
    ap.add_argument("--keep", action="store_true")
    args = ap.parse_args(argv)
    t0 = time.time()
    prop = mod.PROP
    os.makedirs(BUILD, exist_ok=True)
    os.makedirs(EVID, exist_ok=True)
    workdir = os.path.join(BUILD, "run-%s-%d" % (prop, os.getpid()))
    os.makedirs(workdir, exist_ok=True)
    try:
        rc = _run(mod, args, workdir, t0)
    finally:
        if not args.keep:
            shutil.rmtree(workdir, ignore_errors=True)
    return rc


def _run(mod, args, workdir, t0):
    prop = mod.PROP
    tier = args.tier
    seed = args.seed
    res = Result()
    cov = {}
    trusted = ["Lean 4.33.0 kernel", "correspondence harness + generators + diff (tools/, harness/)",
               "g++ 12 / ASan / UBSan / glibc of this image"] + list(getattr(mod, "TRUSTED", []))

    # ---- 0. translators (regenerate Generated*.lean from the source) ----------------
    trans_notes = []
    for tr in getattr(mod, "TRANSLATORS", []):
        try:
            trans_notes.append(tr())
        except Exception as e:  # shape changed: fall back to committed file, say so
            trans_notes.append("translator %s failed: %s (committed last-good file used)" % (getattr(tr, "__name__", "?"), e))
    if trans_notes:
        cov["translator"] = trans_notes

    # ---- 1. proofs ------------------------------------------------------------------
    theorems = list(mod.THEOREMS)
    modules = list(mod.LEAN_MODULES)
    ok, out, dt = lake_build(modules + ["drv_" + mod.ENGINE])
    cov["lake_build_s"] = round(dt, 1)
    broken = []          # names of obligations that no longer check
    build_log_tail = ""
    if not ok:
        build_log_tail = out[-3000:]
        # which modules fail?
        for m in re.findall(r"error: ([^\n]*)", out):
            res.notes.append("lake: " + m[:300])
        # try to build the driver alone so the search can still use the model
        ok_drv, out2, _ = lake_build(["drv_" + mod.ENGINE])
        broken_mods = [m for m in modules if not lake_build([m])[0]]
        broken = ["module " + m for m in broken_mods]
        if not ok_drv:
            broken.append("driver (model does not compile)")
    bad_text = textual_audit(modules)
    if bad_text:
        broken += ["textual-audit " + b for b in bad_text]
    axioms_seen = set()
    discharged = 0
    if ok:
        ax, axout = axiom_audit(modules, theorems, prop)
        for t in theorems:
            if ax[t] is None:
                broken.append("theorem %s missing or does not check" % t)
            elif not ax[t] <= ALLOWED_AXIOMS:
                broken.append("theorem %s depends on %s" % (t, sorted(ax[t] - ALLOWED_AXIOMS)))
            else:
                discharged += 1
                axioms_seen |= ax[t]
    if tier == "thorough" and ok:
        for m in modules:
            r = sh(["lake", "env", "leanchecker", m], cwd=LEAN)
            if r.returncode != 0:
                broken.append("leanchecker rejects " + m + ": " + r.stdout[-300:])
        cov["leanchecker"] = "replayed " + ", ".join(modules)
    cov["obligations"] = len(theorems)
    cov["discharged"] = discharged
    cov["obligation_names"] = theorems
    cov["checker_cmd"] = "cd lean && lake build %s && lake env lean build/Audit_%s.lean (#print axioms)%s" % (
        " ".join(modules), prop, " && lake env leanchecker <module>" if tier == "thorough" else "")
    cov["trusted_base"] = trusted + ["axioms reported by #print axioms: " + (", ".join(sorted(axioms_seen)) or "none")]

    # ---- 2. harness -----------------------------------------------------------------
    exe = None
    try:
        exe = build_harness(mod.ENGINE, mod.HARNESS, getattr(mod, "FLAVOUR", "san"))
    except BuildError as e:
        log(str(e))
        print("ERROR: cannot build implementation harness for %s (the tree does not compile)" % prop)
        return 2

    # ---- replay mode ----------------------------------------------------------------
    if args.replay:
        payload = json.load(open(args.replay))
        ops = payload.get("ops", [])
        io = run_harness(exe, ops, workdir, "replay")
        mo = run_driver(mod.ENGINE, ops, workdir, "replay") if os.path.exists(driver_path(mod.ENGINE)) else ["?"] * len(ops)
        for o, a, b in zip(ops, io, mo):
            print("op   :", o)
            print("impl :", a)
            print("model:", b)
            print("oracle:", mod.oracle(o, a) or "ok")
        return 0

    # ---- 3. cases -------------------------------------------------------------------
    rng = random.Random(seed * 1000003 + 17)
    ops = []
    corpus = os.path.join(VERIF, "corpus", prop + ".ops")
    ncorpus = 0
    if os.path.exists(corpus):
        for l in open(corpus):
            l = l.strip()
            if l and not l.startswith("#"):
                ops.append(l)
                ncorpus += 1
    stats = {}
    for op in mod.generate(rng, tier, stats):
        ops.append(op)
    impl = run_harness(exe, ops, workdir, "main")
    have_driver = os.path.exists(driver_path(mod.ENGINE))
    model = run_driver(mod.ENGINE, ops, workdir, "main", nproc=NCPU if getattr(mod, "STATELESS", True) else 1) if have_driver else None

    diffs = []
    ofails = []
    distinct = set()
    known_defs = load_known(prop)
    for i, op in enumerate(ops):
        a = impl[i]
        b = model[i] if model else None
        if mod.nontrivial(op):
            distinct.add(hashlib.md5(op.encode()).digest())
        f = mod.oracle(op, a)
        kf = None
        if f is not None or (b is not None and a != b):
            kf = mod.known(op, a, b, known_defs) if hasattr(mod, "known") else None
        if kf:
            res.known.setdefault(kf, [0, op, a])
            res.known[kf][0] += 1
            continue
        if f is not None:
            ofails.append((i, op, a, b, f))
        if b is not None and a != b:
            diffs.append((i, op, a, b))

    # ---- 4. search when something no longer checks -----------------------------------
    searched = 0
    if (broken or diffs) and not ofails:
        # spend the thorough budget looking for a concrete property failure in the implementation
        rng2 = random.Random(seed * 7919 + 3)
        sops = list(mod.generate(rng2, "thorough", {}))
        # inputs near the first disagreement first
        if diffs and hasattr(mod, "neighbours"):
            sops = list(mod.neighbours(diffs[0][1], rng2)) + sops
        simpl = run_harness(exe, sops, workdir, "search")
        searched = len(sops)
        for op, a in zip(sops, simpl):
            f = mod.oracle(op, a)
            if f is not None:
                if hasattr(mod, "known") and mod.known(op, a, None, known_defs):
                    continue
                ofails.append((-1, op, a, None, f))
                break
    cov["search_evaluations"] = searched

    # ---- 5. verdict -----------------------------------------------------------------
    lines = []
    for kf, (n, op, a) in sorted(res.known.items()):
        lines.append("KNOWN-FINDING: property=%s %s (%d inputs this run, e.g. %s)" % (prop, kf, n, op[:120]))
    violations = 0
    if ofails:
        i, op, a, b, f = ofails[0]
        path = write_replay(prop, "input", {"property": prop, "kind": "failing-input", "ops": [op], "impl": a, "model": b,
                                             "failure": f, "seed": seed, "tier": tier,
                                             "broken_obligations": broken, "n_failing_inputs": len(ofails)})
        lines.append("VIOLATION property=%s replay=%s" % (prop, path))
        violations = len(ofails)
    elif broken or diffs:
        payload = {"property": prop, "kind": "no-failing-input-found", "seed": seed, "tier": tier,
                   "broken_obligations": broken, "lake_log_tail": build_log_tail,
                   "search_evaluations": searched}
        if diffs:
            i, op, a, b = diffs[0]
            payload.update({"correspondence": {"engine": mod.ENGINE, "first_differing_op": op, "impl": a, "model": b,
                                               "n_differing": len(diffs)}, "ops": [op]})
        path = write_replay(prop, "nofail", payload)
        lines.append("VIOLATION property=%s replay=%s no-failing-input-found" % (prop, path))
        violations = max(1, len(diffs))
    for l in lines:
        print(l)

    # ---- 6. evidence ----------------------------------------------------------------
    nsamp = min(5, len(ops))
    samp_idx = sorted(set([0, len(ops) // 2, len(ops) - 1] + [ncorpus + j for j in range(2) if ncorpus + j < len(ops)]))[:nsamp] if ops else []
    cov.update({
        "evaluations": len(ops),
        "distinct_nontrivial": len(distinct),
        "rule": mod.RULE,
        "samples": [{"op": ops[j][:400], "impl": impl[j][:400], "model": (model[j][:400] if model else None)} for j in samp_idx],
        "traces_validated_against_impl": len(ops) - len(diffs) if model else 0,
        "correspondence_disagreements": len(diffs),
        "oracle_failures": len(ofails),
        "corpus_cases": ncorpus,
        "input_distribution": stats,
        "known_findings_hit": {k: v[0] for k, v in res.known.items()},
        "broken_obligations": broken,
    })
    ev = {"property_id": prop, "tier": tier, "seed": seed, "level": "proof", "coverage": cov,
          "assumptions": list(getattr(mod, "ASSUMPTIONS", [])), "wall_s": round(time.time() - t0, 2),
          "violations": violations}
    with open(os.path.join(EVID, prop + ".json"), "w") as f:
        json.dump(ev, f, indent=1)
    log("%s %s: %d cases, %d distinct non-trivial, %d/%d obligations, %d diffs, %d oracle failures, %.1fs" % (
        prop, tier, len(ops), len(distinct), discharged, len(theorems), len(diffs), len(ofails), time.time() - t0))
    return 1 if violations else 0
