#!/usr/bin/env python3
"""Regenerates MANIFEST.json from the property modules that exist in tools/props/."""
import importlib
import json
import os
import sys

HERE = os.path.dirname(os.path.abspath(__file__))
sys.path.insert(0, HERE)
VERIF = os.path.dirname(HERE)

PENDING_REASON = {}


def main():
    props = [json.loads(l) for l in open(os.path.join(VERIF, "properties.jsonl"))]
    checks = []
    na = []
    engines = []
    lean_mods = []
    accepted = set(open(os.path.join(HERE, "claimed.txt")).read().split())
    for p in props:
        pid = p["id"]
        if pid not in accepted:
            na.append({"property_id": pid, "reason": PENDING_REASON.get(pid, "not claimed yet: model, proofs and correspondence engine for this property are still being built or reviewed at this commit (see DESIGN.md section 5 for the plan)")})
            continue
        try:
            mod = importlib.import_module("props." + pid.lower())
        except ModuleNotFoundError:
            na.append({"property_id": pid, "reason": PENDING_REASON.get(pid, "not claimed yet: model, proofs and correspondence engine for this property are not built at this commit (see DESIGN.md section 5 for the plan)")})
            continue
        if getattr(mod, "UNCLAIMED", None):
            na.append({"property_id": pid, "reason": mod.UNCLAIMED})
            continue
        checks.append({
            "property_id": pid,
            "quick_cmd": "python3 tools/check.py %s --tier quick" % pid,
            "thorough_cmd": "python3 tools/check.py %s --tier thorough" % pid,
            "evidence_file": "evidence/%s.json" % pid,
            "replay_cmd_template": "python3 tools/check.py %s --replay {path}" % pid,
            "engine": mod.ENGINE,
            "level_claimed": {"category": "proof", "text": getattr(mod, "LEVEL_TEXT", ""), "design_ref": "DESIGN.md section 5, " + pid},
            "level_note": getattr(mod, "LEVEL_NOTE", "Trusted: Lean kernel; the hand-written model is tied to the code by differential execution only; see evidence trusted_base"),
            "technique": getattr(mod, "TECHNIQUE", "Lean 4 theorems over a hand-written executable model + differential correspondence check against the compiled working tree"),
        })
        lean_mods.extend(mod.LEAN_MODULES)
        engines.append({"name": mod.ENGINE, "path": "harness/ + lean/Driver/", "serves_properties": [pid],
                        "kind_free_text": "C++ harness over the working tree vs compiled Lean model, same op lines"})
    man = {
        "version": 1,
        "setup_cmd": "cd lean && lake build " + " ".join(sorted(set(lean_mods))) + " " + " ".join("drv_" + e["name"] for e in engines if e["name"] != "rt"),
        "hooks": {"guard": "RTOSC_VERIF", "enable": "harnesses compile /repo/src and /repo/include directly with -DRTOSC_VERIF (no guarded source hook exists at this commit; see DESIGN.md 2.8)",
                  "baseline_off_cmd": "cmake -G Ninja -B /repo/_build -S /repo && cmake --build /repo/_build && ctest --test-dir /repo/_build -j8 --timeout 900",
                  "source_commits": [], "add_only": True},
        "engines": engines,
        "checks": checks,
        "not_applicable": na,
        "notes": "All checks: python3 tools/check.py <Cnn>. VERIF_SEED / VERIF_TIER honoured. See DESIGN.md.",
    }
    with open(os.path.join(VERIF, "MANIFEST.json"), "w") as f:
        json.dump(man, f, indent=1)
    print("claimed:", [c["property_id"] for c in checks])


if __name__ == "__main__":
    main()
