#!/usr/bin/env python3
"""Entry point named in MANIFEST.json:  python3 tools/check.py C17 [--tier quick|thorough]
   [--replay FILE].  Exit 0 = property held on everything explored; exit 1 with a line
   `VIOLATION property=<id> replay=<path>` otherwise."""
import importlib
import os
import sys

sys.path.insert(0, os.path.dirname(os.path.abspath(__file__)))
import vlib  # noqa: E402


def main():
    if len(sys.argv) < 2:
        print("usage: check.py <Cnn> [--tier quick|thorough] [--replay FILE]")
        return 2
    prop = sys.argv[1].upper()
    # Files regenerated from the source (tables, constants, call graphs) live inside the shared lake project.  A run
    # against a scratch tree (VERIF_REPO != /repo: a seeded change, a candidate fix) regenerates them from THAT tree,
    # which is what ties its theorems to that tree - but it must not leave them behind: the committed files always
    # describe /repo itself.  (A stale call graph of a mutated tree once got committed this way and broke setup_cmd.)
    saved = {}
    if not vlib._OWN:
        import glob
        for f in glob.glob(os.path.join(vlib.LEAN, "RtoscModel", "Generated", "*.lean")) + \
                glob.glob(os.path.join(vlib.LEAN, "RtoscModel", "CallGraph", "Generated*.lean")):
            with open(f, "rb") as fh:
                saved[f] = fh.read()
    try:
        mod = importlib.import_module("props." + prop.lower())
        runner = getattr(mod, "main", None)
        if runner is not None:
            return runner(sys.argv[2:])
        return vlib.main(mod, sys.argv[2:])
    finally:
        for f, content in saved.items():
            try:
                with open(f, "rb") as fh:
                    same = fh.read() == content
            except OSError:
                same = False
            if not same:
                with open(f, "wb") as fh:
                    fh.write(content)


if __name__ == "__main__":
    sys.exit(main())
