#!/usr/bin/env python3
"""Entry point named in MANIFEST.json:  python3 tools/check.py C17 [--tier quick|thorough]
   [--replay FILE].  Exit 0 = property held on everything explored; exit 1 with a line
   `VIOLATION property=<id> replay=<path>` otherwise."""
import importlib
import os
import sys

sys.path.insert(0, os.path.dirname(os.path.abspath(__file__)))
import vlib  # noqa: E402


def main():
    if len(sys.argv) < 2:
        print("usage: check.py <Cnn> [--tier quick|thorough] [--replay FILE]")
        return 2
    prop = sys.argv[1].upper()
    mod = importlib.import_module("props." + prop.lower())
    runner = getattr(mod, "main", None)
    if runner is not None:
        return runner(sys.argv[2:])
    return vlib.main(mod, sys.argv[2:])


if __name__ == "__main__":
    sys.exit(main())
