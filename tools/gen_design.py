#!/usr/bin/env python3
"""Regenerates the generated part of DESIGN.md (between the GENERATED:ASBUILT markers): per property what is
built (engine, theorems, assumptions, modelled-not-verified parts), the disposition of every defect
(fix commit / known finding) and the table of seeded changes with the layer that detects each."""
import importlib
import json
import os
import sys

HERE = os.path.dirname(os.path.abspath(__file__))
sys.path.insert(0, HERE)
VERIF = os.path.dirname(HERE)
BEGIN = "<!-- GENERATED:ASBUILT BEGIN (tools/gen_design.py) -->"
END = "<!-- GENERATED:ASBUILT END -->"


def cut(s, n):
    s = " ".join(str(s).split())
    return s if len(s) <= n else s[:n - 1] + "…"


def main():
    props = [json.loads(l) for l in open(os.path.join(VERIF, "properties.jsonl"))]
    claimed = set(open(os.path.join(HERE, "claimed.txt")).read().split())
    kf = json.load(open(os.path.join(VERIF, "known_findings.json")))["findings"]
    out = [BEGIN, ""]
    out.append("### 9.2 Per property, as built (generated from tools/props/*.py)\n")
    for p in props:
        pid = p["id"]
        if pid not in claimed:
            out.append("#### %s — %s\n\nNot claimed at this commit (listed under `not_applicable` in MANIFEST.json with the reason).\n" % (pid, p["title"]))
            continue
        mod = importlib.import_module("props." + pid.lower())
        out.append("#### %s — %s\n" % (pid, p["title"]))
        out.append("* engine `%s` (`harness/%s`, `lean/Driver/%sEngine.lean`), Lean modules %s" % (
            mod.ENGINE, ", ".join(mod.HARNESS.get("src", [])), mod.ENGINE.capitalize(), ", ".join("`%s`" % m for m in mod.LEAN_MODULES)))
        out.append("* level: %s" % " ".join(getattr(mod, "LEVEL_TEXT", "").split()))
        out.append("* obligations re-checked and axiom-audited on every run (%d): %s" % (
            len(mod.THEOREMS), ", ".join("`%s`" % t.split(".")[-1] for t in mod.THEOREMS)))
        if getattr(mod, "TRANSLATORS", None):
            out.append("* regenerated from the source on every run: %s" % ", ".join("`%s`" % getattr(t, "__name__", "?") for t in mod.TRANSLATORS))
        if getattr(mod, "ASSUMPTIONS", None):
            out.append("* assumptions (hypotheses of the theorems / preconditions of the statement):")
            for a in mod.ASSUMPTIONS:
                out.append("  - " + " ".join(a.split()))
        if getattr(mod, "TRUSTED", None):
            out.append("* modelled rather than verified / trusted for this property:")
            for a in mod.TRUSTED:
                out.append("  - " + " ".join(a.split()))
        out.append("* correspondence: " + cut(mod.RULE, 900))
        out.append("")
    out.append("### 9.3 Disposition of every defect found (generated from known_findings.json)\n")
    out.append("`fixed` = repaired in /repo by the named unguarded `fix:` commit (patch and message also kept under `fixes/`); the "
               "witness is in `corpus/` and runs first on every check; a fixed entry suppresses nothing. `known` = recorded, not "
               "repaired; the check prints a KNOWN-FINDING line only for inputs on which the trigger predicate holds and the "
               "implementation's output equals the defect-mirroring model's.\n")
    out.append("| id | property | status | repo commit / trigger | what failed | witness (op line) |")
    out.append("|---|---|---|---|---|---|")
    for e in kf:
        out.append("| %s | %s | %s | %s | %s | `%s` |" % (
            e.get("id"), e.get("property"), e.get("status"),
            e.get("commit") if e.get("status") == "fixed" else "trigger `%s`" % e.get("trigger", "see known() of the property module"),
            cut(e.get("what", ""), 260).replace("|", "\\|"), cut(e.get("witness", ""), 70).replace("|", "\\|")))
    out.append("")
    out.append("### 9.4 Seeded changes and the checks that catch them (generated from seeded/*/meta.json)\n")
    out.append("Each change was written by a fresh sub-agent that saw only the property text and its own worktree; it compiles, "
               "passes the 31 repository tests, and its demonstration fails with it and passes without it (re-confirmed by "
               "`tools/try_seed.sh`, which then runs the property's quick check against the changed tree).\n")
    out.append("| seed | property | what the change does | needs | detected by |")
    out.append("|---|---|---|---|---|")
    root = os.path.join(VERIF, "seeded")
    n = nd = 0
    for d in sorted(os.listdir(root)):
        mp = os.path.join(root, d, "meta.json")
        if not os.path.exists(mp):
            continue
        m = json.load(open(mp))
        o = m.get("confirmed_by_coordinator", {}).get("outcome", "")
        n += 1
        nd += 1 if m.get("detected") else 0
        nobs = locals().get("nobs", 0) + (1 if m.get("obsolete") else 0)
        how = "NOT detected" if not m.get("detected") else (
            "proof obligation / correspondence only (no-failing-input-found)" if "no-failing-input-found" in o
            else "failing-input VIOLATION (property oracle on the implementation, plus model/implementation diff)")
        if m.get("detected_note"):
            how = m["detected_note"]
        if m.get("origin"):
            d = d + " (" + m["origin"] + ")"
        out.append("| %s | %s | %s | %s | %s |" % (d, m.get("property"), cut(m.get("what_it_breaks", ""), 220).replace("|", "\\|"),
                                                 cut(m.get("needs_to_manifest", ""), 140).replace("|", "\\|"), how))
    out.append("")
    out.append("%d seeded changes kept, %d detected by the quick check of their property when they were kept; %d of them "
               "(marked 'obsolete' in their meta.json and in seeded/REVALIDATION.log) have since been made behaviour-neutral by "
               "a later `fix:` commit in /repo and no longer break the property, so the check rightly stays quiet on them; "
               "the other %d are detected against the current /repo HEAD (seeded/REVALIDATION.log).\n" % (n, nd, nobs, n - nobs))
    out.append(END)
    path = os.path.join(VERIF, "DESIGN.md")
    txt = open(path).read()
    block = "\n".join(out)
    if BEGIN in txt and END in txt:
        txt = txt[:txt.index(BEGIN)] + block + txt[txt.index(END) + len(END):]
    else:
        txt = txt.rstrip("\n") + "\n\n" + block + "\n"
    open(path, "w").write(txt)
    print("DESIGN.md: generated block %d lines; seeds %d/%d detected" % (len(out), nd, n))


if __name__ == "__main__":
    main()
