import Driver.Common
