import RtoscModel.Basic
