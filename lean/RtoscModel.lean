import RtoscModel.Basic
import RtoscModel.Props.C17
