-- driver executable for engine `osc` (C01); imports model files only, so it links
import Driver.OscEngine
def main : IO UInt32 := do Driver.run Driver.OscEngine.engine; return 0
