-- driver executable for engine `bundle` (C08); imports model files only, so it links
import Driver.BundleEngine
def main : IO UInt32 := do Driver.run Driver.BundleEngine.engine; return 0
