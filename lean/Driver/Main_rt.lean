-- driver executable for engine `rt` (C03); imports model files only, so it links
import Driver.RtEngine
def main : IO UInt32 := do Driver.run Driver.RtEngine.engine; return 0
