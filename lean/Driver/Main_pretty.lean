-- driver executable for engine `pretty` (C10); imports model files only, so it links
import Driver.PrettyEngine
def main : IO UInt32 := do Driver.run Driver.PrettyEngine.engine; return 0
