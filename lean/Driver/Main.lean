/-
  `driver <engine>`: runs the executable model of one engine over the op lines on
  stdin.  Imports model files only (no Mathlib, no proofs) so that it links.
-/
import Driver.Common
import Driver.MetaEngine

def engines : List (String × Driver.Engine) := [
  ("meta", Driver.MetaEngine.engine)
]

def main (args : List String) : IO UInt32 := do
  match args with
  | [name] =>
    match engines.lookup name with
    | some e => Driver.run e; return 0
    | none => IO.eprintln s!"unknown engine {name}"; return 2
  | _ => IO.eprintln "usage: driver <engine>"; return 2
