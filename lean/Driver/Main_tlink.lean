-- driver executable for engine `tlink` (C06); imports model files only, so it links
import Driver.TlinkEngine
def main : IO UInt32 := do Driver.run Driver.TlinkEngine.engine; return 0
