-- driver executable for engine `match` (C05); imports model files only, so it links
import Driver.MatchEngine
def main : IO UInt32 := do Driver.run Driver.MatchEngine.engine; return 0
