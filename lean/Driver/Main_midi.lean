-- driver executable for engine `midi` (C20); imports model files only, so it links
import Driver.MidiEngine
def main : IO UInt32 := do Driver.run Driver.MidiEngine.engine; return 0
