/- Engine `dispatch` (C04): not built yet. -/
import Driver.Common
namespace Driver.DispatchEngine
def engine : Driver.Engine := Driver.stateless (fun _ => "unimplemented")
end Driver.DispatchEngine
