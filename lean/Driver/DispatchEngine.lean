/-
  Engine `dispatch` (C04).  Same line protocol as harness/dispatch.cpp:

    D <table> <locsize> <msg>;<msg>;… [tokens for the oracle, ignored]
        <table> = T<0|1>[c|m][<entry>,<entry>,…]  0/1: the table has a default handler; c/m: the
                                                  harness builds it through ClonePorts / MergePorts
        <entry> = L<name-hex>                    port without sub-table
                | N<name-hex><table>             port with sub-table (recursion callback)
        <msg>   = <B|S><address-hex>:<tags-hex>  B: dispatch(msg, d, true), S: dispatch(msg, d)
      -> per message  <with location buffer>/<without>,  messages separated by '|':
           [<call>;<call>;…]m<matches>p<d.port|->l<loc-hex> / [<call>;…]p<d.port|->
           <call> = <P|D><path>@<offset of msg>,<loc-hex|NULL>,<obj path>,<d.port|->
           <path> = table indices joined by '.', 'r' for the root
         or `oob` for a message on which the model leaves a buffer.
    H <table>
      -> which lookup strategy each table of the tree gets (pre-order): `h` hashed, `l` linear
         (not compared with the implementation; used by the generator statistics and the tests)
-/
import RtoscModel.Ports.Dispatch
import Driver.Common
namespace Driver.DispatchEngine
open Rtosc Rtosc.Ports Rtosc.Ports.Hash

def slack : Nat := 32

/-! ### table parser -/

def isHexChar (c : Char) : Bool := (hexVal c).isSome

/-- `T<d>[` … `]`; fuel = number of characters -/
partial def parseTable : List Char → Option (Ports × List Char)
  | 'T' :: dc :: r0 =>
    -- construction mode of the harness (`c`: ClonePorts, `m`: MergePorts): the same table
    let r1 := match r0 with
      | 'c' :: r => r
      | 'm' :: r => r
      | r => r
    if r1.head? != some '[' then none else
    let r := r1.drop 1
    let dflt := dc == '1'
    let rec entries (cs : List Char) (acc : List (Bytes × Option Ports)) : Option (List (Bytes × Option Ports) × List Char) :=
      match cs with
      | ']' :: r => some (acc.reverse, r)
      | ',' :: r => entries r acc
      | k :: r =>
        if k == 'L' || k == 'N' then
          let hx := r.takeWhile isHexChar
          let r' := r.dropWhile isHexChar
          let (hx, r') := if hx.isEmpty && r'.head? == some '-' then (['-'], r'.drop 1) else (hx, r')
          match ofHex (String.ofList hx) with
          | none => none
          | some name =>
            if k == 'L' then entries r' ((name, none) :: acc)
            else match parseTable r' with
              | none => none
              | some (child, r'') => entries r'' ((name, some child) :: acc)
        else none
      | [] => none
    match entries r [] with
    | none => none
    | some (es, r') =>
      let tab := es.foldr (fun e t => match e with
                                       | (n, none) => Table.leaf n t
                                       | (n, some c) => Table.node n c.tab c.dflt t) Table.nil
      some ({ tab := tab, dflt := dflt }, r')
  | _ => none

/-! ### tables are built once per op line -/

/-- the names of every table of the tree -/
def allNames : Table → List (List Bytes)
  | .nil => []
  | .leaf _ r => allNames r
  | .node _ c _ r => c.names :: (allNames c ++ allNames r)

def buildCacheFor (f : List Bytes → Option Matcher) (P : Ports) : List (List Bytes × Option Matcher) :=
  buildCache f ((P.tab.names :: allNames P.tab).eraseDups)

/-! ### printing -/

def showPath (p : List Nat) : String :=
  if p.isEmpty then "r" else ".".intercalate (p.map toString)

def showPort : Option (List Nat) → String
  | none => "-"
  | some p => "P" ++ showPath p

def showWho : Who → String
  | .port p => "P" ++ showPath p
  | .dflt t => "D" ++ showPath t

def showLoc : Option Bytes → String
  | none => "NULL"
  | some s => toHex s

def showCall (total : Nat) (c : Call) : String :=
  s!"{showWho c.who}@{total - c.m.length},{showLoc c.loc},{showPath c.obj},{showPort c.dport}"

def showCalls (total : Nat) (l : List Call) : String :=
  "[" ++ ";".intercalate (l.map (showCall total)) ++ "]"

def zeros (n : Nat) : Bytes := List.replicate n 0

def buildMsg (addr tags : Bytes) : Bytes :=
  Match.mkMsg addr tags (zeros ((tags.map Match.zeroArgSize).sum + slack))

def oneMsg (mk : List Bytes → Option Matcher) (P : Ports) (locSize : Nat) (tok : String) : String :=
  match tok.toList with
  | k :: rest =>
    match (String.ofList rest).splitOn ":" with
    | [a, t] =>
      match ofHex a, ofHex t with
      | some addr, some tags =>
        let base := k == 'B'
        let msg := buildMsg addr tags
        let dL : RtData := { loc := some [], locSize := locSize, locHigh := 0, obj := [], nmatches := 0, port := none }
        let dN : RtData := { dL with loc := none, locSize := 0 }
        match dispatch mk P msg dL base, dispatch mk P msg dN base with
        | some (l1, d1), some (l2, d2) =>
          if d1.locHigh > locSize then "oob"
          else s!"{showCalls msg.length l1}m{d1.nmatches}p{showPort d1.port}l{showLoc d1.loc}/{showCalls msg.length l2}p{showPort d2.port}"
        | _, _ => "oob"
      | _, _ => "bad-msg"
    | _ => "bad-msg"
  | [] => "bad-msg"

def opD (tab : String) (locSize : Nat) (msgs : String) : String :=
  match parseTable tab.toList with
  | some (P, []) =>
    let f := matcherOf realSearch
    let cache := buildCacheFor f P
    let mk := cachedMk f cache
    "|".intercalate ((msgs.splitOn ";").map (oneMsg mk P locSize))
  | _ => "bad-op"

def strategies (f : List Bytes → Option Matcher) : Table → List String
  | .nil => []
  | .leaf _ r => strategies f r
  | .node _ c _ r =>
    (match f c.names with
     | none => "x"
     | some pm => if pm.pos.isEmpty then "l" else "h") :: (strategies f c ++ strategies f r)

def opH (tab : String) : String :=
  match parseTable tab.toList with
  | some (P, []) =>
    let f := matcherOf realSearch
    let top := match f P.tab.names with
      | none => "x"
      | some pm => if pm.pos.isEmpty then "l" else "h"
    "H " ++ String.join (top :: strategies f P.tab)
  | _ => "bad-op"

def step (line : String) : String :=
  match words line with
  | "D" :: tab :: ls :: msgs :: _ =>
    match ls.toNat? with
    | some locSize => opD tab locSize msgs
    | none => "bad-op"
  | "H" :: tab :: _ => opH tab
  | _ => "bad-op"

def engine : Driver.Engine := Driver.stateless step
end Driver.DispatchEngine
