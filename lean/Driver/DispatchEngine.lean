/-
  Engine `dispatch` (C04).  Same line protocol as harness/dispatch.cpp:

    D <table> <locsize>+<slack>[+k] <msg>;<msg>;… [tokens for the oracle, ignored]
        `+k`: the two RtData objects (with / without location buffer) are set up once and kept for all
        messages of the line (an operation history on one RtData: every dispatch starts with the
        d.obj, d.port, d.loc, d.matches the one before left behind); without it every message gets
        fresh ones
        <table> = T<0|1>[<entry>,<entry>,…]      0/1: the table has a default handler
                | T<0|1>c[<entry>,…]{i.j.…}      the table that is dispatched is
                                                  `ClonePorts(src, {{src[i].name, cb}, {src[j].name, cb}, …})`
                                                  (plus `{"*", default handler}` for T1) — model: `clonePorts`
                | T<0|1>m[<entry>,…]{n1.n2.…}    … is `MergePorts({&t1, &t2, …})`, t1 = the first n1
                                                  entries, t2 the next n2, … — model: `mergePorts`
        <entry> = L<name-hex>                    port without sub-table
                | N<name-hex><table>             port with sub-table (recursion callback)
        <slack> = number of zero bytes behind the message (the block the message lives in
                  has exactly message size + slack bytes)
        <msg>   = <B|S><address-hex>:<tags-hex>  B: dispatch(msg, d, true), S: dispatch(msg, d)
      -> per message  <with location buffer>/<without>,  messages separated by '|':
           [<call>;<call>;…]m<matches|*>p*l<ok|loc-hex|*>o<d.obj> / [<call>;…]p*o<d.obj>
           (<d.obj>: the object in d.obj after the dispatch, printed like <obj path>)
           <call> = <P|D><path>@<offset of msg>,<loc-hex|NULL>,<obj path>,<d.port|-|*>
           <path> = table indices joined by '.', 'r' for the root
         Only what the property observes, in canonical form: the calls as a sorted multiset
         (the statement fixes no order among the ports of one table); `d.port` as seen by a
         default handler is `*` (not observed); the callback of a port with a sub-table sees
         `loc` with or without the trailing '/' (printed without); `d.port` after the dispatch
         is not observed (`p*`: the statement is about the port pointer a callback sees);
         `d.matches` and `loc` after the dispatch are printed for base dispatches only (`m*`,
         `l*` otherwise), `loc` as `ok` for "" or "/".
         `oob` for a message on which the model leaves a buffer.
    R <table> <locsize>+<slack> <msg>;… [ignored]
      the harness' static tree built with the library's rRecur / rRecurs / rRecurp / rRecursp
      macros (the token is that tree; the harness refuses any other).  Same output, but the
      callbacks of the sub-tree ports are the library's and do not log: only callbacks of
      ports without sub-table are listed, without message offset (`-`), and `<obj path>`
      carries the element every enumerated port on the way hands down: `2#1.4#0`
      (`Sugar.objIdx`, i.e. `rBOILS_BEGIN`).
    H <table>
      -> which lookup strategy each table of the tree gets (pre-order): `h` hashed, `l` linear
         (not compared with the implementation; used by the generator statistics and the tests)
-/
import RtoscModel.Ports.Dispatch
import RtoscModel.Ports.Build
import RtoscModel.Ports.Sugar
import Driver.Common
namespace Driver.DispatchEngine
open Rtosc Rtosc.Ports Rtosc.Ports.Hash

/-! ### table parser -/

def isHexChar (c : Char) : Bool := (hexVal c).isSome

/-- `{1.2.3}` / `{}` -/
def parseNums (cs : List Char) : Option (List Nat × List Char) :=
  match cs with
  | '{' :: r =>
    let body := r.takeWhile (· != '}')
    let r' := (r.dropWhile (· != '}')).drop 1
    if body.isEmpty then some ([], r')
    else
      let parts := (String.ofList body).splitOn "."
      let nums := parts.filterMap (·.toNat?)
      if nums.length == parts.length then some (nums, r') else none
  | _ => none

/-- split `l` into pieces of the given sizes (the last piece takes what is left) -/
def splitSizes {α : Type} (l : List α) : List Nat → List (List α)
  | [] => if l.isEmpty then [] else [l]
  | n :: ns => l.take n :: splitSizes (l.drop n) ns

/-- `T<d>[` … `]`; fuel = number of characters -/
partial def parseTable : List Char → Option (Ports × List Char)
  | 'T' :: dc :: r0 =>
    let (mode, r1) := match r0 with
      | 'c' :: r => ('c', r)
      | 'm' :: r => ('m', r)
      | r => ('d', r)
    if r1.head? != some '[' then none else
    let r := r1.drop 1
    let dflt := dc == '1'
    let rec entries (cs : List Char) (acc : List Entry) : Option (List Entry × List Char) :=
      match cs with
      | ']' :: r => some (acc.reverse, r)
      | ',' :: r => entries r acc
      | k :: r =>
        if k == 'L' || k == 'N' then
          let hx := r.takeWhile isHexChar
          let r' := r.dropWhile isHexChar
          let (hx, r') := if hx.isEmpty && r'.head? == some '-' then (['-'], r'.drop 1) else (hx, r')
          match ofHex (String.ofList hx) with
          | none => none
          | some name =>
            if k == 'L' then entries r' (.leaf name :: acc)
            else match parseTable r' with
              | none => none
              | some (child, r'') => entries r'' (.node name child.tab child.dflt :: acc)
        else none
      | [] => none
    match entries r [] with
    | none => none
    | some (es, r') =>
      if mode == 'd' then some ({ tab := Table.ofEntries es, dflt := dflt }, r')
      else match parseNums r' with
        | none => none
        | some (nums, r'') =>
          if mode == 'c' then
            -- the clone list names the ports by their index in the source
            match nums.mapM (fun i => es[i]?.map Entry.name) with
            | none => none
            | some names =>
              match clonePorts es names with
              | none => none
              | some res => some ({ tab := Table.ofEntries res, dflt := dflt }, r'')
          else
            some ({ tab := Table.ofEntries (mergePorts (splitSizes es nums)), dflt := dflt }, r'')
  | _ => none

/-! ### tables are built once per op line -/

/-- the names of every table of the tree -/
def allNames : Table → List (List Bytes)
  | .nil => []
  | .leaf _ r => allNames r
  | .node _ c _ r => c.names :: (allNames c ++ allNames r)

def buildCacheFor (f : List Bytes → Option Matcher) (P : Ports) : List (List Bytes × Option Matcher) :=
  buildCache f ((P.tab.names :: allNames P.tab).eraseDups)

/-! ### printing -/

def showPath (p : List Nat) : String :=
  if p.isEmpty then "r" else ".".intercalate (p.map toString)

def showPort : Option (List Nat) → String
  | none => "-"
  | some p => "P" ++ showPath p

def showWho : Who → String
  | .port p => "P" ++ showPath p
  | .dflt t => "D" ++ showPath t

def showLoc : Option Bytes → String
  | none => "NULL"
  | some s => toHex s

/-- `sugar`: an `R` line (no offsets, objects with element indices) -/
structure Mode where
  sugar : Bool
  /-- root table and the message as the root table sees it (for `Sugar.objIdx`) -/
  root : Table
  m0 : Bytes

def stripSlash (s : Bytes) : Bytes :=
  if s.getLast? == some 47 then s.dropLast else s

def showObj (md : Mode) (obj : List Nat) : String :=
  if !md.sugar then showPath obj
  else match Sugar.objIdx md.root md.m0 obj with
    | none => "?"
    | some [] => "r"
    | some l => ".".intercalate (l.map (fun (i, ix) => match ix with
                                                        | none => toString i
                                                        | some k => s!"{i}#{k}"))

def showCall (md : Mode) (total : Nat) (c : Call) : String :=
  let off := if md.sugar then "-" else toString (total - c.m.length)
  let loc := if c.isLeaf then c.loc else c.loc.map stripSlash
  let dport := match c.who with
    | .dflt _ => "*"
    | .port _ => showPort c.dport
  s!"{showWho c.who}@{off},{showLoc loc},{showObj md c.obj},{dport}"

def showCalls (md : Mode) (total : Nat) (l : List Call) : String :=
  let l := if md.sugar then l.filter (·.isLeaf) else l
  let strs := (l.map (showCall md total)).mergeSort (fun a b => !(b < a))
  "[" ++ ";".intercalate strs ++ "]"

def showFinalLoc (l : Option Bytes) : String :=
  match l with
  | some [] => "ok"
  | some [47] => "ok"
  | l => showLoc l

def zeros (n : Nat) : Bytes := List.replicate n 0

def buildMsg (slack : Nat) (addr tags : Bytes) : Bytes :=
  Match.mkMsg addr tags (zeros ((tags.map Match.zeroArgSize).sum + slack))

/-- the two `RtData` objects of an op line as the harness sets them up: with location buffer, without -/
def freshData (locSize : Nat) : RtData × RtData :=
  let dL : RtData := { loc := some [], locSize := locSize, locHigh := 0, obj := [], nmatches := 0, port := none }
  (dL, { dL with loc := none, locSize := 0 })

/-- one message dispatched with `dd.1` (location buffer) and `dd.2` (none); returns the text and the two
    `RtData` as the dispatches left them (unchanged when the model leaves a buffer) -/
def oneMsg (sugar : Bool) (mk : List Bytes → Option Matcher) (P : Ports) (locSize slack : Nat)
    (dd : RtData × RtData) (tok : String) : String × (RtData × RtData) :=
  match tok.toList with
  | k :: rest =>
    match (String.ofList rest).splitOn ":" with
    | [a, t] =>
      match ofHex a, ofHex t with
      | some addr, some tags =>
        let base := k == 'B'
        let msg := buildMsg slack addr tags
        let md : Mode := { sugar := sugar, root := P.tab,
                           m0 := if base && msg.head? == some 47 then msg.drop 1 else msg }
        match dispatch mk P msg dd.1 base, dispatch mk P msg dd.2 base with
        | some (l1, d1), some (l2, d2) =>
          if d1.locHigh > locSize then ("oob", dd)
          else
            -- the statement speaks of the match count / loc after a ROOT dispatch and of d.port as a callback
            -- sees it: d.port after a dispatch is not printed, d.matches / loc of a non-base dispatch neither
            let ms := if base then toString d1.nmatches else "*"
            let ls := if base then showFinalLoc d1.loc else "*"
            (s!"{showCalls md msg.length l1}m{ms}p*l{ls}o{showObj md d1.obj}/{showCalls md msg.length l2}p*o{showObj md d2.obj}", (d1, d2))
        | _, _ => ("oob", dd)
      | _, _ => ("bad-msg", dd)
    | _ => ("bad-msg", dd)
  | [] => ("bad-msg", dd)

/-- the messages of a line, one after the other; `keep`: on the same two `RtData` objects, else on fresh
    ones for every message -/
def runMsgs (sugar : Bool) (mk : List Bytes → Option Matcher) (P : Ports) (locSize slack : Nat) (keep : Bool) :
    RtData × RtData → List String → List String
  | _, [] => []
  | dd, tok :: r =>
    let (txt, dd') := oneMsg sugar mk P locSize slack dd tok
    txt :: runMsgs sugar mk P locSize slack keep (if keep then dd' else freshData locSize) r

def opD (sugar : Bool) (tab : String) (locSize slack : Nat) (keep : Bool) (msgs : String) : String :=
  match parseTable tab.toList with
  | some (P, []) =>
    let f := matcherOf realSearch
    let cache := buildCacheFor f P
    let mk := cachedMk f cache
    "|".intercalate (runMsgs sugar mk P locSize slack keep (freshData locSize) (msgs.splitOn ";"))
  | _ => "bad-op"

def strategies (f : List Bytes → Option Matcher) : Table → List String
  | .nil => []
  | .leaf _ r => strategies f r
  | .node _ c _ r =>
    (match f c.names with
     | none => "x"
     | some pm => if pm.pos.isEmpty then "l" else "h") :: (strategies f c ++ strategies f r)

def opH (tab : String) : String :=
  match parseTable tab.toList with
  | some (P, []) =>
    let f := matcherOf realSearch
    let top := match f P.tab.names with
      | none => "x"
      | some pm => if pm.pos.isEmpty then "l" else "h"
    "H " ++ String.join (top :: strategies f P.tab)
  | _ => "bad-op"

def step (line : String) : String :=
  match words line with
  | "H" :: tab :: _ => opH tab
  | k :: tab :: ls :: msgs :: _ =>
    if k != "D" && k != "R" then "bad-op" else
    match ls.splitOn "+" with
    | [a, b] =>
      match a.toNat?, b.toNat? with
      | some locSize, some slack => opD (k == "R") tab locSize slack false msgs
      | _, _ => "bad-op"
    | [a, b, "k"] =>
      match a.toNat?, b.toNat? with
      | some locSize, some slack => opD (k == "R") tab locSize slack true msgs
      | _, _ => "bad-op"
    | _ => "bad-op"
  | _ => "bad-op"

def engine : Driver.Engine := Driver.stateless step
end Driver.DispatchEngine
