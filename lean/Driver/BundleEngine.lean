/-
  Engine `bundle` (C08).  One op line = one composition with `rtosc_bundle` (nested bundles are
  composed bottom-up, each into its own block) followed by every reader.

    C <tree>                        compose, then decompose an exact-size copy of the result
    Cr <tree>                       the same, every block taken from one arena whose addresses are reused
                                    (after a decoy composition with other contents at the same addresses)
    A <max_len> <tree> m<hex>*      compose, then `append_bundle` every message in turn   (Ar: arena)
    P <hex>                         `rtosc_bundle_p` on a plain block

  tree tokens (prefix order):  m<hex>                  a message (its bytes, in an exact-size block)
                               B<16 hex tt>:<n>:<cap>  bundle of the next n trees, built into a
                                                       block of <cap> bytes (pre-filled 0xAA)
  Output of C:  r=<ret> b=<bytes> [p=.. n=.. tt=.. len=.. d=<decomposition>] [nz=..]
    bytes: the `ret` bytes written.  After a failed top-level call only `r=0` is printed: what the
    destination holds then is C02's clause (engine oscbuf), not an observable of C08.
    decomposition:  m<hex>  |  B<tt>[<off>:<size>:<rtosc_message_length>:<decomposition>,…]
  If the model predicts an out-of-bounds store or read the line is the sanitizer's verdict
  `crash:asan:heap-buffer-overflow` (arena ops: `crash:asan:use-after-poison`); a loop that does
  not terminate is `crash:signal:27` (the harness' CPU-time watchdog).
-/
import RtoscModel.Osc.Bundle
import Driver.Common
namespace Driver.BundleEngine
open Rtosc Rtosc.Osc

def crash : String := "crash:asan:heap-buffer-overflow"
def crashArena : String := "crash:asan:use-after-poison"
/-- more elements than any literal call site of the harness passes -/
def maxKids : Nat := 40
def hang : String := "crash:signal:27"

inductive Tree where
  | msg (b : Bytes)
  | bundle (tt : UInt64) (cap : Nat) (kids : List Tree)

def natOfBytes (bs : Bytes) : Nat := bs.foldl (fun a b => a * 256 + b.toNat) 0

partial def parseTree : List String → Option (Tree × List String)
  | [] => none
  | t :: rest =>
    if t.startsWith "m" then (ofHex (t.drop 1).toString).map fun b => (Tree.msg b, rest)
    else if t.startsWith "B" then
      match (t.drop 1).toString.splitOn ":" with
      | [tth, ns, caps] =>
        match ofHex tth, ns.toNat?, caps.toNat? with
        | some tb, some n, some cap =>
          if tb.length ≠ 8 ∨ n > maxKids then none
          else
            let rec kids (k : Nat) (toks : List String) (acc : List Tree) : Option (List Tree × List String) :=
              match k with
              | 0 => some (acc.reverse, toks)
              | k + 1 =>
                match parseTree toks with
                | none => none
                | some (c, toks') => kids k toks' (c :: acc)
            match kids n rest [] with
            | none => none
            | some (ks, toks) => some (Tree.bundle (UInt64.ofNat (natOfBytes tb)) cap ks, toks)
        | _, _, _ => none
      | _ => none
    else none

/-- block, return value -/
abbrev Built := Bytes × Nat

/-- Why a line ends in a crash. -/
inductive Fail where
  | oob | hang

partial def build : Tree → Except Fail Built
  | .msg b => .ok (b, b.length)
  | .bundle tt cap kids => do
    let blocks ← kids.mapM fun k => (build k).map (·.1)
    match bundle (List.replicate cap (170 : UInt8)) tt blocks with
    | .oob => .error .oob
    | .hang => .error .hang
    | .ok r => if r.oob then .error .oob else .ok (r.buf, r.ret)

def hexz (b : Bytes) : String :=
  if b.isEmpty then "-"
  else if b.all (· = 0) then s!"z{b.length}"
  else toHex b

def hex64 (v : UInt64) : String := toHex (put64 v)

def liftRd {α : Type} : Rd α → Except Fail α
  | .ok a => .ok a
  | .oob => .error .oob
  | .hang => .error .hang

def liftOpt {α : Type} : Option α → Except Fail α
  | some a => .ok a
  | none => .error .oob

/-- decomposition of the packet of `size` bytes at offset `base` of the block `x` -/
partial def decomp (x : Bytes) (base size depth : Nat) : Except Fail String := do
  if depth > 20 then return "!depth"
  let p := x.drop base
  let isB ← liftOpt (bundleP p)
  if !isB then return "m" ++ toHex (p.take size)
  let tt ← liftOpt (bundleTimetag p)
  let n ← liftRd (bundleElements p size)
  let mut parts : List String := []
  for i in List.range n do
    let e ← liftOpt (bundleFetch p i)
    let es ← liftOpt (bundleSize p i)
    match e with
    | none => parts := parts ++ ["NULL"]
    | some off =>
      if off > size ∨ es > size - off then parts := parts ++ [s!"{off}:{es}:!range"]
      else
        let ml ← match messageLength ((p.drop off).take es) with
          | some l => pure l
          | none => throw Fail.hang
        let d ← decomp x (base + off) es (depth + 1)
        parts := parts ++ [s!"{off}:{es}:{ml}:{d}"]
  return "B" ++ hex64 tt ++ "[" ++ ",".intercalate parts ++ "]"

def readers (buf : Bytes) (ret : Nat) : Except Fail String := do
  let x := buf.take ret
  let p ← liftOpt (bundleP x)
  let n ← liftRd (bundleElements x ret)
  let tt ← liftOpt (bundleTimetag x)
  let len ← match messageLength x with
    | some l => pure l
    | none => throw Fail.hang
  let d ← decomp x 0 ret 0
  return s!" p={if p then 1 else 0} n={n} tt={hex64 tt} len={len} d={d}"

def render : Except Fail String → String
  | .ok s => s
  | .error .oob => crash
  | .error .hang => hang

def renderIn (arena : Bool) (r : Except Fail String) : String :=
  match r with
  | .ok s => s
  | .error .oob => if arena then crashArena else crash
  | .error .hang => hang

def stepC (arena : Bool) (toks : List String) : String :=
  match parseTree toks with
  | some (.bundle tt cap kids, []) => renderIn arena do
    let (buf, ret) ← build (.bundle tt cap kids)
    if ret > cap then return s!"r={ret} ret-exceeds-len"
    if ret = 0 then return "r=0"
    let head := s!"r={ret} b={toHex (buf.take ret)}"
    if ret ≥ 16 then
      let r ← readers buf ret
      if cap ≥ ret + 4 then
        let nz ← liftRd (bundleElements buf cap)
        return head ++ r ++ s!" nz={nz}"
      else return head ++ r
    else return head
  | _ => "bad-op"

def stepA (arena : Bool) (maxLen : Nat) (toks : List String) : String :=
  match parseTree toks with
  | some (.bundle tt cap kids, srcs) =>
    match srcs.mapM (fun (s : String) => if s.startsWith "m" then ofHex (s.drop 1).toString else none) with
    | none => "bad-op"
    | some msgs => renderIn arena do
      let (buf0, ret0) ← build (.bundle tt cap kids)
      let mut buf := buf0
      let mut len := ret0
      let mut rets : List String := []
      for m in msgs do
        let r ← liftRd (appendBundle buf m maxLen len m.length)
        if r.oob then throw Fail.oob
        buf := r.buf
        len := r.ret
        rets := rets ++ [toString len]
      let head0 := s!"r={ret0} a={if rets.isEmpty then "-" else ",".intercalate rets}"
      if len > cap then return head0 ++ " ret-exceeds-len"
      if len = 0 then return head0
      let head := head0 ++ s!" b={toHex (buf.take len)}"
      if len ≥ 16 then
        let r ← readers buf len
        return head ++ r
      else return head
  | _ => "bad-op"

def step (line : String) : String :=
  match words line with
  | ["P", h] =>
    match ofHex h with
    | some m =>
      match bundleP m with
      | some b => s!"p={if b then 1 else 0}"
      | none => crash
    | none => "bad-op"
  | "C" :: toks => stepC false toks
  | "Cr" :: toks => stepC true toks
  | "A" :: ml :: toks =>
    match ml.toNat? with
    | some maxLen => stepA false maxLen toks
    | none => "bad-op"
  | "Ar" :: ml :: toks =>
    match ml.toNat? with
    | some maxLen => stepA true maxLen toks
    | none => "bad-op"
  | _ => "bad-op"

def engine : Driver.Engine := Driver.stateless step
end Driver.BundleEngine
