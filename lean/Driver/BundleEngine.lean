/- Engine `bundle` (C08): not built yet. -/
import Driver.Common
namespace Driver.BundleEngine
def engine : Driver.Engine := Driver.stateless (fun _ => "unimplemented")
end Driver.BundleEngine
