-- driver executable for engine `path` (C18); imports model files only, so it links
import Driver.PathEngine
def main : IO UInt32 := do Driver.run Driver.PathEngine.engine; return 0
