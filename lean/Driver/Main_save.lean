-- driver executable for engine `save` (C12); imports model files only, so it links
import Driver.SaveEngine
def main : IO UInt32 := do Driver.run Driver.SaveEngine.engine; return 0
