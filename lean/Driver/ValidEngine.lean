/- Engine `valid` (C07): not built yet. -/
import Driver.Common
namespace Driver.ValidEngine
def engine : Driver.Engine := Driver.stateless (fun _ => "unimplemented")
end Driver.ValidEngine
