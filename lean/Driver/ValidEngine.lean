/-
  Engine `valid` (C07).  One op line = one untrusted buffer:

      V <bytes-hex>            (`-` = the empty buffer)

  The buffer is an exact-size block; `rtosc_message_length(msg,n)` and
  `rtosc_valid_message_p(msg,n)` run on it, and — only when the validator accepts — every reader:

      len=<n> valid=<0|1> [as=<off>:<tags> n=<count> ty=<types> av=<arguments> it=<iterator>]

  (strings as `@<offset>:<bytes>`, blobs as `<len>@<offset>:<bytes>`, the empty blob as `0@-:-`:
  where its data pointer points is not observed).  If the model predicts a read outside the block
  the line is the sanitizer's verdict `crash:asan:heap-buffer-overflow`; a loop that does not
  terminate is the watchdog's `crash:signal:27`.

  The *value* of `rtosc_message_length` is printed when the validator accepts, when it exceeds n,
  and when the first `len` bytes are on their own a message the validator accepts (the size of the
  message at the head of a chunk); on every other rejected buffer the property only asks for
  `0 or ≤ n` and the line says `len=ok`.

  The harness runs every line in seven placements (four pointer alignments, a reused arena with
  three different earlier contents) and prints one line only if all seven agree; the model is a
  function of the bytes, so it has one answer.

      T <bytes-hex>            trigger of known finding C07-K1 (not sent to the implementation):
                               `nc=<0|1>` (NonCanonical), `lax=<0|1>`, `strict=<0|1>`
-/
import RtoscModel.Osc.Valid
import RtoscModel.Osc.Decode
import Driver.Common
namespace Driver.ValidEngine
open Rtosc Rtosc.Osc

def crash : String := "crash:asan:heap-buffer-overflow"
def hang : String := "crash:signal:27"

def hex32 (v : UInt32) : String := toHex (put32 v)
def hex64 (v : UInt64) : String := toHex (put64 v)

def showVal (m : Bytes) (t : UInt8) (v : CVal) : Option String :=
  let p := hexByte t ++ ":"
  match v with
  | .zero => some (p ++ "-")
  | .tf b => some (p ++ (if b then "1" else "0"))
  | .w32 x => some (p ++ hex32 x)
  | .w64 x => some (p ++ hex64 x)
  | .midi a b c d => some (p ++ toHex [a, b, c, d])
  | .str off =>
    match CVal.view m (.str off) with
    | some (.arg (.str s)) => some (p ++ "@" ++ toString off ++ ":" ++ toHex s)
    | _ => none
  | .blob len off =>
    match CVal.view m (.blob len off) with
    | some (.arg (.blob d)) =>
      if len.toNat = 0 then some (p ++ "0@-:-")
      else some (p ++ toString len.toNat ++ "@" ++ toString off ++ ":" ++ toHex d)
    | _ => none

def joinOpt (xs : List (Option String)) : Option String :=
  (xs.mapM id).map fun l => if l.isEmpty then "-" else ",".intercalate l

/-- all readers on the block `m` (`none`: some read leaves the block) -/
def readers (m : Bytes) : Option String := do
  let a ← argString m
  let ts ← cstrAt m a
  let n ← narguments m
  let idx := List.range n
  let tys ← idx.mapM (typeAt m)
  let av ← joinOpt (idx.map fun i =>
    match typeAt m i, argument m i with
    | some t, some v => showVal m t v
    | _, _ => none)
  let itl ← iterate m
  let it ← joinOpt (itl.map fun (t, v) => showVal m t v)
  pure s!"as={a}:{toHex ts} n={n} ty={toHex tys} av={av} it={it}"

def b01 (b : Bool) : String := if b then "1" else "0"

def step (line : String) : String :=
  match words line with
  | ["V", h] =>
    match ofHex h with
    | none => "bad-op"
    | some m =>
      match V.messageLength m m.length with
      | .oob => crash
      | .spin => hang
      | .ok len =>
        match V.validMessageP m m.length with
        | .oob => crash
        | .spin => hang
        | .ok false =>
          if len > m.length then s!"len={len} valid=0"
          else if 0 < len ∧ len < m.length then
            match V.validMessageP (m.take len) len with
            | .ok true => s!"len={len} valid=0"
            | _ => "len=ok valid=0"
          else "len=ok valid=0"
        | .ok true =>
          match readers m with
          | none => crash
          | some r => s!"len={len} valid=1 {r}"
  | ["T", h] =>
    match ofHex h with
    | none => "bad-op"
    | some m =>
      let l := (Spec.decodeLax m).isSome
      let s := (Spec.decode m).isSome
      s!"nc={b01 (l && !s)} lax={b01 l} strict={b01 s}"
  | _ => "bad-op"

def engine : Driver.Engine := Driver.stateless step
end Driver.ValidEngine
