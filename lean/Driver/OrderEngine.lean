/- Engine `order` (C13): not built yet. -/
import Driver.Common
namespace Driver.OrderEngine
def engine : Driver.Engine := Driver.stateless (fun _ => "unimplemented")
end Driver.OrderEngine
