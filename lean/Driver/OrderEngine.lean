/- Engine `order` (C13): same op protocol and model as engine `save` (mode `perm`). -/
import Driver.SaveEngine
namespace Driver.OrderEngine
def engine : Driver.Engine := Driver.SaveEngine.engine
end Driver.OrderEngine
