-- driver executable for engine `valid` (C07); imports model files only, so it links
import Driver.ValidEngine
def main : IO UInt32 := do Driver.run Driver.ValidEngine.engine; return 0
