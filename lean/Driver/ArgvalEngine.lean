/-
  Engine `argval` (C16).  Op line: `<list> <list> [<list>] [tokens starting with '=' or '#' …]`
  (cell syntax: see harness/argval.cpp).  Output:
  `E <eq of every ordered pair> C <sign of cmp> I <iteration>;… M <avmessage bytes> …`
-/
import RtoscModel.ArgVal.Cmp
import RtoscModel.ArgVal.Msg
import Driver.Common
namespace Driver.ArgvalEngine
open Rtosc Rtosc.ArgVal

def fuel : Nat := 100000000

def hexNat (s : String) : Option Nat :=
  s.toList.foldlM (fun acc c => (hexVal c).map (fun d => acc * 16 + d)) 0

def parseCell (t : String) : Option Cell :=
  match t.toList with
  | [] => none
  | k :: rest =>
    let r := String.ofList rest
    if k = 'i' then r.toInt?.map (Cell.int .i)
    else if k = 'c' then r.toInt?.map (Cell.int .c)
    else if k = 'r' then r.toInt?.map (Cell.int .r)
    else if k = 'h' then r.toInt?.map Cell.huge
    else if k = 't' then r.toNat?.map Cell.time
    else if k = 'f' then (if rest.length = 8 then (hexNat r).map (fun n => Cell.flt (UInt32.ofNat n)) else none)
    else if k = 'd' then (if rest.length = 16 then (hexNat r).map (fun n => Cell.dbl (UInt64.ofNat n)) else none)
    else if k = 'm' then
      match ofHex r with
      | some [a, b, c, d] => some (Cell.midi a b c d)
      | _ => none
    else if k = 's' ∨ k = 'S' then
      let ty : StrTy := if k = 's' then .s else .S
      if r = "~" then some (Cell.str ty none) else (ofHex r).map (fun b => Cell.str ty (some b))
    else if k = 'b' then (ofHex r).map Cell.blob
    else if k = 'T' then (if rest.isEmpty then some (Cell.flag .T) else none)
    else if k = 'F' then (if rest.isEmpty then some (Cell.flag .F) else none)
    else if k = 'N' then (if rest.isEmpty then some (Cell.flag .N) else none)
    else if k = 'I' then (if rest.isEmpty then some (Cell.flag .I) else none)
    else if k = 'a' then
      match r.splitOn "." with
      | [ty, len] =>
        match ofHex ty, len.toInt? with
        | some [b], some l => some (Cell.arr b l)
        | _, _ => none
      | _ => none
    else if k = '-' then
      match r.splitOn "." with
      | [num, hd] =>
        match num.toInt?, hd.toInt? with
        | some n, some h => some (Cell.rep n h)
        | _, _ => none
      | _ => none
    else none

def parseList (tok : String) : Option (List Cell) :=
  if tok = "-" then some [] else (tok.splitOn ",").mapM parseCell

def hex32 (v : UInt32) : String :=
  String.join (([24, 16, 8, 0] : List UInt32).map fun s => hexByte (v >>> s).toUInt8)
def hex64 (v : UInt64) : String :=
  String.join (([56, 48, 40, 32, 24, 16, 8, 0] : List UInt64).map fun s => hexByte (v >>> s).toUInt8)

def showCell : Cell → String
  | .int .i v => s!"i{v}"
  | .int .c v => s!"c{v}"
  | .int .r v => s!"r{v}"
  | .huge v => s!"h{v}"
  | .time v => s!"t{v}"
  | .flt b => "f" ++ hex32 b
  | .dbl b => "d" ++ hex64 b
  | .midi a b c d => "m" ++ toHex [a, b, c, d]
  | .str ty none => (if ty = .s then "s" else "S") ++ "~"
  | .str ty (some s) => (if ty = .s then "s" else "S") ++ toHex (cstrOf s)
  | .blob d => "b" ++ toHex d
  | .flag .T => "T"
  | .flag .F => "F"
  | .flag .N => "N"
  | .flag .I => "I"
  | .arr ty len => s!"a{hexByte ty}.{len}"
  | .rep n h => s!"-{n}.{h}"

def showErr : Err → String
  | .oob => "!oob" | .undef => "!undef" | .exit => "!exit"
  | .nan => "!nan" | .fuel => "!fuel"

def showRes {α} (f : α → String) : Res α → String
  | .ok a => f a
  | .error e => showErr e

/-- walk a list and print what the iterator yields; a yielded array is printed with the
    iteration of its own cells -/
partial def showIter (l : List Cell) (size : Nat) : String :=
  match iterate fuel (Itr.init l) size with
  | .error e => showErr e
  | .ok ps =>
    ",".intercalate (ps.map fun p =>
      match p with
      | [] => "!oob"
      | .arr ty len :: rest => s!"a{hexByte ty}[{showIter rest len.toNat}]"
      | c :: _ => showCell c)

def hasInf (l : List Cell) : Bool := l.any fun c => match c with | .rep 0 _ => true | _ => false
def hasNull (l : List Cell) : Bool := l.any fun c => match c with | .str _ none => true | _ => false

def showMsg (l : List Cell) : String :=
  if hasInf l then "inf" else if hasNull l then "null" else
  match avmessage fuel none [47, 112] l.length l with
  | .error e => showErr e
  | .ok none => "!undef"
  | .ok (some r0) =>
    match avmessage fuel (some (List.replicate r0.ret 170)) [47, 112] l.length l with
    | .ok (some ⟨some buf, ret, false⟩) => if ret = 0 then "toolong" else toHex (buf.take ret)
    | .ok (some ⟨_, _, true⟩) => "!write-oob"
    | .ok _ => "!undef"
    | .error e => showErr e

def step (line : String) : String :=
  let ws := (words line).takeWhile fun t => !(t.startsWith "=" || t.startsWith "#")
  match ws.mapM parseList with
  | none => "bad-op"
  | some ls =>
    if ls.length < 1 ∨ ls.length > 3 then "bad-op" else
    let pairs := ls.flatMap fun x => ls.map fun y => (x, y)
    let e := pairs.map fun (x, y) => showRes (fun (b : Bool) => if b then "1" else "0") (eq fuel x y x.length y.length)
    let c := pairs.map fun (x, y) => showRes (fun (v : Int) => toString (Int.sign v)) (cmp fuel x y x.length y.length)
    let i := ls.map fun x => if hasInf x then "inf" else
      let s := showIter x x.length
      if s.isEmpty then "-" else s
    let m := ls.map showMsg
    "E " ++ " ".intercalate e ++ " C " ++ " ".intercalate c ++ " I " ++ ";".intercalate i ++ " M " ++ " ".intercalate m

def engine : Driver.Engine := Driver.stateless step
end Driver.ArgvalEngine
