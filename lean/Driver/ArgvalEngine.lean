/-
  Engine `argval` (C16).  Op line: `<list> <list> [<list>] [tags starting with '=' …] [# …]`
  (cell syntax and tags `=o1 =o2 =sg =uIJ =law =same01`: see harness/argval.cpp).  Output:
  `E <eq of every ordered pair> C <sign of cmp; x = non-zero, sign withheld (=uIJ)> [L <law verdict on the raw signs>]
   I <iteration>;… M <avmessage bytes | ~k = same bytes as list k, for a list with an array> …`
-/
import RtoscModel.ArgVal.Cmp
import RtoscModel.ArgVal.Msg
import Driver.Common
namespace Driver.ArgvalEngine
open Rtosc Rtosc.ArgVal

def fuel : Nat := 100000000

def hexNat (s : String) : Option Nat :=
  s.toList.foldlM (fun acc c => (hexVal c).map (fun d => acc * 16 + d)) 0

def parseCell (t : String) : Option Cell :=
  match t.toList with
  | [] => none
  | k :: rest =>
    let r := String.ofList rest
    if k = 'i' then r.toInt?.map (Cell.int .i)
    else if k = 'c' then r.toInt?.map (Cell.int .c)
    else if k = 'r' then r.toInt?.map (Cell.int .r)
    else if k = 'h' then r.toInt?.map Cell.huge
    else if k = 't' then r.toNat?.map Cell.time
    else if k = 'f' then (if rest.length = 8 then (hexNat r).map (fun n => Cell.flt (UInt32.ofNat n)) else none)
    else if k = 'd' then (if rest.length = 16 then (hexNat r).map (fun n => Cell.dbl (UInt64.ofNat n)) else none)
    else if k = 'm' then
      match ofHex r with
      | some [a, b, c, d] => some (Cell.midi a b c d)
      | _ => none
    else if k = 's' ∨ k = 'S' then
      let ty : StrTy := if k = 's' then .s else .S
      if r = "~" then some (Cell.str ty none) else (ofHex r).map (fun b => Cell.str ty (some b))
    else if k = 'b' then (ofHex r).map Cell.blob
    else if k = 'T' then (if rest.isEmpty then some (Cell.flag .T) else none)
    else if k = 'F' then (if rest.isEmpty then some (Cell.flag .F) else none)
    else if k = 'N' then (if rest.isEmpty then some (Cell.flag .N) else none)
    else if k = 'I' then (if rest.isEmpty then some (Cell.flag .I) else none)
    else if k = 'a' then
      match r.splitOn "." with
      | [ty, len] =>
        match ofHex ty, len.toInt? with
        | some [b], some l => some (Cell.arr b l)
        | _, _ => none
      | _ => none
    else if k = '-' then
      match r.splitOn "." with
      | [num, hd] =>
        match num.toInt?, hd.toInt? with
        | some n, some h => some (Cell.rep n h)
        | _, _ => none
      | _ => none
    else none

def parseList (tok : String) : Option (List Cell) :=
  if tok = "-" then some [] else (tok.splitOn ",").mapM parseCell

def hex32 (v : UInt32) : String :=
  String.join (([24, 16, 8, 0] : List UInt32).map fun s => hexByte (v >>> s).toUInt8)
def hex64 (v : UInt64) : String :=
  String.join (([56, 48, 40, 32, 24, 16, 8, 0] : List UInt64).map fun s => hexByte (v >>> s).toUInt8)

def showCell : Cell → String
  | .int .i v => s!"i{v}"
  | .int .c v => s!"c{v}"
  | .int .r v => s!"r{v}"
  | .huge v => s!"h{v}"
  | .time v => s!"t{v}"
  | .flt b => "f" ++ hex32 b
  | .dbl b => "d" ++ hex64 b
  | .midi a b c d => "m" ++ toHex [a, b, c, d]
  | .str ty none => (if ty = .s then "s" else "S") ++ "~"
  | .str ty (some s) => (if ty = .s then "s" else "S") ++ toHex (cstrOf s)
  | .blob d => "b" ++ toHex d
  | .flag .T => "T"
  | .flag .F => "F"
  | .flag .N => "N"
  | .flag .I => "I"
  | .arr ty len => s!"a{hexByte ty}.{len}"
  | .rep n h => s!"-{n}.{h}"

def showErr : Err → String
  | .oob => "!oob" | .undef => "!undef" | .exit => "!exit"
  | .nan => "!nan" | .fuel => "!fuel"

def showRes {α} (f : α → String) : Res α → String
  | .ok a => f a
  | .error e => showErr e

/-- walk a list and print what the iterator yields; a yielded array is printed with the
    iteration of its own cells -/
partial def showIter (l : List Cell) (size : Nat) : String :=
  match iterate fuel (Itr.init l) size with
  | .error e => showErr e
  | .ok ps =>
    ",".intercalate (ps.map fun p =>
      match p with
      | [] => "!oob"
      | .arr ty len :: rest => s!"a{hexByte ty}[{showIter rest len.toNat}]"
      | c :: _ => showCell c)

def hasInf (l : List Cell) : Bool := l.any fun c => match c with | .rep 0 _ => true | _ => false
def hasNull (l : List Cell) : Bool := l.any fun c => match c with | .str _ none => true | _ => false

def showMsg (l : List Cell) : String :=
  if hasInf l then "inf" else if hasNull l then "null" else
  match avmessage fuel none [47, 112] l.length l with
  | .error e => showErr e
  | .ok none => "!undef"
  | .ok (some r0) =>
    match avmessage fuel (some (List.replicate r0.ret 170)) [47, 112] l.length l with
    | .ok (some ⟨some buf, ret, false⟩) => if ret = 0 then "toolong" else toHex (buf.take ret)
    | .ok (some ⟨_, _, true⟩) => "!write-oob"
    | .ok _ => "!undef"
    | .error e => showErr e

/-- a list that is exactly one value (a scalar cell, or one array with its cells) -/
def isSingle (l : List Cell) : Bool :=
  match l with
  | [] => false
  | .rep _ _ :: _ => false
  | .arr _ len :: _ => len + 1 == (l.length : Int)
  | _ :: rest => rest.isEmpty

def at2 (w : String) (i j : Nat) : String := s!"{w}{i}{j}"

/-- the order laws (and, with `=same01`, compress-blindness) on the raw signs: the same check, in the
    same order, as `law_verdict` of harness/argval.cpp -/
def lawVerdict (n : Nat) (E C : Nat → Nat → Int) (same01 : Bool) : String :=
  let idx := List.range n
  let r1 : Option String := idx.findSome? fun i =>
    if E i i ≠ 1 ∨ C i i ≠ 0 then some (at2 "refl" i i) else
    idx.findSome? fun j =>
      if C i j ≠ - C j i then some (at2 "antisym" i j)
      else if (E i j == 1) != (C i j == 0) then some (at2 "eqcmp" i j) else none
  match r1 with
  | some s => s
  | none =>
  let r2 : Option String := idx.findSome? fun i => idx.findSome? fun j => idx.findSome? fun k =>
    if C i j ≤ 0 ∧ C j k ≤ 0 then
      if C i k > 0 then some (at2 "trans" i j ++ toString k)
      else if (C i j < 0 ∨ C j k < 0) ∧ C i k = 0 then some (at2 "strict" i j ++ toString k) else none
    else none
  match r2 with
  | some s => s
  | none =>
    if same01 && n ≥ 2 then
      if E 0 1 ≠ 1 ∨ C 0 1 ≠ 0 then "same01" else
      match idx.findSome? fun k =>
        if E 0 k ≠ E 1 k ∨ E k 0 ≠ E k 1 ∨ C 0 k ≠ C 1 k ∨ C k 0 ≠ C k 1 then some (at2 "same" 0 k) else none with
      | some s => s
      | none => "ok"
    else "ok"

/-- tags behind the lists (see harness/argval.cpp): `=o1`/`=o2` only select the options pointer the
    implementation is called with (the model is the comparison with tolerance 0.0 either way) -/
def step (line : String) : String :=
  let all := words line
  let ws := all.takeWhile fun t => !(t.startsWith "=" || t.startsWith "#")
  let tags := (all.drop ws.length).takeWhile fun t => !t.startsWith "#"
  match ws.mapM parseList with
  | none => "bad-op"
  | some ls =>
    if ls.length < 1 ∨ ls.length > 3 then "bad-op" else
    let n := ls.length
    let sg := tags.contains "=sg"
    let law := tags.contains "=law"
    let same01 := tags.contains "=same01"
    let hide (i j : Nat) : Bool :=
      tags.contains s!"=u{i}{j}" || tags.contains s!"=u{j}{i}"
    let pairs := ls.flatMap fun x => ls.map fun y => (x, y)
    let er : List (Res Bool) := pairs.map fun (x, y) =>
      if sg && isSingle x && isSingle y then eqSingle fuel x y else eq fuel x y x.length y.length
    let cr : List (Res Int) := pairs.map fun (x, y) =>
      (if sg && isSingle x && isSingle y then cmpSingle fuel x y else cmp fuel x y x.length y.length).map Int.sign
    let e := er.map (showRes fun (b : Bool) => if b then "1" else "0")
    let c := (List.range (n * n)).map fun p =>
      match cr.getD p (.error .oob) with
      | .ok v => if hide (p / n) (p % n) && v ≠ 0 then "x" else toString v
      | .error err => showErr err
    let verdict : String :=
      if !law then "" else
      let ev := er.mapM fun r => match r with | .ok b => some (if b then (1 : Int) else 0) | .error _ => none
      let cv := cr.mapM fun r => match r with | .ok v => some v | .error _ => none
      match ev, cv with
      | some ev, some cv =>
        " L " ++ lawVerdict n (fun i j => ev.getD (i * n + j) 0) (fun i j => cv.getD (i * n + j) 0) same01
      | _, _ => " L err"
    let i := ls.map fun x => if hasInf x then "inf" else
      let s := showIter x x.length
      if s.isEmpty then "-" else s
    let ms := ls.map showMsg
    -- a list with an array: only "same bytes as list k of this line"
    let m := (List.range n).map fun p =>
      let mp := ms.getD p ""
      let hasArr := (ls.getD p []).any fun cl => match cl with | .arr _ _ => true | _ => false
      if !hasArr || mp == "inf" || mp == "null" then mp
      else s!"~{(ms.findIdx? (· == mp)).getD p}"
    "E " ++ " ".intercalate e ++ " C " ++ " ".intercalate c ++ verdict ++ " I " ++ ";".intercalate i
      ++ " M " ++ " ".intercalate m

def engine : Driver.Engine := Driver.stateless step
end Driver.ArgvalEngine
