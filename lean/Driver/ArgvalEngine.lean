/- Engine `argval` (C16): not built yet. -/
import Driver.Common
namespace Driver.ArgvalEngine
def engine : Driver.Engine := Driver.stateless (fun _ => "unimplemented")
end Driver.ArgvalEngine
