/- Engine `save` (C12): not built yet. -/
import Driver.Common
namespace Driver.SaveEngine
def engine : Driver.Engine := Driver.stateless (fun _ => "unimplemented")
end Driver.SaveEngine
