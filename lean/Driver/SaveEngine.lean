/-
  Engine `save` (C12) and, through `Driver.OrderEngine`, `order` (C13).
  Op line:  <mode> <app> <descriptor> <history> <x1> <x2>      (see harness/save.cpp)
  The descriptor instantiates the Lean `App`:
     appid | param;param;… | walk;… | tree;…
     param = addr,kind,dflt,guards,anc,canon      (rank order)
     walk  = s<idx> | a<base>:<first>:<len>
     tree  = depth,namehex,enabledByHex|-,dependsHex|-,defaultDependsHex|-   (pre-order)
  Mode `wf` (driver only, used by tools/props/c12.py to report which hypotheses of the theorems hold for
  each application of the pool): Bool versions of `App.WF`'s clauses, `MetaCovers` and `MetaRanked`.
-/
import RtoscModel.Save.Spec
import RtoscModel.Save.Apropos
import RtoscModel.Save.Text
import Driver.Common
namespace Driver.SaveEngine
open Rtosc Rtosc.Save

def splitC (s : String) (c : Char) : List String := s.splitOn (String.singleton c)

def hexToPath (s : String) : Option Path :=
  if s = "" then some [] else (ofHex s).map fun bs => bs.map fun b => Char.ofNat b.toNat

def hexToBytes (s : String) : Option (List UInt8) :=
  if s = "" then some [] else ofHex s

def hexNat (s : String) : Option Nat :=
  s.toList.foldlM (fun n c => (hexVal c).map fun d => n * 16 + d) 0

def parseVal (s : String) : Option Val :=
  match s.toList with
  | 'i' :: r => (String.ofList r).toInt?.map Val.int
  | 'c' :: r => (String.ofList r).toInt?.map Val.chr
  | 'f' :: r => (hexNat (String.ofList r)).map fun n => Val.flt (UInt32.ofNat n)
  | ['T'] => some (.bool true)
  | ['F'] => some (.bool false)
  | 'S' :: r => (hexToPath (String.ofList r)).map Val.sym
  | 's' :: r => (hexToBytes (String.ofList r)).map Val.str
  | _ => none

def optInt (s : String) : Option (Option Int) :=
  if s = "" then some none else s.toInt?.map some

def optFlt (s : String) : Option (Option UInt32) :=
  if s = "" then some none else (hexNat s).map fun n => some (UInt32.ofNat n)

def parseKind (s : String) : Option Kind :=
  match s.toList with
  | 'I' :: r => match splitC (String.ofList r) ':' with
    | [a, b] => do pure (.int (← optInt a) (← optInt b))
    | _ => none
  | 'H' :: r => match splitC (String.ofList r) ':' with
    | [a, b] => do pure (.ichar (← optInt a) (← optInt b))
    | _ => none
  | ['C'] => some .chr
  | 'X' :: r => match splitC (String.ofList r) ':' with
    | [a, b] => do pure (.flt (← optFlt a) (← optFlt b))
    | _ => none
  | ['T'] => some .tog
  | 'O' :: r => some (.opt ((splitC (String.ofList r) '.').map String.toList))
  | 'Z' :: r => (String.ofList r).toNat?.map Kind.str
  | _ => none

def parseDflt (s : String) : Option Dflt :=
  match s.toList with
  | 'K' :: r => (parseVal (String.ofList r)).map Dflt.const
  | 'P' :: r => match splitC (String.ofList r) ':' with
    | [p, tbl, fb] => do
      let parent ← p.toNat?
      let ents ← (if tbl = "" then some [] else
        (splitC tbl '/').mapM fun e => match splitC e '=' with
          | [k, v] => do pure ((← k.toInt?), (← parseVal v))
          | _ => none)
      pure (.preset parent ents (← parseVal fb))
    | _ => none
  | _ => none

def parseGuards (s : String) : Option (List (Nat × Bool)) :=
  if s = "-" then some [] else
  (splitC s '.').mapM fun g =>
    match g.toList.reverse with
    | 'p' :: r => (String.ofList r.reverse).toNat?.map fun n => (n, true)
    | 'e' :: r => (String.ofList r.reverse).toNat?.map fun n => (n, false)
    | _ => none

def parseNats (s : String) : Option (List Nat) :=
  if s = "-" then some [] else (splitC s '.').mapM String.toNat?

def parseParam (s : String) : Option Param :=
  match splitC s ',' with
  | [a, k, d, g, an, c] => do
    pure { addr := a.toList, kind := ← parseKind k, dflt := ← parseDflt d, guards := ← parseGuards g,
           anc := ← parseNats an, canon := ← parseVal c }
  | _ => none

def parseItem (s : String) : Option Item :=
  match s.toList with
  | 's' :: r => (String.ofList r).toNat?.map Item.scalar
  | 'a' :: r => match splitC (String.ofList r) ':' with
    | [b, f, l] => do pure (.array b.toList (← f.toNat?) (← l.toNat?))
    | _ => none
  | _ => none

def optPath (s : String) : Option (Option Path) :=
  if s = "-" then some none else (hexToPath s).map some

structure TreeEnt where
  depth : Nat
  name : Path
  deps : DepMeta

def parseTreeEnt (s : String) : Option TreeEnt :=
  match splitC s ',' with
  | [d, n, a, b, c] => do
    pure { depth := ← d.toNat?, name := ← hexToPath n,
           deps := { enabledBy := ← optPath a, depends := ← optPath b, defaultDepends := ← optPath c } }
  | _ => none

/-- rebuild the tree from the pre-order list: entries of depth `d`, each followed by its
    deeper entries -/
def buildTree : Nat → Nat → List TreeEnt → List PNode × List TreeEnt
  | 0, _, es => ([], es)
  | _, _, [] => ([], [])
  | fuel + 1, d, e :: es =>
    if e.depth < d then ([], e :: es)
    else
      let (kids, rest) := buildTree fuel (d + 1) es
      let (sibs, rest') := buildTree fuel d rest
      (PNode.mk e.name e.deps kids :: sibs, rest')

def parseApp (s : String) : Option App :=
  match splitC s '|' with
  | [name, ps, ws, ts] => do
    let params ← (if ps = "" then some [] else (splitC ps ';').mapM parseParam)
    let walk ← (if ws = "" then some [] else (splitC ws ';').mapM parseItem)
    let ents ← (if ts = "" then some [] else (splitC ts ';').mapM parseTreeEnt)
    let tree := (buildTree (2 * ents.length + 2) 0 ents).1
    pure { name := name.toList, params := params, walk := walk, apropos := scanLookup tree }
  | _ => none

/-- `tag~payload~tag~payload…` -/
def parseTagged : List String → Option (List Val)
  | [t, p] => (parseVal (t ++ p)).map fun v => [v]
  | t :: p :: r => do
    let v ← parseVal (t ++ p)
    let vs ← parseTagged r
    pure (v :: vs)
  | _ => none

def parseHist (s : String) : Option (List (Path × List Val)) :=
  if s = "-" then some [] else
  (splitC s ';').mapM fun m => match splitC m '~' with
    | [a, "-", ""] => some (a.toList, [])                       -- a message without arguments
    | a :: tps => (parseTagged tps).map fun vs => (a.toList, vs)  -- addr~tag~payload[~tag~payload…]
    | _ => none

/-! ### canonical output -/
def toHexChars (p : Path) : String := String.join (p.map fun c => hexByte (UInt8.ofNat c.toNat))

def showVal : Val → String
  | .int i => s!"i{i}"
  | .chr c => s!"c{c}"
  | .flt b => "f" ++ String.join ((List.range 4).reverse.map fun k => hexByte (UInt8.ofNat (b.toNat / 256 ^ k % 256)))
  | .bool true => "T"
  | .bool false => "F"
  | .sym s => "S" ++ toHexChars s
  | .str bs => "s" ++ String.join (bs.map hexByte)

def strLt (a b : String) : Bool := pathLt a.toList b.toList

def insertSorted (x : String) : List String → List String
  | [] => [x]
  | y :: r => if strLt x y then x :: y :: r else y :: insertSorted x r

def sortStrs (l : List String) : List String := l.foldr insertSorted []

def joinOr (l : List String) (sep : String) : String := if l.isEmpty then "-" else sep.intercalate l

def showFields (app : App) (s : State) : String :=
  joinOr (sortStrs ((List.range app.size).filterMap fun i =>
    let p := app.param i
    if guardsOn p s then some (String.ofList p.addr ++ "=" ++ showVal (s i)) else none)) ","

/-- an enumeration symbol and its index denote the same value: print the index -/
def normVal (app : App) (addr : Path) (v : Val) : Val :=
  match v, app.findAddr addr with
  | .sym s, some i =>
    match (app.param i).kind with
    | .opt names => match enumKey names s with | some k => .int k | none => v
    | _ => v
  | _, _ => v

def normLine (app : App) (l : Line) : Line :=
  match l.args with
  | .plain vs => ⟨l.addr, .plain (vs.map (normVal app l.addr))⟩
  | .arr vs => ⟨l.addr, .arr (vs.zipIdx.map fun (v, k) => normVal app (l.addr ++ natDigits k) v)⟩   -- rArrayOption

/-- an array line shown with all elements of the array: the elements the file leaves out (they equal the
    default) are taken from the saved state — the property does not say how much of an array a line spells out -/
def padLine (app : App) (s : State) (l : Line) : Line :=
  match l.args with
  | .plain _ => l
  | .arr vs =>
    match app.walk.findSome? (fun it => match it with
        | .array base first len => if base = l.addr then some (first, len) else none
        | _ => none) with
    | none => l
    | some (first, len) =>
      ⟨l.addr, .arr (vs ++ ((List.range len).drop vs.length).map fun k => mapArgVal (app.param (first + k)).kind (s (first + k)))⟩

/-- Text stage of the unchanged library (known finding C12-K9): a float holding +infinity or a NaN (sign bit
    clear) is printed `inf (inf)` / `nan (nan)`, which the scanner reads as a keyword followed by garbage: such a
    line does not scan back (`Rtosc.C12.scansBack`).  -/
def scansBack (l : Line) : Bool :=
  let vs := match l.args with | .plain vs => vs | .arr vs => vs
  -- +infinity `inf (inf)` or a NaN without sign bit `nan (nan)`: exponent all ones, sign bit clear
  (vs.all fun v => match v with | .flt b => !(decide (2139095040 ≤ b.toNat ∧ b.toNat < 2147483648)) | _ => true) &&
  -- C12-K10: an array line that mixes enumeration symbols and ints (rArrayOption with an element that is no option's
  -- index next to one that is) is a syntax error for the scanner (`Rtosc.C12.uniformArr`)
  (match l.args with
   | .plain _ => true
   | .arr es => !((es.any fun v => match v with | .sym _ => true | _ => false) &&
                  (es.any fun v => match v with | .int _ => true | _ => false)))

def showLine (l : Line) : String :=
  String.ofList l.addr ++ ":" ++
  match l.args with
  | .plain vs => ";".intercalate (vs.map showVal)
  | .arr vs => "[" ++ ";".intercalate (vs.map showVal) ++ "]"

def showLines (app : App) (s : State) (ls : List Line) : String :=
  joinOr (sortStrs (ls.map fun l => showLine (normLine app (padLine app s l)))) ","

def showRes : LoadRes → String
  | .ok _ n => s!"R {n}"
  | .fail => "R neg"
  | .undefined => "R undefined"

def showResF (app : App) : LoadRes → String
  | .ok s n => s!"R {n} F {showFields app s}"
  | .fail => "R neg F -"
  | .undefined => "R undefined F -"

/-! ### permutations (same enumeration as the harness) -/
def insertAll (x : Nat) : List Nat → List (List Nat)
  | [] => [[x]]
  | y :: r => (x :: y :: r) :: (insertAll x r).map (y :: ·)

/-- lexicographic `std::next_permutation` order starting from the identity -/
def permsLex : Nat → List Nat → List (List Nat)
  | 0, _ => [[]]
  | _, [] => [[]]
  | fuel + 1, l => l.flatMap fun x => (permsLex fuel (l.erase x)).map (x :: ·)

def lcg (x : Nat) : Nat := (x * 1103515245 + 12345) % 2147483648

def swapAt (l : List Nat) (i j : Nat) : List Nat :=
  let a := l.getD i 0
  let b := l.getD j 0
  (l.set i b).set j a

/-- `for(i = n-1; i >= 1; --i) { j = lcg(x) % (i+1); swap(p[i], p[j]); }`, started as `shuffle (n-1)` -/
def shuffle : Nat → List Nat → Nat → List Nat × Nat
  | 0, p, x => (p, x)
  | i + 1, p, x =>
    let x' := lcg x
    let j := x' % (i + 2)
    shuffle i (swapAt p (i + 1) j) x'

def randomPerms : Nat → Nat → Nat → List (List Nat)
  | 0, _, _ => []
  | k + 1, n, x =>
    let (p, x') := shuffle (n - 1) (List.range n) x
    p :: randomPerms k n x'

/-- the two results print the same (`showResF`): same outcome and count, the same parameters visible, with the
    same values — decided without building the strings -/
def sameRes (app : App) (a b : LoadRes) : Bool :=
  match a, b with
  | .ok s n, .ok t m =>
    n == m && (app.params.zipIdx.all fun (p, i) =>
      let gs := guardsOn p s
      gs == guardsOn p t && (!gs || decide (s i = t i)))
  | .fail, .fail => true
  | .undefined, .undefined => true
  | _, _ => false

/-- `App.load` together with "Kahn's algorithm output every message of the file" (what the harness observes by
    counting `on_dispatch`): the flag is only meaningful for a load that succeeds -/
def loadApplied (app : App) (ls : List Line) (s : State) : LoadRes × Bool :=
  match dependees app.apropos scanFuel (ls.map (·.addr)) with
  | none => (.undefined, true)
  | some deps =>
    match kahn deps with
    | none => (.undefined, true)
    | some order =>
      match app.applyOrder ls order s with
      | none => (.fail, true)
      | some s' => (.ok s' ls.length, order.length == ls.length)

/-! ### Bool versions of the theorems' hypotheses, evaluated per application (mode `wf`) -/
def coversFor (app : App) (anc : List Nat) (addr : Path) : Bool :=
  let refs : List Path := refsOf app.apropos addr
  anc.all fun a =>
    refs.contains (app.param a).addr ||
    anc.any fun m => (app.param m).anc.contains a && refs.contains (app.param m).addr

/-- `App.MetaCovers` -/
def coversB (app : App) : Bool :=
  ((List.range app.size).all fun d => coversFor app (app.param d).anc (app.param d).addr) &&
  app.walk.all fun it => match it with
    | .scalar _ => true
    | .array base first _ => coversFor app (app.param first).anc base

/-- depth of the reference graph below `X` (`none`: deeper than the fuel) -/
def refDepth (ap : Path → Option DepMeta) : Nat → Path → Option Nat
  | 0, _ => none
  | fuel + 1, X => (refsOf ap X).foldl (fun acc Y => match acc, refDepth ap fuel Y with
      | some a, some b => some (max a (b + 1))
      | _, _ => none) (some 0)

/-- `MetaRanked` on the paths the scan can start from (the addresses of the walk) -/
def rankedB (app : App) : Bool :=
  (app.walk.map app.itemAddr ++ app.params.map (·.addr)).all fun X => (refDepth app.apropos scanFuel X).isSome

def ancLtB (app : App) : Bool := (List.range app.size).all fun i => (app.param i).anc.all fun a => a < i
def closedB (app : App) : Bool := (List.range app.size).all fun i => (app.param i).anc.all fun a =>
  (app.param a).anc.all fun b => (app.param i).anc.contains b
def chainB (app : App) : Bool :=
  (List.range app.size).all fun i => (app.param i).anc.all fun a => (app.param i).anc.all fun b =>
    a == b || (app.param b).anc.contains a || (app.param a).anc.contains b
def guardsAncB (app : App) : Bool := (List.range app.size).all fun i => (app.param i).guards.all fun g => (app.param i).anc.contains g.1
def presetAncB (app : App) : Bool := (List.range app.size).all fun i => match (app.param i).dflt with
  | .preset par _ _ => (app.param i).anc.contains par
  | .const _ => true
def addrNodupB (app : App) : Bool :=
  let as := app.params.map (·.addr)
  as.eraseDups.length == as.length
def itemAddrNodupB (app : App) : Bool :=
  let as := app.walk.map app.itemAddr
  as.eraseDups.length == as.length
def canonB (app : App) : Bool := (List.range app.size).all fun i => decide ((app.param i).canon = evalDflt (app.param i) app.init)
def dfltStorableB (app : App) : Bool := (List.range app.size).all fun i =>
  let k := (app.param i).kind
  (app.param i).dflt.vals.all fun v => decide (store k (mapArgVal k (canonicalize k v)) = some (canonicalize k v))
/-- `WF.array_ok`; the second component: all its clauses except "constant defaults" -/
def arrayOkB (app : App) : Bool × Bool :=
  app.walk.foldl (fun acc it => match it with
    | .scalar _ => acc
    | .array base first len =>
      let shape := (app.findAddr base).isNone && (List.range len).all fun k =>
        let p := app.param (first + k)
        p.addr == base ++ natDigits k && p.guards == (app.param first).guards && p.anc == (app.param first).anc &&
        (List.range app.size).all fun j => !(app.param j).anc.contains (first + k)
      let const := (List.range len).all fun k => match (app.param (first + k)).dflt with | .const _ => true | _ => false
      (acc.1 && shape && const, acc.2 && shape)) (true, true)

def b01 (b : Bool) : String := if b then "1" else "0"

def wfReport (app : App) : String :=
  let ao := arrayOkB app
  s!"WF addr_nodup={b01 (addrNodupB app)} anc_lt={b01 (ancLtB app)} anc_closed={b01 (closedB app)} anc_chain={b01 (chainB app)} " ++
  s!"guards_anc={b01 (guardsAncB app)} preset_anc={b01 (presetAncB app)} dflt_storable={b01 (dfltStorableB app)} canon_ok={b01 (canonB app)} " ++
  s!"item_addr_nodup={b01 (itemAddrNodupB app)} array_ok={b01 ao.1} array_shape={b01 ao.2} MetaCovers={b01 (coversB app)} MetaRanked={b01 (rankedB app)}"

/-! ### the saved state as the implementation dumped it -/

/-- the state whose enabled view is the dump `addr=value,…` (7th token of the op line, appended by
    tools/props/c12.py from the implementation's own output): the parameters the dump lists hold the listed
    values, every other parameter (hidden in a disabled sub-tree) its fresh value.  The property is about the
    state that was saved, however the callbacks (C14) brought it about. -/
def stateOfDump (app : App) (o : String) : Option State :=
  if o = "-" then some app.init else do
    let ents ← (splitC o ',').mapM fun e => match splitC e '=' with
      | [a, v] => (parseVal v).map fun x => (a.toList, x)
      | _ => none
    let vals : Array Val := (app.params.map fun p =>
      match ents.find? (fun e => e.1 == p.addr) with
      | some e => e.2
      | none => p.canon).toArray
    pure ⟨fun i => vals.getD i (app.param i).canon⟩

/-! ### header damage: the two header lines as text, one blank-separated token replaced or deleted -/
def splitB (c : UInt8) : List UInt8 → List (List UInt8)
  | [] => [[]]
  | x :: r =>
    match splitB c r with
    | [] => [[x]]
    | h :: t => if x = c then [] :: h :: t else (x :: h) :: t

def joinB (c : UInt8) : List (List UInt8) → List UInt8
  | [] => []
  | [t] => t
  | t :: r => t ++ c :: joinB c r

/-- what `load_from_file` makes of the damaged header (`Save/Text.lean`'s transcription of the two `sscanf`
    calls, run on the text): `none` = rejected; else the fields it read and what stands between the header and the
    first message (`none`: nothing; `some g`: a word `g`, read as a message of its own) -/
def damagedHeader (app : App) (ln idx : Nat) (alt : Option (List UInt8)) (hasBody : Bool) :
    Option (Option ((Nat × Nat × Nat) × Path × (Nat × Nat × Nat) × Option (List UInt8))) :=
  let hl : List (List UInt8) := [Text.header1 (0, 3, 1), Text.header2 app.name (1, 2, 3), []]
  match hl[ln]? with
  | none => none
  | some l =>
    let tk := splitB 32 l
    if idx ≥ tk.length then none else
    let tk' := match alt with
      | none => tk.eraseIdx idx
      | some b => tk.set idx b
    let hl' := hl.set ln (joinB 32 tk')
    let stub : List UInt8 := if hasBody then [47] else []
    let text := joinB 10 hl' ++ stub
    some <| match Text.parseHeader text with
    | none => none
    | some (rv, name, av, rest) =>
      let g := Libc.skipSpace rest
      if g == stub then some (rv, Text.bytesPath name, av, none)
      else
        let w := (if hasBody then g.dropLast else g)
        let w := (w.reverse.dropWhile Libc.isspace).reverse
        some (rv, Text.bytesPath name, av, some w)

def step (line : String) : String :=
  match words line with
  | mode :: _ :: desc :: hist :: x1 :: x2 :: _ =>
    match parseApp desc, parseHist hist with
    | some app, some h =>
      let sH := app.run h app.init
      -- the saved state: the one the implementation dumped, when the op line carries it
      let dump := (words line).getD 6 ""
      let sD := if dump = "" then none else stateOfDump app dump
      let s := sD.getD sH
      let shownO := if dump = "" || sD.isNone then showFields app sH else dump
      -- evidence only (removed by tools/props/c12.py): the dumped state is not the one the model's run of the history reaches
      let hd := if sD.isSome && showFields app sH != dump then " HD 1" else ""
      let ver : Nat × Nat × Nat := (0, 0, 0)
      let lines0 := app.save s
      -- what the scanner gets back from the text: the lines in front of the first one that does not scan
      let lines := lines0.takeWhile scansBack
      let allScan := lines.length == lines0.length
      let file0 := app.saveFile ver (1, 2, 3) s
      let fileT : File := { file0 with body := lines0.map fun l => if scansBack l then some l else none }
      let file : File := { file0 with body := lines.map some }
      if mode = "txt" then "TXT -" else
      if mode = "wf" then wfReport app else
      if mode = "meta" then
        match splitC desc '|' with
        | [_, _, _, ts] => "M " ++ ts
        | _ => "bad-op"
      else
      if mode = "sl" then
        let r := app.loadFile fileT app.init
        s!"O {shownO} S {showLines app s lines} H {if allScan then 1 else 0} {showResF app r}{hd}"
      else if mode = "bad" then
        let n := lines.length
        let f : Option File :=
          if x1 = "magic" then some { fileT with magic := false }
          else if x1 = "tok" then
            match splitC x2 ':' with
            | [a, b, c] =>
              match a.toNat?, b.toNat?, (if c = "-" then some none else (hexToBytes c).map some) with
              | some ln, some idx, some alt =>
                match damagedHeader app ln idx alt (!fileT.body.isEmpty) with
                | none => none
                | some none => some { fileT with magic := false }
                | some (some (rv, name, av, none)) => some { fileT with rtoscVer := rv, appName := name, appVer := av }
                | some (some (rv, name, av, some g)) =>
                  -- a word between the header and the first message: a comment swallows the rest of its line, an
                  -- address is a message without arguments, anything else does not parse
                  let extra : Option Line :=
                    if g.head? == some 47 && !g.any Libc.isspace then some ⟨Text.bytesPath g, .plain []⟩ else none
                  if g.head? == some 37 then some { fileT with rtoscVer := rv, appName := name, appVer := av }
                  else some { fileT with rtoscVer := rv, appName := name, appVer := av, body := extra :: fileT.body }
              | _, _, _ => none
            | _ => none
          else if x1 = "rver" then
            match (splitC x2 '.').map String.toNat? with
            | [some a, some b, some c] => some { fileT with rtoscVer := (a, b, c) }
            | _ => none
          else if x1 = "app" then some { fileT with appName := x2.toList }
          else if x1 = "aver" then
            match (splitC x2 '.').map String.toNat? with
            | [some a, some b, some c] => some { fileT with appVer := (a, b, c) }
            | _ => none
          else if x1 = "parse" then
            x2.toNat?.map fun k =>
              let k := k % (n + 1)
              { file with body := file.body.take k ++ [none] ++ file.body.drop k }
          else if x1 = "line" then
            match splitC x2 ':' with
            | [ks, m] =>
              match ks.toNat?, parseHist m with
              | some k, some [(a, vs)] =>
                let k := k % (n + 1)
                -- (an inserted line holding +infinity / NaN is printed as a word that does not scan)
                let ins : Line := ⟨a, .plain vs⟩
                some { file with body := file.body.take k ++ [if scansBack ins then some ins else none] ++ file.body.drop k }
              | _, _ => none
            | _ => none
          else none
        match f with
        | none => "bad-op"
        | some f => s!"O {shownO} " ++ showResF app (app.loadFile f app.init) ++ hd
      else if mode = "perm" then
        let n := lines.length
        -- (the file of a `perm` case has two good header lines and scannable messages: `loadFile` is `load`)
        let (r0, a0) := loadApplied app lines app.init
        let perms := if n ≤ 6 then permsLex (n + 1) (List.range n)
                     else randomPerms (x2.toNat?.getD 0) n (x1.toNat?.getD 0)
        let results := perms.map fun p => loadApplied app (p.filterMap fun i => lines[i]?) app.init
        let badIdx := results.findIdx fun r => !sameRes app r.1 r0
        let bad := if badIdx < perms.length then perms[badIdx]? else none
        let tried := results.take (badIdx + 1)
        let allApplied := a0 && tried.all fun r => r.2
        let tail := match bad with
          | none => s!"SAME 1"
          | some p =>
            let ls := p.filterMap fun i => lines[i]?
            "SAME 0 W " ++ ".".intercalate (p.map toString) ++ " " ++
              showResF app (app.loadFile { file with body := ls.map some } app.init)
        let cnt := match bad with
          | none => perms.length
          | some p => perms.idxOf p + 1
        s!"N {n} P {cnt} {showResF app r0} A {if allApplied then 1 else 0} {tail}"
      else "bad-op"
    | _, _ => "bad-op"
  | _ => "bad-op"

def engine : Driver.Engine := Driver.stateless step
end Driver.SaveEngine
