-- driver executable for engine `param` (C14); imports model files only, so it links
import Driver.ParamEngine
def main : IO UInt32 := do Driver.run Driver.ParamEngine.engine; return 0
