-- driver executable for engine `order` (C13); imports model files only, so it links
import Driver.OrderEngine
def main : IO UInt32 := do Driver.run Driver.OrderEngine.engine; return 0
