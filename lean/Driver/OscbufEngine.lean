/- Engine `oscbuf` (C02): not built yet. -/
import Driver.Common
namespace Driver.OscbufEngine
def engine : Driver.Engine := Driver.stateless (fun _ => "unimplemented")
end Driver.OscbufEngine
