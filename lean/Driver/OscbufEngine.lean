/-
  Engine `oscbuf` (C02): fixed-buffer discipline.  One op line = one message or bundle built
  into destinations of every capacity `lo..hi` (each an exact-size block pre-filled with 0xAA).

    M <A|V|L> <lo> <hi> <addr-hex> <tags-hex> <arg-token>*  rtosc_amessage / rtosc_vmessage (hand-built
                                                            va_list) / rtosc_message (literal call site:
                                                            the type string must be one of `templates`)
    J <A|V> <lo> <hi> <addr-hex> <tags-hex> <arg-token>*    the same with a type string that contains bytes
                                                            which are no type tags: outside the property's
                                                            input space, the model is not consulted
    B <lo> <hi> <tree>                                      rtosc_bundle (tree: see BundleEngine; the
                                                            capacity of the top-level node is replaced)
    T <maxmsg> <addr-hex> <tags-hex> <arg-token>*           ThreadLink::writeArray
    W<k> <maxmsg> <addr-hex> <arg-token>*                   ThreadLink::write, k-th literal call site
    R<k> <N> <cap> <addr-hex> <arg-token>*   /   Q<k> …     RtData::reply / broadcast, k-th call site; N and
                                                            cap: size of the wrapper's stack buffer and the
                                                            capacity it passes, read from ports.cpp by the check

  arg tokens as in engine `osc`:  w<8 hex>  q<16 hex>  m<8 hex>  s<hex|->  b<len>:<hex|-|N>
  Output of M:  z=<ret for (NULL,0)> zh=<ret for (NULL,hi)> g=ok c=<cap>:<ret>:<bytes>,…     (B: only g= c=)
    bytes: the `ret` bytes written; after a failed call (ret = 0) the whole block — hex, `z<n>` for n
    zero bytes, `-` for the empty block; `g=` is the harness' canary verdict.
  Output of J:  g=ok safe   (the harness itself checks: no store outside, ret = 0 with a zero-filled
    block or 0 < ret ≤ cap)
  If the model predicts an out-of-bounds store or read the line is the sanitizer's verdict.
-/
import Driver.BundleEngine
namespace Driver.OscbufEngine
open Rtosc Rtosc.Osc Driver.BundleEngine

def hexFixed (s : String) (n : Nat) : Option Nat :=
  match ofHex s with
  | some bs => if bs.length = n then some (natOfBytes bs) else none
  | none => none

def parseArg (tok : String) : Option CArg :=
  let body := (tok.drop 1).toString
  match tok.toList.head? with
  | some 'w' => (hexFixed body 4).map fun n => CArg.w32 (UInt32.ofNat n)
  | some 'q' => (hexFixed body 8).map fun n => CArg.w64 (UInt64.ofNat n)
  | some 'm' =>
    match ofHex body with
    | some [a, b, c, d] => some (.midi a b c d)
    | _ => none
  | some 's' => (ofHex body).map CArg.str
  | some 'b' =>
    match body.splitOn ":" with
    | [l, d] =>
      match l.toInt? with
      | none => none
      | some len =>
        let len32 := UInt32.ofNat ((len % 4294967296).toNat)
        if d = "N" then some (.blob len32 none)
        else (ofHex d).map fun data => CArg.blob len32 (some data)
    | _ => none
  | _ => none

/-- the promoted values a call site passes for `tags` and the union members `args` -/
def toVa : Bytes → List CArg → Option (List VaArg)
  | [], _ => some []
  | t :: ts, args =>
    if !hasReserved t then toVa ts args
    else
      match args with
      | [] => none
      | a :: as =>
        let rest := toVa ts as
        match a with
        | .w32 v => rest.map (VaArg.int v :: ·)
        | .w64 v => if t = 100 ∨ t = 102 then rest.map (VaArg.dbl v :: ·) else rest.map (VaArg.i64 v :: ·)
        | .midi a b c d => rest.map (VaArg.midi a b c d :: ·)
        | .str s => rest.map (VaArg.cstr s :: ·)
        | .blob len data => rest.map (fun r => VaArg.int len :: VaArg.ptr data :: r)

/-- the call with the destination block `blk` and the capacity `len` the caller passes -/
def construct (mode : String) (blk : Option Bytes) (len : Nat) (addr tags : Bytes) (args : List CArg) :
    Option AResult :=
  if mode = "A" then amessageAt blk len addr tags args
  else if mode = "V" then (toVa tags args).bind fun va => vmessageAt narrowF64 blk len addr tags va
  else if mode = "L" then (toVa tags args).bind fun va => rtoscMessage narrowF64 blk len addr tags va
  else none

def fresh (cap : Nat) : Bytes := List.replicate cap (170 : UInt8)

/-- `cap:ret:block` for every capacity; `none` = some call stores out of bounds / is not modelled -/
def sweep (lo hi : Nat) (call : Bytes → Except Fail (Bytes × Nat)) : Except Fail String := do
  let mut parts : List String := []
  for cap in List.range' lo (hi + 1 - lo) do
    let (buf, ret) ← call (fresh cap)
    let shown := if ret = 0 then hexz buf else if ret ≤ cap then toHex (buf.take ret) else ""
    parts := s!"{cap}:{ret}:{shown}{if ret > cap then "!ret-exceeds-len" else ""}" :: parts
  return ",".intercalate parts.reverse

/-- type strings of the literal call sites (same list in harness/oscbuf.cpp and tools/props/c02.py) -/
def templates : List String :=
  ["", "s", "isi", "ss", "b", "ifs", "sT", "hd", "c", "m", "tS", "rf", "TFNI", "iiiiiiii", "sbs", "dfhi", "[sb]i"]

def tagsOf (s : String) : Bytes := s.toList.map fun c => UInt8.ofNat c.toNat

def stepM (mode : String) (lo hi : Nat) (addr tags : Bytes) (args : List CArg) : String :=
  match construct mode none 0 addr tags args, construct mode none hi addr tags args with
  | some nul, some nulHi =>
    let r := sweep lo hi fun buf =>
      match construct mode (some buf) buf.length addr tags args with
      | some ⟨some b, ret, false⟩ => .ok (b, ret)
      | some ⟨_, _, true⟩ => .error .oob
      | _ => .error .hang
    match r with
    | .ok c => s!"z={nul.ret} zh={nulHi.ret} g=ok c={c}"
    | .error .oob => crash
    | .error .hang => "unmodelled"
  | _, _ => "unmodelled"

def stepB (lo hi : Nat) (toks : List String) : String :=
  match parseTree toks with
  | some (.bundle tt _ kids, []) => render do
    let blocks ← kids.mapM fun k => (build k).map (·.1)
    let c ← sweep lo hi fun buf =>
      match bundle buf tt blocks with
      | .oob => .error .oob
      | .hang => .error .hang
      | .ok r => if r.oob then .error .oob else .ok (r.buf, r.ret)
    return s!"g=ok c={c}"
  | _ => "bad-op"

/-- what the harness prints about a ThreadLink after one write -/
def tlinkState (maxMsg : Nat) (res : Option AResult) : String :=
  match res with
  | some ⟨some b, ret, false⟩ =>
    if ret = 0 then s!"n=0 w={hexz b}"
    else
      let rb := b.take ret ++ zeros (maxMsg - ret)        -- read_buffer after read()
      match messageLength rb with
      | some l => s!"n=1 m={l}:{toHex (rb.take l)}"
      | none => hang
  | some ⟨_, _, true⟩ => crash
  | _ => "unmodelled"

def stackCrash : String := "crash:asan:stack-buffer-overflow"

def replyState (tag : String) (res : Option AResult) : String :=
  match res with
  | some ⟨_, _, true⟩ => stackCrash
  | some ⟨some b, _, false⟩ =>
    match messageLength b with
    | some l => s!"{tag}={l}:{toHex (b.take l)}"
    | none => hang
  | _ => "unmodelled"

def step (line : String) : String :=
  match words line with
  | "M" :: mode :: lo :: hi :: a :: t :: toks =>
    match lo.toNat?, hi.toNat?, ofHex a, ofHex t, toks.mapM parseArg with
    | some lo, some hi, some addr, some tags, some args =>
      if hi < lo ∨ (mode ≠ "A" ∧ mode ≠ "V" ∧ mode ≠ "L") then "bad-op"
      else if mode = "L" ∧ ¬ templates.any (fun t => tagsOf t = tags) then "bad-op"
      else stepM mode lo hi addr tags args
    | _, _, _, _, _ => "bad-op"
  | "J" :: mode :: lo :: hi :: a :: t :: toks =>
    match lo.toNat?, hi.toNat?, ofHex a, ofHex t, toks.mapM parseArg with
    | some lo, some hi, some _, some _, some _ =>
      if hi < lo ∨ (mode ≠ "A" ∧ mode ≠ "V") then "bad-op" else "g=ok safe"
    | _, _, _, _, _ => "bad-op"
  | "B" :: lo :: hi :: toks =>
    match lo.toNat?, hi.toNat? with
    | some lo, some hi => if hi < lo then "bad-op" else stepB lo hi toks
    | _, _ => "bad-op"
  | "T" :: mm :: a :: t :: toks =>
    match mm.toNat?, ofHex a, ofHex t, toks.mapM parseArg with
    | some maxMsg, some addr, some tags, some args =>
      if maxMsg < 1 then "bad-op" else tlinkState maxMsg (tlinkWriteArray (zeros maxMsg) maxMsg addr tags args)
    | _, _, _, _ => "bad-op"
  | op :: rest =>
    let k := (op.drop 1).toString.toNat?
    match op.toList.head?, k.bind (templates[·]?) with
    | some 'W', some tpl =>
      match rest with
      | mm :: a :: toks =>
        match mm.toNat?, ofHex a, toks.mapM parseArg with
        | some maxMsg, some addr, some args =>
          if maxMsg < 1 then "bad-op"
          else
            let tags := tagsOf tpl
            tlinkState maxMsg ((toVa tags args).bind fun va =>
              tlinkWrite narrowF64 (zeros maxMsg) maxMsg addr tags va)
        | _, _, _ => "bad-op"
      | _ => "bad-op"
    | some c, some tpl =>
      if c = 'R' ∨ c = 'Q' then
        match rest with
        | n :: cp :: a :: toks =>
          match n.toNat?, cp.toNat?, ofHex a, toks.mapM parseArg with
          | some bufN, some cap, some addr, some args =>
            let tags := tagsOf tpl
            replyState (if c = 'R' then "reply" else "broadcast")
              ((toVa tags args).bind fun va => rtdataReply narrowF64 (fresh bufN) cap addr tags va)
          | _, _, _, _ => "bad-op"
        | _ => "bad-op"
      else "bad-op"
    | _, _ => "bad-op"
  | _ => "bad-op"

def engine : Driver.Engine := Driver.stateless step
end Driver.OscbufEngine
