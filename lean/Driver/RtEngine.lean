/- Engine `rt` (C03): not built yet. -/
import Driver.Common
namespace Driver.RtEngine
def engine : Driver.Engine := Driver.stateless (fun _ => "unimplemented")
end Driver.RtEngine
