/-
  Engine `match` (C05).  Same line protocol as harness/match.cpp:
    M <pattern-hex> <address-hex> <tags-hex> […]   ->  P <1|NULL> M <0|1> A <0|1|-> B <0|1|-> Pe <1|NULL> Me <0|1>
        (verdicts only; the calls with path_end != NULL are the same model functions: the code
         only redirects `path_end` to a local when it is NULL)
    U <pattern-hex> <address-hex> <tags-hex> […]   ->  U ok
        (inputs outside the property's quantifier: the implementation side only reports that
         the calls returned; the model's verdicts are not compared there)
    X <pattern-hex> <alphabet-hex> <maxlen> <tags>,<tags>,… […]
                                                   ->  X <n> <hash> <n>:<hash> …
    W <spec-token>  -> W <wf0> <prefixfree>   (evaluates the decidable predicates of Match/Spec.lean
                       on a structured pattern; used for the known-finding trigger)
  All buffers are exactly as long as the harness makes them (no spare bytes); an out-of-bounds
  read of the model prints `oob`, which the harness never prints.
-/
import RtoscModel.Match.Path
import RtoscModel.Match.Copies
import RtoscModel.Match.Spec
import Driver.Common
namespace Driver.MatchEngine
open Rtosc Rtosc.Match

def zeros (n : Nat) : Bytes := List.replicate n 0

/-- the buffer harness/match.cpp hands to rtosc_match -/
def buildMsg (addr tags : Bytes) : Bytes :=
  mkMsg addr tags (zeros ((tags.map zeroArgSize).sum))

/-- `strchr(pattern, ':')` on a C string -/
def firstColon : Bytes → Option Bytes
  | [] => none
  | c :: r => if c = 0 then none else if c = 58 then some (c :: r) else firstColon r

def showB : Option Bool → String
  | none => "oob"
  | some true => "1"
  | some false => "0"

def showP : Res (Bytes × Bytes) → String
  | .oob => "oob"
  | .fail => "NULL"
  | .ok _ => "1"

def opM (pat addr tags : Bytes) : String :=
  let p0 := pat ++ [0]
  let a0 := addr ++ [0]
  let msg := buildMsg addr tags
  let t0 := tags ++ [0]
  let pS := showP (path p0 a0)
  let mS := showB ((full p0 msg).map (·.1))
  let ab := match firstColon p0 with
    | none => "A - B -"
    | some spec => s!"A {showB (argMatcher spec t0)} B {showB (portMatcherArgs spec msg)}"
  s!"P {pS} M {mS} {ab} Pe {pS} Me {mS}"

def mix (h : UInt64) (s : Bytes) : UInt64 :=
  (s.foldl (fun h c => h * 1099511628211 + c.toUInt64 + 1) h) * 1099511628211 + 255

/-- all words of length `n` over `alph`, in order of alphabet position -/
def wordsOfLen (alph : Bytes) : Nat → List Bytes
  | 0 => [[]]
  | n + 1 => alph.flatMap fun c => (wordsOfLen alph n).map (c :: ·)

structure Acc where
  pc : Nat := 0
  ph : UInt64 := 0
  mc : Array Nat
  mh : Array UInt64

def opX (pat alph : Bytes) (maxlen : Nat) (tagv : Array Bytes) : String := Id.run do
  let p0 := pat ++ [0]
  let mut acc : Acc := { mc := Array.replicate tagv.size 0, mh := Array.replicate tagv.size 0 }
  for len in [0:maxlen + 1] do
    for addr in wordsOfLen alph len do
      match path p0 (addr ++ [0]) with
      | .ok _ => acc := { acc with pc := acc.pc + 1, ph := mix acc.ph addr }
      | _ => pure ()
      for j in [0:tagv.size] do
        match full p0 (buildMsg addr tagv[j]!) with
        | some (true, _) => acc := { acc with mc := acc.mc.modify j (· + 1), mh := acc.mh.modify j (mix · addr) }
        | _ => pure ()
  let mut s := s!"X {acc.pc} {acc.ph.toNat}"
  for j in [0:tagv.size] do
    s := s ++ s!" {acc.mc[j]!}:{acc.mh[j]!.toNat}"
  return s

/-- spec token: `<seg>;<seg>;…|<sub 0/1>|<types: N or hex,hex,…>`,
    seg = `L<hex>` | `E<hex digits>` | `A<hex>,<hex>,…`; empty strings are `-` -/
def parseSeg (s : String) : Option Seg :=
  match s.toList with
  | 'L' :: r => (ofHex (String.ofList r)).map Seg.lit
  | 'E' :: r => (ofHex (String.ofList r)).map Seg.enum
  | 'A' :: r => ((String.ofList r).splitOn ",").mapM ofHex |>.map Seg.alts
  | _ => none

def parsePat (tok : String) : Option Pat :=
  match tok.splitOn "|" with
  | [segs, sub, types] => do
    let sg ← if segs = "" then some [] else (segs.splitOn ";").mapM parseSeg
    let ty ← if types = "N" then some none else ((types.splitOn ",").mapM ofHex).map some
    pure { segs := sg, sub := sub = "1", types := ty }
  | _ => none

def opW (tok : String) : String :=
  match parsePat tok with
  | none => "bad-op"
  | some p => s!"W {if p.wf0 then 1 else 0} {if p.prefixFree then 1 else 0} {toHex p.render}"

def step (line : String) : String :=
  match words line with
  | "M" :: p :: a :: t :: _ =>
    match ofHex p, ofHex a, ofHex t with
    | some pat, some addr, some tags => opM pat addr tags
    | _, _, _ => "bad-op"
  | "U" :: _ :: _ :: _ :: _ => "U ok"
  | "X" :: p :: al :: ml :: tg :: _ =>
    match ofHex p, ofHex al, ml.toNat?, (tg.splitOn ",").mapM ofHex with
    | some pat, some alph, some maxlen, some tagv =>
      if alph.isEmpty then "bad-op" else opX pat alph maxlen tagv.toArray
    | _, _, _, _ => "bad-op"
  | "W" :: tok :: _ => opW tok
  | _ => "bad-op"

def engine : Driver.Engine := Driver.stateless step
end Driver.MatchEngine
