/- Engine `match` (C05): not built yet. -/
import Driver.Common
namespace Driver.MatchEngine
def engine : Driver.Engine := Driver.stateless (fun _ => "unimplemented")
end Driver.MatchEngine
