-- driver executable for engine `argval` (C16); imports model files only, so it links
import Driver.ArgvalEngine
def main : IO UInt32 := do Driver.run Driver.ArgvalEngine.engine; return 0
