/-
  Engine `undo` (C15).  One op line = one whole history on a fresh UndoHistory.
    H <tok>…  with  R <addr-hex> <tag> <old-hex8> <new-hex8> | S <k> | T <d>
    E <tok>…  with  P <idx> <val-hex8> | S <k> | T <d>       (end to end, four ports)
  Output: one token per op (see harness/undo.cpp); the whole line is `ood` when it lies
  outside the domain the property is claimed for (an address of 248 bytes or more; a
  negative clock step after the first R / P).
-/
import RtoscModel.Undo
import Driver.Common
namespace Driver.UndoEngine
open Rtosc Rtosc.Undo

def hex8 (v : UInt32) : String :=
  toHex [UInt8.ofNat (v.toNat / 16777216), UInt8.ofNat (v.toNat / 65536 % 256),
         UInt8.ofNat (v.toNat / 256 % 256), UInt8.ofNat (v.toNat % 256)]

def parseHex8 (s : String) : Option UInt32 :=
  if s.length ≠ 8 then none else
  match ofHex s with
  | some [a, b, c, d] => some (UInt32.ofNat (((a.toNat * 256 + b.toNat) * 256 + c.toNat) * 256 + d.toNat))
  | _ => none

def parseInt (s : String) (lo hi : Int) : Option Int :=
  if s.length > 12 then none else
  let body := if s.startsWith "-" || s.startsWith "+" then (s.drop 1).toString else s
  if body.isEmpty || !body.all Char.isDigit then none else
  match body.toNat? with
  | none => none
  | some n =>
    let v : Int := if s.startsWith "-" then -(n : Int) else (n : Int)
    if lo ≤ v ∧ v ≤ hi then some v else none

def showEmit : Emit → String
  | none => "E"
  | some m => s!"{toHex m.addr}.{Char.ofNat m.tag.toNat}.{hex8 m.val}"

def showEmits (ms : List Emit) : String :=
  if ms.isEmpty then "-" else ";".intercalate (ms.map showEmit)

def posz (u : State) : String := s!"p{getPos u}/{size u}"

/-- the four ports of the end-to-end object: name, tag -/
def ports : List (Bytes × UInt8) :=
  [("/a".toUTF8.toList, 99), ("/bb".toUTF8.toList, 99), ("/i".toUTF8.toList, 105), ("/lng".toUTF8.toList, 105)]

/-- `rParam` on a `char` field: `char var = arg.i` (keeps the low byte, sign-extended),
    then `rLIMIT` with the macro's `min 0`, `max 127`.  `rParamI`: the int as is. -/
def portValue (tag : UInt8) (v : UInt32) : UInt32 :=
  if tag = 99 then
    let b := v.toNat % 256
    if b ≥ 128 then 0 else UInt32.ofNat b
  else v

def showStore (σ : Store) : String :=
  "|" ++ ",".intercalate (ports.map fun p => hex8 (σ p.1))

/-- The address bound of the claimed domain (number of the property module; `Props/C15.lean`
    `fits_iff_short` shows it is exactly "the set-message fits the library's buffer"). -/
def domainAddrLimit : Nat := 248

structure Run where
  A   : App
  out : List String   -- reversed
  ood : Bool := false        -- the line left the claimed domain
  recorded : Bool := false   -- an R / P op has been seen

def emitTok (r : Run) (A : App) (tok : String) (e2e : Bool) : Run :=
  { r with A := A, out := (if e2e then tok ++ showStore A.σ else tok) :: r.out }

def finish (r : Run) : String :=
  if r.ood then "ood" else
  if r.out.isEmpty then "-" else " ".intercalate r.out.reverse

/-- token loop; `fuel` = number of tokens (each op consumes at least two). -/
def go (e2e : Bool) : Nat → List String → Run → String
  | 0, _, r => finish r
  | _, [], r => finish r
  | fuel + 1, "R" :: a :: t :: o :: n :: rest, r =>
    if e2e then "bad-op" else
    match ofHex a, t.toList, parseHex8 o, parseHex8 n with
    | some addr, [c], some ov, some nv =>
      if (c = 'i' || c = 'f' || c = 'c') && addr.all (· ≠ 0) then
        let u := recordEvent r.A.clock ⟨addr, UInt8.ofNat c.toNat, ov, nv⟩ r.A.u
        let A := { r.A with u := u }
        let r := { r with ood := r.ood || decide (addr.length ≥ domainAddrLimit), recorded := true }
        go e2e fuel rest (emitTok r A (posz u) e2e)
      else "bad-op"
    | _, _, _, _ => "bad-op"
  | fuel + 1, "P" :: i :: v :: rest, r =>
    if !e2e then "bad-op" else
    match parseInt i 0 3, parseHex8 v with
    | some idx, some val =>
      match ports[idx.toNat]? with
      | none => "bad-op"
      | some (a, tag) =>
        match r.A.step (.set a tag (portValue tag val)) with
        | none => "oob"
        | some (A, _) => go e2e fuel rest (emitTok { r with recorded := true } A (posz A.u) e2e)
    | _, _ => "bad-op"
  | fuel + 1, "S" :: k :: rest, r =>
    match parseInt k (-2147483648) 2147483647 with
    | none => "bad-op"
    | some d =>
      match r.A.step (.seek d) with
      | none => "oob"
      | some (A, ms) => go e2e fuel rest (emitTok r A (posz A.u ++ ":" ++ showEmits ms) e2e)
  | fuel + 1, "T" :: d :: rest, r =>
    match parseInt d (-1000000000) 1000000000 with
    | none => "bad-op"
    | some d =>
      match r.A.step (.tick d) with
      | none => "oob"
      | some (A, _) =>
        go e2e fuel rest { r with A := A, out := "t" :: r.out, ood := r.ood || (decide (d < 0) && r.recorded) }
  | _, _, _ => "bad-op"

def step (line : String) : String :=
  match words line with
  | "H" :: rest => go false rest.length rest { A := App.init (fun _ => 0) 1000000, out := [] }
  | "E" :: rest => go true rest.length rest { A := App.init (fun _ => 0) 1000000, out := [] }
  | _ => "bad-op"

def engine : Driver.Engine := Driver.stateless step
end Driver.UndoEngine
