/- Engine `undo` (C15): not built yet. -/
import Driver.Common
namespace Driver.UndoEngine
def engine : Driver.Engine := Driver.stateless (fun _ => "unimplemented")
end Driver.UndoEngine
