-- driver executable for engine `dispatch` (C04); imports model files only, so it links
import Driver.DispatchEngine
def main : IO UInt32 := do Driver.run Driver.DispatchEngine.engine; return 0
