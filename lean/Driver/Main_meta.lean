-- driver executable for engine `meta` (C17); imports model files only, so it links
import Driver.MetaEngine
def main : IO UInt32 := do Driver.run Driver.MetaEngine.engine; return 0
