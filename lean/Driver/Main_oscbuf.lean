-- driver executable for engine `oscbuf` (C02); imports model files only, so it links
import Driver.OscbufEngine
def main : IO UInt32 := do Driver.run Driver.OscbufEngine.engine; return 0
