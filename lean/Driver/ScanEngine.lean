/-
  Engine `scan` (C11).  Op line (see harness/scan.cpp):
    <text-hex|-> [alt=<text-hex|->] [sent=<sentence of the specification, see Driver/ScanSentence.lean>] [ns]
  Output line:
    C <count> W <written> R <rd>/<len> V <cell>* P C2 <count2> W2 <written2> R2 <rd2>/<len2> V2 <cell>*
    [ | A C <count> W <written> R <rd>/<len> V <cell>*]
  from the model: `C11.countPrintedArgVals`, `C11.scanArgVals`, `C11.printArgVals defaultOpt`.
  The printed text is not part of the line (the property observes count / cells written / bytes
  consumed / values); booleans carry their payload (`T1`, `F0`: `showCellT`).
  With `ns` (a text outside the grammar: nothing is demanded) the line is `NS` whenever the model
  stays inside defined behaviour, else the full line with its `model:<kind>`.
  After a negative count the group ends.  Where the real code would leave defined behaviour
  the group ends with `model:<kind>` (the harness then prints what the machine happened to do,
  or `crash:…`; the lines differ).
-/
import RtoscModel.Pretty.C11Model
import Driver.PrettyEngine
import Driver.ScanSentence
namespace Driver.ScanEngine
open Rtosc Rtosc.Libc Rtosc.Pretty
open Rtosc.ArgVal (Cell)
open Driver.PrettyEngine (showCellT showErr)

/-- count + scan of `text`: the output group with suffix `sfx`, and the scanned cells -/
def countScan (text : Bytes) (sfx : String) : String × Option (List Cell) :=
  match C11.countPrintedArgVals text with
  | .error e => (s!"C{sfx} " ++ showErr e, none)
  | .ok count =>
    if count < 0 then (s!"C{sfx} {count}", none)
    else
      let n := count.toNat
      match C11.scanArgVals text n with
      | .error e => (s!"C{sfx} {count} W{sfx} " ++ showErr e, none)
      | .ok (rd, cells) =>
        if cells.length ≠ n then
          -- the scanner writes behind the `count` cells it was given
          (s!"C{sfx} {count} W{sfx} model:overrun:{cells.length}", none)
        else
          let cellsTxt := String.join (cells.map (fun c => " " ++ showCellT c))
          let rdTxt := if sfx ≠ "" ∧ rd = text.length then "ok" else s!"{rd}/{text.length}"
          (s!"C{sfx} {count} W{sfx} {n} R{sfx} {rdTxt} V{sfx}{cellsTxt}", some cells)

/-- a range with a count ≤ 0 outside of an array: the print / rescan part is skipped
    (see harness/scan.cpp) -/
def endlessAtTop : Nat → List Cell → Bool
  | 0, _ => false
  | _ + 1, [] => false
  | f + 1, .arr _ len :: r => endlessAtTop f (r.drop len.toNat)
  | f + 1, .rep n hd :: r =>
    if n ≤ 0 then true
    else if hd ≠ 0 then endlessAtTop f (r.drop 2)
    else
      match r with
      | .arr _ len :: r' => endlessAtTop f (r'.drop len.toNat)
      | _ :: r' => endlessAtTop f r'
      | [] => false
  | f + 1, _ :: r => endlessAtTop f r

def step (line : String) : String :=
  match words line with
  | [] => "bad-op"
  | t :: more =>
    match ofHex t with
    | none => "bad-op"
    | some text =>
      if text.contains 0 then "bad-op" else
      let (g1, cells?) := countScan text ""
      let main : String :=
        match cells? with
        | none => g1
        | some cells =>
          if endlessAtTop (cells.length + 1) cells then g1 ++ " P !endless" else
          match C11.printArgVals defaultOpt cells { out := [], cols := 0 } with
          | .error e => g1 ++ " P " ++ showErr e
          | .ok (st, _) =>
            let text2 := st.out.takeWhile (· ≠ 0)
            g1 ++ " P " ++ (countScan text2 "2").1
      -- the specification's reading of the sentence (if the op line carries one)
      let spec : String := match more.find? (fun w => w.startsWith "sent=") with
        | none => ""
        | some w => Driver.ScanSentence.check (String.ofList (w.toList.drop 5)) text
      let main := main ++ spec
      let full : String :=
        match more.find? (fun w => w.startsWith "alt=") with
        | none => main
        | some w =>
          match ofHex (String.ofList (w.toList.drop 4)) with
          | none => "bad-op"
          | some alt =>
            if alt.contains 0 then "bad-op" else main ++ " | A " ++ (countScan alt "").1
      -- a text outside the grammar: only "stays inside defined behaviour" is compared
      let isNs : Bool := more.any (fun w => w == "ns")
      let defined : Bool := (full.splitOn "model:").length == 1
      if isNs && full != "bad-op" && defined then "NS" else full

def engine : Driver.Engine := Driver.stateless step
end Driver.ScanEngine
