/- Engine `scan` (C11): not built yet. -/
import Driver.Common
namespace Driver.ScanEngine
def engine : Driver.Engine := Driver.stateless (fun _ => "unimplemented")
end Driver.ScanEngine
