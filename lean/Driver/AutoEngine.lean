/- Engine `auto` (C19): not built yet. -/
import Driver.Common
namespace Driver.AutoEngine
def engine : Driver.Engine := Driver.stateless (fun _ => "unimplemented")
end Driver.AutoEngine
