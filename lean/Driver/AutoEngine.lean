/-
  Engine `auto` (C19).  One op line = one whole operation history (format: see
  harness/auto.cpp).  Output: one segment per operation, joined by '|':
    <emitted messages>;<learning,midi_cc,midi_nrpn of every slot>
  A message is `<address hex>,<type string>[,<value>],#<OSC message size>`.  A value that went
  through expf is printed as `~,x=<bits of the argument>`: the model does not compute expf
  (the property module masks the implementation's value the same way before the comparison
  and checks it against the property's tolerance itself).
-/
import RtoscModel.Auto
import RtoscModel.AutoFloat
import Driver.Common
namespace Driver.AutoEngine
open Rtosc Rtosc.Auto Rtosc.Auto.IEEE

def parseInt (s : String) : Option Int :=
  if s.startsWith "-" then (s.drop 1).toNat?.map (fun n => -(n : Int)) else s.toNat?.map (fun n => (n : Int))

/-- digits (possibly none) as a number and their count -/
def digitsVal (cs : List Char) : Option (Nat × Nat) :=
  if cs.all Char.isDigit then some (cs.foldl (fun a c => a * 10 + (c.toNat - 48)) 0, cs.length) else none

/-- what `atof` reads from a decimal literal, exactly: `[+-]digits[.digits][(e|E)[+-]digits]`
    with at least one digit in the significand (`5.`, `.5`, `+5`, `1e3`, `2E-2`, …) -/
def parseDec (s : String) : Option Rat :=
  let cs := s.toList
  let (neg, cs) := match cs with
    | '-' :: r => (true, r)
    | '+' :: r => (false, r)
    | _ => (false, cs)
  let sig := cs.takeWhile (fun c => c ≠ 'e' && c ≠ 'E')
  let ex := cs.dropWhile (fun c => c ≠ 'e' && c ≠ 'E')
  let ip := sig.takeWhile (· ≠ '.')
  let fp := match sig.dropWhile (· ≠ '.') with
    | [] => []
    | _ :: r => r
  let e10 : Option Int := match ex with
    | [] => some 0
    | _ :: r =>
      let (eneg, ds) := match r with
        | '-' :: t => (true, t)
        | '+' :: t => (false, t)
        | _ => (false, r)
      if ds.isEmpty then none
      else (digitsVal ds).map (fun (n, _) => if eneg then -(n : Int) else (n : Int))
  match digitsVal ip, digitsVal fp, e10 with
  | some (n, ni), some (f, nf), some e =>
    if ni + nf = 0 then none else
    let m : Rat := (n : Rat) + (f : Rat) / ((10 ^ nf : Nat) : Rat)
    let v : Rat := if e ≥ 0 then m * ((10 ^ e.toNat : Nat) : Rat) else m / ((10 ^ (-e).toNat : Nat) : Rat)
    some (if neg then -v else v)
  | _, _, _ => none

/-- atof of a metadata value: `-` = key absent -/
def parseMeta (s : String) : Option (Option Rat) :=
  if s = "-" then some none else (parseDec s).map (fun r => some (rnd64 r))

def parseBits (s : String) : Option Rat :=
  if s.length ≠ 8 then none
  else match ofHexChars s.toList with
    | some [a, b, c, d] => ofBits32 (a.toNat * 2 ^ 24 + b.toNat * 2 ^ 16 + c.toNat * 2 ^ 8 + d.toNat)
    | _ => none

def hex32 (n : Nat) : String :=
  toHex [UInt8.ofNat (n / 2 ^ 24), UInt8.ofNat (n / 2 ^ 16), UInt8.ofNat (n / 2 ^ 8), UInt8.ofNat n]

def defaultPath (k : Nat) : Bytes := [47, 112, UInt8.ofNat (97 + k)]
def noPath : Bytes := [47, 122, 122]

structure PortDecl where
  info : PortInfo Rat
  logTab : List (Rat × Rat)
  path : Bytes

/-- `k` = index of the port in the table (its default address is `/p<letter k>`) -/
def parsePort (k : Nat) (w : String) : Option PortDecl :=
  match w.splitOn ":" with
  | "P" :: kind :: mn :: mx :: sc :: lm :: fl :: rest =>
    match parseMeta mn, parseMeta mx, parseMeta lm with
    | some mn, some mx, some lm =>
      let info : PortInfo Rat :=
        { hasF := kind = "f", hasT := kind = "T", min := mn, max := mx, logmin := lm,
          scaleLog := sc = "log", internal := fl = "internal", noLearn := fl = "nolearn" }
      -- table of the two logf results for a log-scale port
      let lo : Option Rat := match lm with
        | some l => some (rnd32 l)
        | none => mn.map rnd32
      let hi : Option Rat := mx.map rnd32
      let tab : List (Rat × Rat) :=
        match rest with
        | a :: b :: _ =>
          match lo, hi, parseBits a, parseBits b with
          | some lo, some hi, some la, some lb => [(lo, la), (hi, lb)]
          | _, _, _, _ => []
        | _ => []
      let path : Bytes := match rest with
        | [_, _, nm] => nm.toUTF8.toList
        | _ => defaultPath k
      if sc = "log" && tab.isEmpty && kind ≠ "T" && mn.isSome && mx.isSome then none
      else some { info := info, logTab := tab, path := path }
    | _, _, _ => none
  | _ => none

def pad4 (n : Nat) : Nat := (n + 3) / 4 * 4

/-- size of the OSC message: address and `,<tag>` each NUL-terminated and padded to 4, one
    4-byte argument for 'i' / 'f' -/
def msgSize (m : Msg Rat) : Nat :=
  pad4 (m.addr.length + 1) + pad4 3 + (match m.val with | .none => 0 | _ => 4)

def showVal (m : Msg Rat) : String :=
  match m.expArg with
  | some c => ",~,x=" ++ hex32 (toBits32 c)
  | none =>
    match m.val with
    | .none => ""
    | .int n => "," ++ toString n
    | .flt x => "," ++ hex32 (toBits32 x)

def showMsg (m : Msg Rat) : String :=
  toHex m.addr ++ "," ++ String.singleton m.ty ++ showVal m ++ ",#" ++ toString (msgSize m)

def showState (m : Mgr Rat) : String :=
  "/".intercalate (m.slots.map fun sl => s!"{sl.learning},{sl.midiCC},{sl.midiNrpn}")

def parseOp (ports : List PortDecl) (w : String) : Option (Op Rat) :=
  let portOf (k : Int) : Option (PortInfo Rat) := if k < 0 then none else ports[k.toNat]?.map (·.info)
  let pathOf (k : Int) : Bytes := if k < 0 then noPath else (ports[k.toNat]?.map (·.path)).getD noPath
  match w.splitOn ":" with
  | ["B", s, p, l] => do
    let s ← parseInt s; let p ← parseInt p; let l ← parseInt l
    pure (.bind s (pathOf p) (portOf p) (l ≠ 0))
  | ["H", s, j, p] => do
    let s ← parseInt s; let j ← parseInt j; let p ← parseInt p
    pure (.setPath s j (pathOf p) (portOf p))
  | ["C", s] => do pure (.clearSlot (← parseInt s))
  | ["D", s, j] => do pure (.clearSub (← parseInt s) (← parseInt j))
  | ["G", s, j, x] => do pure (.gain (← parseInt s) (← parseInt j) (← parseBits x))
  | ["O", s, j, x] => do pure (.offset (← parseInt s) (← parseInt j) (← parseBits x))
  | ["S", s, x] => do pure (.setSlot (← parseInt s) (← parseBits x))
  | ["U", s, j, x] => do pure (.setSub (← parseInt s) (← parseInt j) (← parseBits x))
  | ["M", c, t, v] => do pure (.midi (← parseInt c) (← parseInt t) (← parseInt v))
  | _ => none

def runOps (A : Arith Rat) (ports : List PortDecl) : Mgr Rat → List String → List String → String
  | _, [], acc => if acc.isEmpty then "-" else "|".intercalate acc.reverse
  | m, w :: ws, acc =>
    match parseOp ports w with
    | none => "bad-op"
    | some op =>
      match step A m op with
      | none => "oob"
      | some (m1, ms) =>
        runOps A ports m1 ws ((" ".intercalate (ms.map showMsg) ++ ";" ++ showState m1) :: acc)

def stepLine (line : String) : String :=
  match words line with
  | [] => "bad-op"
  | hd :: rest =>
    match hd.splitOn ":" with
    | ["N", ns, ps] =>
      match ns.toNat?, ps.toNat? with
      | some ns, some ps =>
        if ns < 1 || ns > 64 || ps < 1 || ps > 16 then "bad-op" else
        let pw := rest.takeWhile (·.startsWith "P")
        let ow := rest.dropWhile (·.startsWith "P")
        let decls := (List.range pw.length).zipWith (fun k w => parsePort k w) pw
        if decls.any Option.isNone || decls.length > 26 then "bad-op" else
        let ds := decls.filterMap id
        let A := ieee (ds.flatMap (·.logTab))
        runOps A ds (Mgr.init A ns ps) ow []
      | _, _ => "bad-op"
    | _ => "bad-op"

def engine : Driver.Engine := Driver.stateless stepLine
end Driver.AutoEngine
