/-
  Engine `auto` (C19).  One op line = one whole operation history (format: see
  harness/auto.cpp).  Output: one segment per operation, joined by '|':
    <emitted messages>;<learning,midi_cc,midi_nrpn of every slot>
  A float that went through expf is printed as `~,x=<bits of the argument>`: the model does
  not compute expf (the property module masks the implementation's value the same way
  before the comparison and checks it against the property's tolerance itself).
-/
import RtoscModel.Auto
import RtoscModel.AutoFloat
import Driver.Common
namespace Driver.AutoEngine
open Rtosc Rtosc.Auto Rtosc.Auto.IEEE

def parseInt (s : String) : Option Int :=
  if s.startsWith "-" then (s.drop 1).toNat?.map (fun n => -(n : Int)) else s.toNat?.map (fun n => (n : Int))

/-- `[-]digits[.digits]` as an exact rational -/
def parseDec (s : String) : Option Rat :=
  let neg := s.startsWith "-"
  let body := if neg then (s.drop 1).toString else s
  match body.splitOn "." with
  | [a] => a.toNat?.map fun n => if neg then -(n : Rat) else (n : Rat)
  | [a, b] =>
    match a.toNat?, b.toNat? with
    | some n, some f =>
      let v : Rat := (n : Rat) + (f : Rat) / ((10 ^ b.length : Nat) : Rat)
      some (if neg then -v else v)
    | _, _ => none
  | _ => none

/-- atof of a metadata value: `-` = key absent -/
def parseMeta (s : String) : Option (Option Rat) :=
  if s = "-" then some none else (parseDec s).map (fun r => some (rnd64 r))

def parseBits (s : String) : Option Rat :=
  if s.length ≠ 8 then none
  else match ofHexChars s.toList with
    | some [a, b, c, d] => ofBits32 (a.toNat * 2 ^ 24 + b.toNat * 2 ^ 16 + c.toNat * 2 ^ 8 + d.toNat)
    | _ => none

def hex32 (n : Nat) : String :=
  toHex [UInt8.ofNat (n / 2 ^ 24), UInt8.ofNat (n / 2 ^ 16), UInt8.ofNat (n / 2 ^ 8), UInt8.ofNat n]

def portPath (k : Nat) (nports : Nat) : Bytes :=
  if k < nports then [47, 112, UInt8.ofNat (97 + k)] else [47, 122, 122]

structure PortDecl where
  info : PortInfo Rat
  logTab : List (Rat × Rat)

def parsePort (w : String) : Option PortDecl :=
  match w.splitOn ":" with
  | "P" :: kind :: mn :: mx :: sc :: lm :: fl :: rest =>
    match parseMeta mn, parseMeta mx, parseMeta lm with
    | some mn, some mx, some lm =>
      let info : PortInfo Rat :=
        { hasF := kind = "f", hasT := kind = "T", min := mn, max := mx, logmin := lm,
          scaleLog := sc = "log", internal := fl = "internal", noLearn := fl = "nolearn" }
      -- table of the two logf results for a log-scale port
      let lo : Option Rat := match lm with
        | some l => some (rnd32 l)
        | none => mn.map rnd32
      let hi : Option Rat := mx.map rnd32
      let tab : List (Rat × Rat) :=
        match rest with
        | [a, b] =>
          match lo, hi, parseBits a, parseBits b with
          | some lo, some hi, some la, some lb => [(lo, la), (hi, lb)]
          | _, _, _, _ => []
        | _ => []
      if sc = "log" && tab.isEmpty && kind ≠ "T" && mn.isSome && mx.isSome then none
      else some { info := info, logTab := tab }
    | _, _, _ => none
  | _ => none

def showVal (v : Val Rat) (viaExp : Bool) : String :=
  match v with
  | .none => ""
  | .int n => "," ++ toString n
  | .flt x => if viaExp then ",~,x=" ++ hex32 (toBits32 x) else "," ++ hex32 (toBits32 x)

def showMsg (m : Msg Rat) : String :=
  match m.val with
  | .none => toHex m.addr ++ "," ++ String.singleton m.ty
  | v => toHex m.addr ++ "," ++ String.singleton m.ty ++ showVal v m.viaExp

def showState (m : Mgr Rat) : String :=
  "/".intercalate (m.slots.map fun sl => s!"{sl.learning},{sl.midiCC},{sl.midiNrpn}")

def parseOp (ports : List (PortInfo Rat)) (w : String) : Option (Op Rat) :=
  let portOf (k : Int) : Option (PortInfo Rat) := if k < 0 then none else ports[k.toNat]?
  let pathOf (k : Int) : Bytes := if k < 0 then [47, 122, 122] else portPath k.toNat ports.length
  match w.splitOn ":" with
  | ["B", s, p, l] => do
    let s ← parseInt s; let p ← parseInt p; let l ← parseInt l
    pure (.bind s (pathOf p) (portOf p) (l ≠ 0))
  | ["H", s, j, p] => do
    let s ← parseInt s; let j ← parseInt j; let p ← parseInt p
    pure (.setPath s j (pathOf p) (portOf p))
  | ["C", s] => do pure (.clearSlot (← parseInt s))
  | ["D", s, j] => do pure (.clearSub (← parseInt s) (← parseInt j))
  | ["G", s, j, x] => do pure (.gain (← parseInt s) (← parseInt j) (← parseBits x))
  | ["O", s, j, x] => do pure (.offset (← parseInt s) (← parseInt j) (← parseBits x))
  | ["S", s, x] => do pure (.setSlot (← parseInt s) (← parseBits x))
  | ["U", s, j, x] => do pure (.setSub (← parseInt s) (← parseInt j) (← parseBits x))
  | ["M", c, t, v] => do pure (.midi (← parseInt c) (← parseInt t) (← parseInt v))
  | _ => none

def runOps (A : Arith Rat) (ports : List (PortInfo Rat)) : Mgr Rat → List String → List String → String
  | _, [], acc => if acc.isEmpty then "-" else "|".intercalate acc.reverse
  | m, w :: ws, acc =>
    match parseOp ports w with
    | none => "bad-op"
    | some op =>
      match step A m op with
      | none => "oob"
      | some (m1, ms) =>
        runOps A ports m1 ws ((" ".intercalate (ms.map showMsg) ++ ";" ++ showState m1) :: acc)

def stepLine (line : String) : String :=
  match words line with
  | [] => "bad-op"
  | hd :: rest =>
    match hd.splitOn ":" with
    | ["N", ns, ps] =>
      match ns.toNat?, ps.toNat? with
      | some ns, some ps =>
        if ns < 1 || ns > 64 || ps < 1 || ps > 16 then "bad-op" else
        let pw := rest.takeWhile (·.startsWith "P")
        let ow := rest.dropWhile (·.startsWith "P")
        let decls := pw.map parsePort
        if decls.any Option.isNone || decls.length > 26 then "bad-op" else
        let ds := decls.filterMap id
        let A := ieee (ds.flatMap (·.logTab))
        runOps A (ds.map (·.info)) (Mgr.init A ns ps) ow []
      | _, _ => "bad-op"
    | _ => "bad-op"

def engine : Driver.Engine := Driver.stateless stepLine
end Driver.AutoEngine
