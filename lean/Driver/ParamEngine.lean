/- Engine `param` (C14): not built yet. -/
import Driver.Common
namespace Driver.ParamEngine
def engine : Driver.Engine := Driver.stateless (fun _ => "unimplemented")
end Driver.ParamEngine
