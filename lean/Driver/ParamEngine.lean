/-
  Engine `param` (C14).  Op line (see harness/param.cpp):
    <prefix-hex> <id> <kind> <storage> <len> <pattern-hex> <meta-hex> <init-state> <msg>...
    msg = [<digits>@]<arg>[+<arg>...]   arg = q | i<dec> | c<dec> | f<hex8> | T | F | s<hex> | S<hex>
  Output: one token `<matches>;<events>;<state>` per message, then `X=ok`
  (the model's callbacks have no access to anything but the port's own field).
  Events are printed as the harness prints them: sorted, integer tags as `i`, broadcasts
  at the port's address left out when the stored value did not change; a string field is
  printed as the C string it holds.
-/
import RtoscModel.Param.Port
import RtoscModel.Param.Wide
import Driver.Common
namespace Driver.ParamEngine
open Rtosc Rtosc.Param

def hexNat (s : String) : Option Nat :=
  s.toList.foldl (fun acc c => do
    let a ← acc
    let d ← hexVal c
    pure (a * 16 + d)) (some 0)

def hex32 (b : UInt32) : String :=
  let ds := Nat.toDigits 16 b.toNat
  String.ofList (List.replicate (8 - ds.length) '0' ++ ds)

def parseInt (s : String) : Option Int := s.toInt?

def parseKind : String → Option Kind
  | "P" => some .param | "F" => some .paramF | "I" => some .paramI | "O" => some .option
  | "T" => some .toggle | "S" => some .string | "f" => some .arrayF | "t" => some .arrayT
  | "i" => some .arrayI | "o" => some .arrayOption | "m" => some .arrayTMember | _ => none

def parseTy : String → IntTy
  | "i8" => .i8 | "u8" => .u8 | "i16" => .i16 | _ => .i32

/-- storage tokens of the wide C integer types (Param/Wide.lean); `none`: the `IntTy` path -/
def parseWide : String → Option CTy
  | "u16" => some .u16 | "u32" => some .u32 | "i64" => some .i64 | "u64" => some .u64 | _ => none

/-- `Rtosc.Param.dispatch` for an rParam / rParamI port on a field of a wide type: the same
    composition (`portMatches`, `Meta.container`, the callback at `pfx ++ path`) with `intCbW` -/
def dispatchW (ty : CTy) (p : Port) (pfx path : Bytes) (fld : Field) (args : List Arg) :
    Except Err (Option (Field × List Event)) :=
  match portMatches p.pattern path (args.map Arg.tag) with
  | .error e => .error e
  | .ok false => .ok none
  | .ok true =>
    match Meta.container p.block with
    | none => .error .oob
    | some pm =>
      let r : Except Err (Field × List Event) :=
        match p.kind, fld with
        | .param, .ints [x] => (intCbW ty ty Arg.c pm (pfx ++ path) x args).map fun (v, ev) => (.ints [v], ev)
        | .paramI, .ints [x] => (intCbW ty ty Arg.i pm (pfx ++ path) x args).map fun (v, ev) => (.ints [v], ev)
        | _, _ => .error .unsup
      match r with
      | .error e => .error e
      | .ok r => .ok (some r)

def allSome {α} : List (Option α) → Option (List α)
  | [] => some []
  | none :: _ => none
  | some a :: r => (allSome r).map (a :: ·)

def parseState (storage : String) (s : String) : Option Field :=
  if storage = "s" then (ofHex s).map Field.str
  else
    let parts := s.splitOn ","
    if storage = "f32" then
      (allSome (parts.map fun p => (hexNat p).map UInt32.ofNat)).map Field.flts
    else if storage = "b" then
      (allSome (parts.map fun p => if p = "1" then some true else if p = "0" then some false else none)).map Field.bools
    else (allSome (parts.map parseInt)).map Field.ints

def showState : Field → String
  | .ints xs => ",".intercalate (xs.map toString)
  | .flts xs => ",".intercalate (xs.map hex32)
  | .bools xs => ",".intercalate (xs.map fun b => if b then "1" else "0")
  | .str b =>
    match cstr b with
    | some s => toHex s
    | none => "!" ++ toHex b

/-- did the message change the stored value?  floats: IEEE `!=` per element -/
def changed : Field → Field → Bool
  | .flts xs, .flts ys => xs.length != ys.length || (xs.zip ys).any fun (a, b) => fNe a b
  | a, b => showState a != showState b

def parseArg (a : String) : Option Arg :=
  match a.toList with
  | ['T'] => some .T
  | ['F'] => some .F
  | 'i' :: r => (parseInt (String.ofList r)).map Arg.i
  | 'c' :: r => (parseInt (String.ofList r)).map Arg.c
  | 'f' :: r => (hexNat (String.ofList r)).map fun n => Arg.f (UInt32.ofNat n)
  | 's' :: r => (ofHex (String.ofList r)).map Arg.s
  | 'S' :: r => (ofHex (String.ofList r)).map Arg.S
  | _ => none

/-- message token → (index text, arguments) -/
def parseMsg (tok : String) : Option (Bytes × List Arg) :=
  let (idx, rest) : String × String :=
    match tok.splitOn "@" with
    | [i, r] => (i, r)
    | _ => ("", tok)
  if rest = "q" then some (idx.toUTF8.toList, [])
  else (allSome ((rest.splitOn "+").map parseArg)).map fun as => (idx.toUTF8.toList, as)

def showArgVal : Arg → String
  | .i v => ":" ++ toString v
  | .c v => ":" ++ toString v
  | .f b => ":" ++ hex32 b
  | .s x => ":" ++ toHex x
  | .S x => ":" ++ toHex x
  | .T => ""
  | .F => ""

def showEvent (e : Event) : String :=
  let tags := String.ofList (e.args.map fun a => if a.tag == 99 then 'i' else Char.ofNat a.tag.toNat)
  (if e.bcast then "B:" else "R:") ++ toHex e.addr ++ ":" ++ (if tags.isEmpty then "-" else tags)
    ++ String.join (e.args.map showArgVal)

def showEvents (loc : Bytes) (valueChanged : Bool) (es : List Event) : String :=
  let es := es.filter fun e => valueChanged || !(e.bcast && e.addr == loc)
  let out := (es.map showEvent).mergeSort (fun a b => decide (a ≤ b))
  if out.isEmpty then "-" else ",".intercalate out

def showErr : Err → String
  | .oob => "oob"
  | .unsup => "unsup"

def runMsgs (w : Option CTy) (p : Port) (pfx name : Bytes) : Field → List String → List String
  | _, [] => ["X=ok"]
  | fld, tok :: rest =>
    match parseMsg tok with
    | none => "bad-msg" :: runMsgs w p pfx name fld rest
    | some (idx, args) =>
      match (match w with
             | some ty => dispatchW ty p pfx (name ++ idx) fld args
             | none => dispatch p pfx (name ++ idx) fld args) with
      | .error e => [s!"err:{showErr e}"]
      | .ok none => s!"0;-;{showState fld}" :: runMsgs w p pfx name fld rest
      | .ok (some (fld', ev)) =>
        s!"1;{showEvents (pfx ++ name ++ idx) (changed fld fld') ev};{showState fld'}" :: runMsgs w p pfx name fld' rest

def step (line : String) : String :=
  match words line with
  | mode :: id :: kind :: storage :: len :: pat :: blk :: init :: msgs =>
    match parseKind kind, len.toNat?, ofHex pat, ofHex blk, parseState storage init, ofHex mode with
    | some k, some n, some pattern, some block, some fld, some pfx =>
      let p : Port := ⟨k, parseTy storage, n, pattern, block⟩
      let w := match k with
        | .param | .paramI => parseWide storage
        | _ => none
      " ".intercalate (runMsgs w p pfx id.toUTF8.toList fld msgs)
    | _, _, _, _, _, _ => "bad-op"
  | _ => "bad-op"

def engine : Driver.Engine := Driver.stateless step
end Driver.ParamEngine
