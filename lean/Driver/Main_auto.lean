-- driver executable for engine `auto` (C19); imports model files only, so it links
import Driver.AutoEngine
def main : IO UInt32 := do Driver.run Driver.AutoEngine.engine; return 0
