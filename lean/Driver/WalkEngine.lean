/- Engine `walk` (C09): not built yet. -/
import Driver.Common
namespace Driver.WalkEngine
def engine : Driver.Engine := Driver.stateless (fun _ => "unimplemented")
end Driver.WalkEngine
