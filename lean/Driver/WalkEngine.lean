/-
  Engine `walk` (C09).  Op lines (extra trailing tokens are ignored):
    W <tree> <buffer-hex> <expand 0|1><ranges 0|1>
        rtosc::walk_ports on the dynamic table <tree> with runtime == NULL; the buffer is the
        whole block handed in (its length is its real size).
    D <tree> <obj> <buffer-hex>
        the same with the runtime object <obj> (the harness' own callbacks answer the "pointer"
        and "enabled by" queries from it).
    R <id> <tree> <obj> <buffer-hex>
        the same with a runtime object (the harness walks its compiled tree number <id>,
        which must have the shape <tree>, configured as <obj>).
    trailing tokens:  sz=<n>   the `buffer_size` argument (default: the size of the block); the
                               model never looks at it (fixes/C09-enabled-loc-copy-size.patch)
                      opt=<i.j.k>:<address-hex>{,…}   reports the statement leaves open (the
                               toggle of a table that is switched off): one report of each
                               listed pair is dropped from the output on both sides
  <tree> ::= '[' [ port { ',' port } ] ']'      port ::= <name-hex> ';' <meta> ';' ( '0' | <tree> )
  <meta> ::= 'N' (NULL) | <block-hex>
  <obj>  ::= '{' <toggles> '|' <kids> '}'
  <toggles> ::= '-' | <name-hex> '=' ('0'|'1'|'i'<decimal>) { ',' … }     (toggle / integer parameter)
  <kids>    ::= '-' | <rel-address-hex> '=' ( 'N' | <obj> ) { ',' … }
  Output:
    W <n> <calls> B=<string in the buffer afterwards, hex>      | W oob | W undef
    <calls> ::= '-' | call { ',' call }          sorted as strings: the property fixes no order
    call ::= <i.j.k> ':' <address-hex> { '>' ( '-' | <i.j.k> { '+' <i.j.k> } | 'oob' ) }
  The part behind '>' (default options only) lists the leaf ports whose callbacks run when the
  address — without the prefix the buffer started with — is sent back as a message carrying
  the first type alternative of the reported port with all-zero arguments.  W and D: two such parts,
  the dispatch without location buffer (linear search of every table) and with one (the lookup
  strategy the library picked for each table: perfect hash or linear); R: one (with location buffer).
-/
import RtoscModel.Walk.Dispatch
import Driver.Common
namespace Driver.WalkEngine
open Rtosc Rtosc.Path Rtosc.Walk

def trunc (b : Bytes) : Bytes := b.takeWhile (· ≠ 0)

abbrev P := List Char

def takeTok (stop : Char → Bool) : P → String × P
  | cs => (String.ofList (cs.takeWhile (fun c => !stop c)), cs.dropWhile (fun c => !stop c))

mutual
partial def parsePorts : P → Option (List PortT × P)
  | '[' :: ']' :: r => some ([], r)
  | '[' :: r => parsePortList r []
  | _ => none
partial def parsePortList (cs : P) (acc : List PortT) : Option (List PortT × P) :=
  match parsePort cs with
  | none => none
  | some (p, ',' :: r) => parsePortList r (p :: acc)
  | some (p, ']' :: r) => some ((p :: acc).reverse, r)
  | _ => none
partial def parsePort (cs : P) : Option (PortT × P) :=
  let (n, r1) := takeTok (· == ';') cs
  match ofHex n, r1 with
  | some name, ';' :: r2 =>
    let (m, r3) := takeTok (· == ';') r2
    let md : Option (Option Bytes) := if m == "N" then some none else (ofHex m).map some
    match md, r3 with
    | some md, ';' :: '0' :: r4 => some (.mk (trunc name) md false [], r4)
    | some md, ';' :: r4 =>
      match parsePorts r4 with
      | some (cs', r5) => some (.mk (trunc name) md true cs', r5)
      | none => none
    | _, _ => none
  | _, _ => none
end

def parseTree (s : String) : Option (List PortT) :=
  match parsePorts s.toList with
  | some (t, []) => some t
  | _ => none

mutual
partial def parseObj : P → Option (Obj × P)
  | '{' :: r =>
    match parseToggles r with
    | some (ts, '|' :: r2) =>
      match parseKids r2 with
      | some (ks, '}' :: r3) => some (.mk ts ks, r3)
      | _ => none
    | _ => none
  | _ => none
partial def parseToggles : P → Option (List (Bytes × Ans) × P)
  | '-' :: r => some ([], r)
  | cs => parseToggleList cs []
partial def parseToggleList (cs : P) (acc : List (Bytes × Ans)) : Option (List (Bytes × Ans) × P) :=
  let (n, r1) := takeTok (· == '=') cs
  match ofHex n, r1 with
  | some name, '=' :: 'i' :: r2 =>
    -- an integer parameter: i<decimal>
    let (neg, r3) := match r2 with
      | '-' :: r => (true, r)
      | r => (false, r)
    let ds := r3.takeWhile Char.isDigit
    if ds.isEmpty then none else
      let v : Int := Int.ofNat (ds.foldl (fun a c => 10 * a + (c.toNat - 48)) 0)
      let acc' := (name, Ans.i (if neg then -v else v)) :: acc
      match r3.dropWhile Char.isDigit with
      | ',' :: r4 => parseToggleList r4 acc'
      | r4 => some (acc'.reverse, r4)
  | some name, '=' :: v :: r2 =>
    let acc' := (name, if v == '1' then Ans.T else Ans.F) :: acc
    match r2 with
    | ',' :: r3 => parseToggleList r3 acc'
    | _ => some (acc'.reverse, r2)
  | _, _ => none
partial def parseKids : P → Option (List (Bytes × Option Obj) × P)
  | '-' :: r => some ([], r)
  | cs => parseKidList cs []
partial def parseKidList (cs : P) (acc : List (Bytes × Option Obj)) : Option (List (Bytes × Option Obj) × P) :=
  let (n, r1) := takeTok (· == '=') cs
  match ofHex n, r1 with
  | some rel, '=' :: 'N' :: r2 =>
    let acc' := (rel, none) :: acc
    match r2 with
    | ',' :: r3 => parseKidList r3 acc'
    | _ => some (acc'.reverse, r2)
  | some rel, '=' :: r2 =>
    match parseObj r2 with
    | some (o, r3) =>
      let acc' := (rel, some o) :: acc
      match r3 with
      | ',' :: r4 => parseKidList r4 acc'
      | _ => some (acc'.reverse, r3)
    | none => none
  | _, _ => none
end

def parseObjStr (s : String) : Option Obj :=
  match parseObj s.toList with
  | some (o, []) => some o
  | _ => none

def showIx (ix : List Nat) : String := ".".intercalate (ix.map toString)

/-- first type alternative of a port name: the characters between the first ':' and the next -/
def firstTags (name : Bytes) : Bytes :=
  ((name.dropWhile (· ≠ 58)).drop 1).takeWhile (· ≠ 58)

def nameOf : List PortT → List Nat → Option Bytes
  | _, [] => none
  | ps, [i] => (ps[i]?).map (·.name)
  | ps, i :: j :: ix =>
    match ps[i]? with
    | none => none
    | some p => nameOf p.children (j :: ix)

def showDisp (tab : List PortT) (prefLen : Nat) (c : Call) : String :=
  match nameOf tab c.1 with
  | none => "?"
  | some name =>
    match dispatchSim tab (47 :: c.2.drop prefLen) (firstTags name) with
    | none => "oob"
    | some [] => "-"
    | some l => "+".intercalate (l.map showIx)

/-- the reports the statement leaves open (token `opt=`): `<i.j.k>:<address-hex>` each -/
def optPairs (toks : List String) : List String :=
  toks.flatMap fun t =>
    if t.startsWith "opt=" then
      let l := (t.drop 4).toString
      if l == "-" then [] else l.splitOn ","
    else []

def eraseFirst (p : String → Bool) : List String → List String
  | [] => []
  | c :: r => if p c then r else c :: eraseFirst p r

def callKey (c : Call) : String := showIx c.1 ++ ":" ++ toHex c.2

/-- the calls as a sorted list (the statement fixes no order) without one report of every pair
    in `opt` -/
def showCalls (tab : List PortT) (prefLen : Option Nat) (both : Bool) (opt : List String) (cs : List Call) : String × Nat :=
  let keyed := cs.map fun c => (callKey c, c)
  let kept := opt.foldl (fun (l : List (String × Call)) o =>
    match l.findIdx? (fun kc => kc.1 == o) with
    | some i => l.eraseIdx i
    | none => l) keyed
  let strs := kept.map fun (k, c) =>
    k ++ (match prefLen with
          | none => ""
          | some n =>
            -- W, D: dispatched without and with a location buffer.  The callbacks invoked do not depend
            -- on the lookup strategy (C04: `Rtosc.Ports.loc_independent`), so the model of the
            -- dispatch with location buffer is the same function
            let d := showDisp tab n c
            if both then ">" ++ d ++ ">" ++ d else ">" ++ d)
  let sorted := (strs.toArray.qsort (· < ·)).toList
  (if sorted.isEmpty then "-" else ",".intercalate sorted, sorted.length)

def run (tab : List PortT) (rt : Option Obj) (buf : Bytes) (o : Opts) (both : Bool) (opt : List String) : String :=
  -- the prefix the buffer starts with (the root '/' for an empty buffer)
  let prefLen : Option Nat :=
    if o.expand && !o.ranges then
      match cstrAt buf 0 with
      | .ok s => some (if s.isEmpty then 1 else s.length)
      | .error _ => none
    else none
  match walkPorts o tab rt buf with
  | .error .oob => "W oob"
  | .error .undef => "W undef"
  | .ok (cs, b) =>
    let after := match cstrAt b 0 with
      | .ok s => toHex s
      | .error _ => "oob"
    let (txt, n) := showCalls tab prefLen both opt cs
    s!"W {n} {txt} B={after}"

def step (line : String) : String :=
  match words line with
  | "W" :: t :: b :: f :: rest =>
    match parseTree t, ofHex b, f.toList with
    | some tab, some buf, [e, r] => run tab none buf { expand := e == '1', ranges := r == '1' } true (optPairs rest)
    | _, _, _ => "bad-op"
  | "D" :: t :: o :: b :: rest =>
    match parseTree t, parseObjStr o, ofHex b with
    | some tab, some obj, some buf => run tab (some obj) buf {} true (optPairs rest)
    | _, _, _ => "bad-op"
  | "R" :: _ :: t :: o :: b :: rest =>
    match parseTree t, parseObjStr o, ofHex b with
    | some tab, some obj, some buf => run tab (some obj) buf {} false (optPairs rest)
    | _, _, _ => "bad-op"
  | _ => "bad-op"

def engine : Driver.Engine := Driver.stateless step

end Driver.WalkEngine
