-- driver executable for engine `undo` (C15); imports model files only, so it links
import Driver.UndoEngine
def main : IO UInt32 := do Driver.run Driver.UndoEngine.engine; return 0
