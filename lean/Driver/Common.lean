/-
  Line-protocol plumbing shared by all driver engines.
  An engine is a pure step function `σ → String → σ × String` (one op line in,
  one canonical output line out).
-/
import RtoscModel.Basic
namespace Driver

structure Engine where
  σ : Type
  init : σ
  step : σ → String → σ × String

def stateless (f : String → String) : Engine :=
  { σ := Unit, init := (), step := fun _ l => ((), f l) }

partial def loop (e : Engine) (h : IO.FS.Stream) (out : IO.FS.Stream) (s : e.σ) : IO Unit := do
  let line ← h.getLine
  if line.isEmpty then return ()
  let l := line.trimAscii.toString
  if l.isEmpty || l.startsWith "#" then
    loop e h out s
  else
    let (s', o) := e.step s l
    out.putStrLn o
    loop e h out s'

def run (e : Engine) : IO Unit := do
  let i ← IO.getStdin
  let o ← IO.getStdout
  loop e i o e.init
  o.flush

end Driver
