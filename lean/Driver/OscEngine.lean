/-
  Engine `osc` (C01).  One op line = one constructor call followed by every reader.

    <mode> <cap> <addr-hex> <tags-hex> <rest-hex> <arg-token>*        mode ∈ A V M L<k>
    R <bytes-hex> [n]      rtosc_message_length of an encoded message followed by anything
    Q <bytes-hex>          the same on bytes outside the property (regression witnesses of
                           C07 fixes): only `len<=n` / `len>n` is printed

  arg tokens, one per payload tag:  w<8 hex>  q<16 hex>  m<8 hex>  s<hex|->
                                    b<len>:<hex|-|N>    (N = NULL data pointer)
  In mode V (varargs) the token of an 'f' tag is q<16 hex>: the promoted double.
  `cap` = size of the destination block (`N` = NULL buffer).  `rest` = bytes placed
  behind the message before the readers and rtosc_message_length run.

  Output:  r=<ret> z=<ret with NULL buffer> b=<the message bytes buffer[0..ret)>
           [len=.. as=<off>:<tags> n=.. ty=.. av=.. it=..]      (only when ret > 0)
  Bytes behind the message and the content of a too small buffer are C02's observables and
  are not printed.
  If the model predicts an out-of-bounds store or read, the line is the sanitizer's
  verdict `crash:asan:heap-buffer-overflow`.
-/
import RtoscModel.Osc.Length
import RtoscModel.Osc.C01Fast
import Driver.Common
namespace Driver.OscEngine
open Rtosc Rtosc.Osc

def crash : String := "crash:asan:heap-buffer-overflow"

def natOfBytes (bs : Bytes) : Nat := bs.foldl (fun a b => a * 256 + b.toNat) 0

def hexFixed (s : String) (n : Nat) : Option Nat :=
  match ofHex s with
  | some bs => if bs.length = n then some (natOfBytes bs) else none
  | none => none

def parseArg (tok : String) : Option CArg :=
  let body := (tok.drop 1).toString
  match tok.toList.head? with
  | some 'w' => (hexFixed body 4).map fun n => CArg.w32 (UInt32.ofNat n)
  | some 'q' => (hexFixed body 8).map fun n => CArg.w64 (UInt64.ofNat n)
  | some 'm' =>
    match ofHex body with
    | some [a, b, c, d] => some (.midi a b c d)
    | _ => none
  | some 's' => (ofHex body).map CArg.str
  | some 'b' =>
    match body.splitOn ":" with
    | [l, d] =>
      match l.toInt? with
      | none => none
      | some len =>
        let len32 := UInt32.ofNat ((len % 4294967296).toNat)
        if d = "N" then some (.blob len32 none)
        else (ofHex d).map fun data => CArg.blob len32 (some data)
    | _ => none
  | _ => none

/-- the promoted values a call site passes for `tags` and the union members `args` -/
def toVa : Bytes → List CArg → Option (List VaArg)
  | [], _ => some []
  | t :: ts, args =>
    if !hasReserved t then toVa ts args
    else
      match args with
      | [] => none
      | a :: as =>
        let rest := toVa ts as
        match a with
        | .w32 v => rest.map (VaArg.int v :: ·)
        | .w64 v => if t = 100 ∨ t = 102 then rest.map (VaArg.dbl v :: ·) else rest.map (VaArg.i64 v :: ·)
        | .midi a b c d => rest.map (VaArg.midi a b c d :: ·)
        | .str s => rest.map (VaArg.cstr s :: ·)
        | .blob len data => rest.map (fun r => VaArg.int len :: VaArg.ptr data :: r)

def toAvs : Bytes → List CArg → Option (List ArgVal)
  | [], _ => some []
  | t :: ts, args =>
    if !hasReserved t then (toAvs ts args).map (⟨t, none⟩ :: ·)
    else
      match args with
      | [] => none
      | a :: as => (toAvs ts as).map (⟨t, some a⟩ :: ·)

def hex32 (v : UInt32) : String := toHex (put32 v)
def hex64 (v : UInt64) : String := toHex (put64 v)

def showVal (m : Bytes) (t : UInt8) (v : CVal) : Option String :=
  let p := hexByte t ++ ":"
  match v with
  | .zero => some (p ++ "-")
  | .tf b => some (p ++ (if b then "1" else "0"))
  | .w32 x => some (p ++ hex32 x)
  | .w64 x => some (p ++ hex64 x)
  | .midi a b c d => some (p ++ toHex [a, b, c, d])
  | .str off =>
    match CVal.view m (.str off) with
    | some (.arg (.str s)) => some (p ++ "@" ++ toString off ++ ":" ++ toHex s)
    | _ => none
  | .blob len off =>
    if len.toNat ≥ 2147483648 then      -- negative `int32_t len`: the harness cannot follow the pointer
      some (p ++ toString len.toNat ++ "@" ++ toString off ++ ":?")
    else
    match CVal.view m (.blob len off) with
    | some (.arg (.blob d)) => some (p ++ toString len.toNat ++ "@" ++ toString off ++ ":" ++ toHex d)
    | _ => none

def joinOpt (xs : List (Option String)) : Option String :=
  (xs.mapM id).map fun l => if l.isEmpty then "-" else ",".intercalate l

/-- all readers on the block `m` -/
def readers (m : Bytes) : Option String := do
  let len ← messageLength m
  let a ← argString m
  let ts ← cstrAt m a
  let n ← narguments m
  let idx := List.range n
  let tys ← idx.mapM (typeAt m)
  let av ← joinOpt (idx.map fun i =>
    match typeAt m i, argument m i with
    | some t, some v => showVal m t v
    | _, _ => none)
  let itl ← iterate m
  let it ← joinOpt (itl.map fun (t, v) => showVal m t v)
  pure s!"len={len} as={a}:{toHex ts} n={n} ty={toHex tys} av={av} it={it}"

def parseCap (s : String) : Option (Option Nat) :=
  if s = "N" then some none else s.toNat?.map some

def construct (mode : String) (buffer : Option Bytes) (addr tags : Bytes) (args : List CArg) :
    Option AResult :=
  if mode = "A" ∨ mode.startsWith "L" then
    if mode = "A" then amessage buffer addr tags args
    else (toVa tags args).bind fun va => vmessage narrowF64 buffer addr tags va
  else if mode = "V" then (toVa tags args).bind fun va => vmessage narrowF64 buffer addr tags va
  else if mode = "M" then (toAvs tags args).bind fun avs => avmessage buffer addr avs
  else none

def step (line : String) : String :=
  match words line with
  | "R" :: h :: _ =>            -- further tokens are the oracle's
    match ofHex h with
    | some m =>
      match messageLength m with
      | some n => s!"len={n}"
      | none => "hang"
    | none => "bad-op"
  | "Q" :: h :: _ =>
    match ofHex h with
    | some m =>
      match messageLength m with
      | some n => if n ≤ m.length then "len<=n" else "len>n"
      | none => "hang"
    | none => "bad-op"
  | mode :: cap :: a :: t :: rest :: toks =>
    match parseCap cap, ofHex a, ofHex t, ofHex rest, toks.mapM parseArg with
    | some cap, some addr, some tags, some rest, some args =>
      let buffer := cap.map fun c => List.replicate c (170 : UInt8)
      match construct mode buffer addr tags args, construct mode none addr tags args with
      | some res, some nul =>
        if res.oob then crash
        else
          let head := s!"r={res.ret} z={nul.ret} b={match res.buf with | some b => toHex (b.take res.ret) | none => "NULL"}"
          match res.buf with
          | some b =>
            if res.ret = 0 then head
            else
              match readers (b.take res.ret ++ rest) with
              | some r => head ++ " " ++ r
              | none => crash
          | none => head
      | _, _ => "unmodelled"
    | _, _, _, _, _ => "bad-op"
  | _ => "bad-op"

def engine : Driver.Engine := Driver.stateless step
end Driver.OscEngine
