/- Engine `osc` (C01): not built yet. -/
import Driver.Common
namespace Driver.OscEngine
def engine : Driver.Engine := Driver.stateless (fun _ => "unimplemented")
end Driver.OscEngine
