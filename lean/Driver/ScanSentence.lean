/-
  Engine `scan` (C11): decoder for the `sent=` field of an op line — a sentence of the
  specification `RtoscModel/Pretty/C11Spec.lean` in the encoding written by tools/props/c11.py:

    items ','-separated:  V<tok>  R<n>(<item>)  G<tok>~<tok>  A<open01>(<items>)
    tok:  i<base><sfx01>:<int>  h<base>:<int>  f<dbl01><sfx01>:<lit>[!<hexlit>]  c<esc01>:<byte>
          s<sym01>:<parts>  n:<hex>  k:<T|F|N|I|n|m>  r<upper01>:<value>  m<pad01>:<a>.<b>.<c>.<d>  b:<hex|->
    base: d x X o c
    lit:  D<neg01>.<ip>.<fp|-|+>.<exp|->.<plus01><upper01>   |   H<neg01>.<iphex>.<fphex|->.<exp>
    parts: '|'-separated, each a sequence of r<hh> / e<hh>; '-' = empty part

  and the check that ties the specification to the model: what the sentence denotes (`cells`) is
  what the model scans from the given text and from the specification's own renderings (without
  any insertion, and with comments directly behind the values).
-/
import RtoscModel.Pretty.C11Spec
import RtoscModel.Pretty.C11Model
namespace Driver.ScanSentence
open Rtosc Rtosc.Libc Rtosc.Pretty Rtosc.Pretty.C11
open Rtosc.ArgVal (Cell)

def str (cs : List Char) : String := String.ofList cs

/-- split at `sep` outside of parentheses -/
def splitTop (sep : Char) : List Char → Nat → List Char → List (List Char)
  | [], _, cur => [cur.reverse]
  | c :: r, depth, cur =>
    if c = '(' then splitTop sep r (depth + 1) (c :: cur)
    else if c = ')' then splitTop sep r (depth - 1) (c :: cur)
    else if c = sep ∧ depth = 0 then cur.reverse :: splitTop sep r depth []
    else splitTop sep r depth (c :: cur)

def split (sep : Char) (cs : List Char) : List (List Char) := splitTop sep cs 0 []

def digVal (hex : Bool) (c : Char) : Option Nat :=
  if '0' ≤ c ∧ c ≤ '9' then some (c.toNat - 48)
  else if hex ∧ 'a' ≤ c ∧ c ≤ 'f' then some (c.toNat - 87)
  else if hex ∧ 'A' ≤ c ∧ c ≤ 'F' then some (c.toNat - 55)
  else none

def digs (hex : Bool) (cs : List Char) : Option (List Nat) := cs.mapM (digVal hex)

def bool01 (c : Char) : Option Bool := if c = '0' then some false else if c = '1' then some true else none

def natOf (cs : List Char) : Option Nat := (str cs).toNat?
def intOf (cs : List Char) : Option Int := (str cs).toInt?

def baseOf (c : Char) : Option IntBase :=
  if c = 'd' then some .dec else if c = 'x' then some .hex else if c = 'X' then some .hexUp
  else if c = 'o' then some .oct else if c = 'c' then some .hex2c else none

def optDigs (hex : Bool) (cs : List Char) : Option (Option (List Nat)) :=
  if cs = ['-'] then some none
  else if cs = ['+'] then some (some [])
  else (digs hex cs).map some

def hexLit (cs : List Char) : Option HexLit :=
  match cs with
  | 'H' :: r =>
    match split '.' r with
    | [[n], ip, fp, ex] => do
      let neg ← bool01 n
      let ip ← digs true ip
      let fp ← optDigs true fp
      let ex ← intOf ex
      pure { neg := neg, ip := ip, fp := fp, ex := ex }
    | _ => none
  | _ => none

def fLit (cs : List Char) : Option FLit :=
  match cs with
  | 'D' :: r =>
    match split '.' r with
    | [[n], ip, fp, ex, [p, u]] => do
      let neg ← bool01 n
      let ip ← digs false ip
      let fp ← optDigs false fp
      let ex ← (if ex = ['-'] then some none else (intOf ex).map some)
      let p ← bool01 p
      let u ← bool01 u
      pure (.dec { neg := neg, ip := ip, fp := fp, ex := ex, exPlus := p, exUpper := u })
    | _ => none
  | 'H' :: _ => (hexLit cs).map FLit.hex
  | _ => none

def strPart : Nat → List Char → Option (List StrCh)
  | _, [] => some []
  | 0, _ => none
  | f + 1, k :: a :: b :: r => do
    let x ← digVal true a
    let y ← digVal true b
    let c := (x * 16 + y).toUInt8
    let rest ← strPart f r
    if k = 'r' then pure (.raw c :: rest) else if k = 'e' then pure (.esc c :: rest) else none
  | _, _ => none

def strParts (cs : List Char) : Option (List (List StrCh)) :=
  (split '|' cs).mapM (fun p => if p = ['-'] then some [] else strPart p.length p)

def hexBytes (cs : List Char) : Option Bytes := if cs = ['-'] then some [] else ofHexChars cs

def tok (cs : List Char) : Option Tok :=
  match cs with
  | 'i' :: b :: s :: ':' :: v => do
    let b ← baseOf b; let s ← bool01 s; let v ← intOf v; pure (.int v b s)
  | 'h' :: b :: ':' :: v => do
    let b ← baseOf b; let v ← intOf v; pure (.huge v b)
  | 'f' :: d :: s :: ':' :: r => do
    let d ← bool01 d; let s ← bool01 s
    match split '!' r with
    | [l] => do let l ← fLit l; pure (.flt d s l none)
    | [l, e] => do let l ← fLit l; let e ← hexLit e; pure (.flt d s l (some e))
    | _ => none
  | 'c' :: e :: ':' :: v => do
    let e ← bool01 e; let v ← natOf v; pure (.chr v.toUInt8 e)
  | 's' :: y :: ':' :: r => do
    let y ← bool01 y; let p ← strParts r; pure (.str y p)
  | 'n' :: ':' :: r => do let n ← hexBytes r; pure (.ident n)
  | ['k', ':', k] =>
    if k = 'T' then some (.kw .true_) else if k = 'F' then some (.kw .false_) else if k = 'N' then some (.kw .nil)
    else if k = 'I' then some (.kw .inf) else if k = 'n' then some (.kw .now) else if k = 'm' then some (.kw .immediately)
    else none
  | 'r' :: u :: ':' :: v => do
    let u ← bool01 u; let v ← natOf v; pure (.color v u)
  | 'm' :: p :: ':' :: r => do
    let p ← bool01 p
    match split '.' r with
    | [a, b, c, d] => do
      let a ← natOf a; let b ← natOf b; let c ← natOf c; let d ← natOf d
      pure (.midi a.toUInt8 b.toUInt8 c.toUInt8 d.toUInt8 p)
    | _ => none
  | 'b' :: ':' :: r => do let d ← hexBytes r; pure (.blob d)
  | _ => none

/-- the text between the first '(' and the final ')' -/
def parenBody (cs : List Char) : Option (List Char × List Char) :=
  let pre := cs.takeWhile (· ≠ '(')
  let rest := cs.drop pre.length
  match rest with
  | '(' :: body => if body.getLast? = some ')' then some (pre, body.dropLast) else none
  | _ => none

mutual
def item : Nat → List Char → Option C11.SVal
  | 0, _ => none
  | f + 1, cs =>
    match cs with
    | 'V' :: r => (tok r).map C11.SVal.val
    | 'G' :: r =>
      match split '~' r with
      | [b, c] => do let b ← tok b; let c ← tok c; pure (.range b c)
      | _ => none
    | 'R' :: r => do
      let (n, body) ← parenBody r
      let n ← natOf n
      let x ← item f body
      pure (.rep n x)
    | 'A' :: o :: r => do
      let o ← bool01 o
      let (pre, body) ← parenBody r
      if pre ≠ [] then none
      let es ← items f body
      pure (.arr es o)
    | _ => none
def items : Nat → List Char → Option (List C11.SVal)
  | 0, _ => none
  | f + 1, cs => if cs = [] then some [] else (split ',' cs).mapM (item f)
end

def sentence (s : String) : Option Sentence :=
  if s = "-" then some [] else items (s.length + 2) s.toList

def L0 : Layout := { lead := [], sep := fun _ => [], trail := [], last := none, blank := fun _ => [] }

/-- comments directly behind every value, white space mixed in at every third one -/
def L1 : Layout :=
  { lead := [.comment [108]], sep := fun i => if i % 3 = 2 then [.ws .nl, .comment [], .ws .tab] else [.comment [99, 32, 49]],
    trail := [], last := some [101], blank := fun _ => [] }

def reads (text : Bytes) (cs : List Cell) : Bool :=
  (match C11.countPrintedArgVals text with | .ok n => n == (cs.length : Int) | .error _ => false) &&
  (match C11.scanArgVals text cs.length with | .ok (rd, got) => rd == text.length && got == cs | .error _ => false)

/-- the suffix for the model's output line: empty when the specification agrees with the model -/
def check (enc : String) (text : Bytes) : String :=
  match sentence enc with
  | none => " SPEC-UNDECODABLE"
  | some s =>
    if hasOctalPlain s then ""                        -- known finding C11-K1
    else if !Sentence.wf s then " SPEC-NOT-WF"
    else
      match cells s with
      | none => " SPEC-NONE"
      | some cs =>
        (if reads text cs then "" else " SPEC-MISMATCH:text") ++
        (if reads (render s L0) cs then "" else " SPEC-MISMATCH:render") ++
        -- the same sentence with comments directly behind the values, numeric literals included
        -- (`42%c`: fix C11-08)
        (if reads (render s L1) cs then "" else " SPEC-MISMATCH:render-tight")

end Driver.ScanSentence
