-- driver executable for engine `scan` (C11); imports model files only, so it links
import Driver.ScanEngine
def main : IO UInt32 := do Driver.run Driver.ScanEngine.engine; return 0
