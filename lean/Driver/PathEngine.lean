/- Engine `path` (C18): not built yet. -/
import Driver.Common
namespace Driver.PathEngine
def engine : Driver.Engine := Driver.stateless (fun _ => "unimplemented")
end Driver.PathEngine
