/-
  Engine `path` (C18).  Op lines (extra trailing tokens are ignored; they carry what
  only the oracle needs):
    C <mem-hex>                                       collapsePath on that memory block
    A <tree> <path-hex> [E=<ix>|E=?]                  Ports::apropos (`E=?`: the address is not
                                                      one the property constrains; both sides print
                                                      `A *` unless an access leaves a string)
    I <tree> <key-hex>                                Ports::operator[]
    S <tree> <str-hex> <needle-hex|N> <opt 0|1|2> <query 0|1> <max_ports> <bufsize> <R|E=<ix>|E=?>
                                                      both path_search overloads (`E=?` or missing:
                                                      unconstrained location, both sides print `S *`)
  <tree> ::= '[' [ port { ',' port } ] ']'      port ::= <name-hex> ';' <meta> ';' ( '0' | <tree> )
  <meta> ::= 'N' (NULL) | <block-hex>
  Output lines:
    C <offset> <string-hex>            | C oob
    A <i.j.k> | A NULL | A oob | A unsupported        (same for I with a single index)
    S <array overload> | <message overload>
      array overload:   T=<types> A=<args>            | overflow | oob | unsupported
      message overload: M=<len> D=<addr-hex>/<types>/<args> X=<raw-hex or ->   | M=0 | overflow | …
      <args> = comma separated `s:<hex>`, `b:<hex>` (`b:-` = empty blob); in the two sorted
      modes the blobs inside a run of equal names are printed in sorted order (std::sort
      is not stable) and the raw bytes only when all names are distinct.
-/
import RtoscModel.Path.Search
import Driver.Common
namespace Driver.PathEngine
open Rtosc Rtosc.Path

def trunc (b : Bytes) : Bytes := b.takeWhile (· ≠ 0)

/-! tree parser -/
abbrev P := List Char

def takeTok (stop : Char → Bool) : P → String × P
  | cs => (String.ofList (cs.takeWhile (fun c => !stop c)), cs.dropWhile (fun c => !stop c))

mutual
partial def parsePorts : P → Option (List PortT × P)
  | '[' :: ']' :: r => some ([], r)
  | '[' :: r => parsePortList r []
  | _ => none
partial def parsePortList (cs : P) (acc : List PortT) : Option (List PortT × P) :=
  match parsePort cs with
  | none => none
  | some (p, ',' :: r) => parsePortList r (p :: acc)
  | some (p, ']' :: r) => some ((p :: acc).reverse, r)
  | _ => none
partial def parsePort (cs : P) : Option (PortT × P) :=
  let (n, r1) := takeTok (· == ';') cs
  match ofHex n, r1 with
  | some name, ';' :: r2 =>
    let (m, r3) := takeTok (· == ';') r2
    let md : Option (Option Bytes) := if m == "N" then some none else (ofHex m).map some
    match md, r3 with
    | some md, ';' :: '0' :: r4 => some (.mk (trunc name) md false [], r4)
    | some md, ';' :: r4 =>
      match parsePorts r4 with
      | some (cs', r5) => some (.mk (trunc name) md true cs', r5)
      | none => none
    | _, _ => none
  | _, _ => none
end

def parseTree (s : String) : Option (List PortT) :=
  match parsePorts s.toList with
  | some (t, []) => some t
  | _ => none

def showIx (ix : List Nat) : String := ".".intercalate (ix.map toString)

def showLook : Look → String
  | .null => "NULL"
  | .oob => "oob"
  | .unsupported => "unsupported"
  | .port ix => showIx ix

def ascii (b : Bytes) : String :=
  if b.isEmpty then "-" else String.ofList (b.map fun c => Char.ofNat c.toNat)

/-- printed form of the arguments, split into (query strings, pairs) -/
def splitArgs (query : Bool) (args : List String) : List String × List String :=
  if query then (args.take 2, args.drop 2) else ([], args)

def insertStr (x : String) : List String → List String
  | [] => [x]
  | y :: r => if x ≤ y then x :: y :: r else y :: insertStr x r

def sortStr (l : List String) : List String := l.foldr insertStr []

/-- pairs (name, blob) as printed strings; blobs inside runs of equal names sorted -/
partial def canonRuns : List (String × String) → List (String × String)
  | [] => []
  | (n, b) :: rest =>
    let run := rest.takeWhile (·.1 == n)
    let after := rest.dropWhile (·.1 == n)
    (sortStr (b :: run.map (·.2))).map (fun x => (n, x)) ++ canonRuns after

def toPairs : List String → List (String × String)
  | a :: b :: r => (a, b) :: toPairs r
  | _ => []

def canonArgs (canon : Bool) (query : Bool) (args : List String) : List String :=
  let (q, ps) := splitArgs query args
  let pairs := toPairs ps
  let pairs := if canon then canonRuns pairs else pairs
  q ++ (pairs.map fun (a, b) => [a, b]).flatten

def distinctNames (query : Bool) (args : List String) : Bool :=
  let names := (toPairs (splitArgs query args).2).map (·.1)
  names.eraseDups.length == names.length

/-- a blob is printed by its contents; an empty blob as `b:-` whatever its data pointer
    is (the property does not observe the pointer of a zero-length blob) -/
def showArg : Arg → String
  | .s v => "s:" ++ toHex v
  | .b ⟨none, len⟩ => if len = 0 then "b:-" else s!"b:NULL+{len}"
  | .b ⟨some d, len⟩ => "b:" ++ toHex (d.take len)

def showDec : Bytes ⊕ Bytes → String
  | .inl v => "s:" ++ toHex v
  | .inr v => "b:" ++ toHex v

def joinArgs (l : List String) : String := if l.isEmpty then "-" else ",".intercalate l

def stepC (mem : Bytes) : String :=
  match collapseStr mem with
  | none => "C oob"
  | some (off, s) => s!"C {off} {toHex s}"

def parseOpt : String → Option Opts
  | "0" => some .unmodified
  | "1" => some .sorted
  | "2" => some .sortedUniquePrefix
  | _ => none

def stepS (tree : List PortT) (str : Bytes) (needle : Option Bytes) (opt : Opts) (query : Bool)
    (maxPorts bufsize : Nat) (free : Bool) : String :=
  let canon := opt != .unmodified
  if free then
    -- the location is not one the property speaks about: only "no access outside" is compared
    match pathSearchMsg mergeSorter tree str (needle.getD []) maxPorts bufsize opt query with
    | .overflow => "S overflow"
    | .oob => "S oob"
    | _ => "S *"
  else
  let a := match pathSearch mergeSorter tree str needle (2 * maxPorts + 1) (2 * maxPorts) opt query with
    | .overflow => "overflow"
    | .oob => "oob"
    | .unsupported => "unsupported"
    | .ok types args => s!"T={ascii types} A={joinArgs (canonArgs canon query (args.map showArg))}"
  let m := match pathSearchMsg mergeSorter tree str (needle.getD []) maxPorts bufsize opt query with
    | .overflow => "overflow"
    | .oob => "oob"
    | .unsupported => "unsupported"
    | .tooSmall => "M=0"
    | .ok msg =>
      match decodeMsg msg with
      | none => s!"M={msg.length} undecodable X={toHex msg}"
      | some (addr, types, args) =>
        let printed := args.map showDec
        let raw := if !canon || distinctNames query printed then toHex msg else "-"
        s!"M={msg.length} D={toHex addr}/{ascii types}/{joinArgs (canonArgs canon query printed)} X={raw}"
  s!"S {a} | {m}"

def step (line : String) : String :=
  match words line with
  | "C" :: m :: _ =>
    match ofHex m with
    | some mem => stepC mem
    | none => "bad-op"
  | "A" :: t :: p :: _ =>
    match parseTree t, ofHex p with
    | some tree, some path =>
      let r := apropos tree (trunc path)
      -- `E=?`: not an address the property speaks about (not walked, or the no-prefix
      -- hypothesis fails): only "no access outside" is compared
      if (words line).getD 3 "" == "E=?" then (match r with | .oob => "A oob" | _ => "A *")
      else "A " ++ showLook r
    | _, _ => "bad-op"
  | "I" :: t :: k :: _ =>
    match parseTree t, ofHex k with
    | some tree, some key =>
      "I " ++ (match index tree (trunc key) with | none => "NULL" | some i => toString i)
    | _, _ => "bad-op"
  | "S" :: t :: s :: n :: o :: q :: mp :: bs :: _ =>
    let needle : Option (Option Bytes) := if n == "N" then some none else (ofHex n).map (some ∘ trunc)
    match parseTree t, ofHex s, needle, parseOpt o, mp.toNat?, bs.toNat? with
    | some tree, some str, some needle, some opt, some maxPorts, some bufsize =>
      stepS tree (trunc str) needle opt (q == "1") maxPorts bufsize ((words line).getD 8 "E=?" == "E=?")
    | _, _, _, _, _, _ => "bad-op"
  | _ => "bad-op"

def engine : Driver.Engine := Driver.stateless step
end Driver.PathEngine
