/-
  Engine `meta` (C17).  Op lines (the same as `harness/meta.cpp`):
    `<block-hex> <key-hex> <spec>`        block of the statement      → `P <pairs> G <get> F <find> L <len>`
    `<block-hex> <key-hex> ?`             block outside the statement → `V ok` | `V oob`
    `M <i> <key-hex> <spec>`              row i of the harness's fixed port table (written with the macros of
                                          rtosc/port-sugar.h); the driver does not know the table: it prints
                                          `M <hex of serialize spec> P …`, so the lines agree only if the macros
                                          produce exactly `serialize` of the listed entries
    `M <i> <key-hex> ? <block-hex>`       row outside the statement (rSpecial): classification of the model on
                                          the bytes the generator believes the row has → `V ok` | `V oob`
  `<spec>` is `k=v;k=N;…` (hex, `-` empty, `N` no value).
  A 0-byte block stands for `metadata == NULL` (both sides).
-/
import RtoscModel.Meta
import Driver.Common
namespace Driver.MetaEngine
open Rtosc Rtosc.Meta

def showOpt {α} (f : α → String) : Option α → String
  | none => "oob"
  | some a => f a

def showPairs (ps : List Pair) : String :=
  if ps.isEmpty then "-" else
  ",".intercalate (ps.map fun p =>
    toHex p.1 ++ "=" ++ (match p.2 with | none => "NULL" | some v => toHex v))

/-- tail-recursive hex decoding (blocks of > 64 KiB are generated) -/
def unhexGo : List Char → Array UInt8 → Option (Array UInt8)
  | [], acc => some acc
  | [_], _ => none
  | a :: b :: r, acc =>
    match hexVal a, hexVal b with
    | some x, some y => unhexGo r (acc.push (UInt8.ofNat (x * 16 + y)))
    | _, _ => none

def unhex (s : String) : Option Bytes :=
  if s = "-" then some [] else (unhexGo s.toList #[]).map Array.toList

/-- the container `Port::meta()` builds; a 0-byte block is the NULL metadata pointer -/
def containerOf (block : Bytes) : Option Ptr :=
  if block.isEmpty then portMeta none else container block

def readers (block key : Bytes) : String :=
  let c : Option Ptr := containerOf block
  let ps := Option.bind c fun m => pairs m
  let g := Option.bind c fun m => lookup m key
  let f := Option.bind c fun m => find m key
  let l := Option.bind c fun m => length m
  s!"P {showOpt showPairs ps} G {showOpt (fun (v : Option Bytes) => match v with | none => "NULL" | some v => toHex v) g} F {showOpt (fun (b : Bool) => if b then "1" else "0") f} L {showOpt toString l}"

/-- classification only: does any of the four readers read past the block? -/
def classify (block key : Bytes) : String :=
  match containerOf block with
  | none => "V oob"
  | some m =>
    if (pairs m).isSome && (lookup m key).isSome && (find m key).isSome && (length m).isSome
    then "V ok" else "V oob"

def parseEntry (s : String) : Option (Bytes × Option Bytes) :=
  match s.splitOn "=" with
  | [k, v] => do
    let kb ← unhex k
    if v = "N" then pure (kb, none) else do
      let vb ← unhex v
      pure (kb, some vb)
  | _ => none

def parseSpec (s : String) : Option (List (Bytes × Option Bytes)) :=
  (s.splitOn ";").mapM parseEntry

def step (line : String) : String :=
  match words line with
  | "M" :: _ :: k :: "?" :: b :: _ =>
    match unhex b, unhex k with
    | some block, some key => classify block key
    | _, _ => "bad-op"
  | "M" :: _ :: k :: spec :: _ =>
    match parseSpec spec, unhex k with
    | some es, some key =>
      let block := serialize es
      "M " ++ toHex block ++ " " ++ readers block key
    | _, _ => "bad-op"
  | b :: k :: rest =>
    match unhex b, unhex k with
    | some block, some key =>
      if rest.head? = some "?" then classify block key else readers block key
    | _, _ => "bad-op"
  | _ => "bad-op"

def engine : Driver.Engine := Driver.stateless step
end Driver.MetaEngine
