/-
  Engine `meta` (C17).  Op line:  `<block-hex> <key-hex> [ignored…]`
  Output line: `P <pairs> G <get> F <find> L <len> U <len-unstripped>`
-/
import RtoscModel.Meta
import Driver.Common
namespace Driver.MetaEngine
open Rtosc Rtosc.Meta

def showOpt {α} (f : α → String) : Option α → String
  | none => "oob"
  | some a => f a

def showPairs (ps : List Pair) : String :=
  if ps.isEmpty then "-" else
  ",".intercalate (ps.map fun p =>
    toHex p.1 ++ "=" ++ (match p.2 with | none => "NULL" | some v => toHex v))

def step (line : String) : String :=
  match words line with
  | b :: k :: _ =>
    match ofHex b, ofHex k with
    | some block, some key =>
      let c : Option Ptr := container block
      let ps := Option.bind c fun m => pairs m
      let g := Option.bind c fun m => lookup m key
      let f := Option.bind c fun m => find m key
      let l := Option.bind c fun m => length m
      s!"P {showOpt showPairs ps} G {showOpt (fun (v : Option Bytes) => match v with | none => "NULL" | some v => toHex v) g} F {showOpt (fun (b : Bool) => if b then "1" else "0") f} L {showOpt toString l}"
    | _, _ => "bad-op"
  | _ => "bad-op"

def engine : Driver.Engine := Driver.stateless step
end Driver.MetaEngine
