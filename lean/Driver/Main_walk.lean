-- driver executable for engine `walk` (C09); imports model files only, so it links
import Driver.WalkEngine
def main : IO UInt32 := do Driver.run Driver.WalkEngine.engine; return 0
