/- Engine `tlink` (C06): not built yet. -/
import Driver.Common
namespace Driver.TlinkEngine
def engine : Driver.Engine := Driver.stateless (fun _ => "unimplemented")
end Driver.TlinkEngine
