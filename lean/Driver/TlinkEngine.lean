/-
  Engine `tlink` (C06).  Op lines:

    seq  <maxMsg> <nmsgs> <op>…              op: w<hex>|a<hex> write/writeArray, x<hex> raw_write of the block <hex>,
                                                  b<hex> message composed in buffer(), then raw_write(buffer()),
                                                  r read, l read_lookahead, h hasNext, k hasNextLookahead
         → one token per op: a|d (accepted/dropped), m<hex>|m- (message returned / nothing), 1|0;
           `oob` ends the line: rtosc_message_length(msg,-1) inside raw_write reads outside the
           block (the harness side is then a crash of the line); `hang` (it does not return)
           cannot be printed any more since fix C06-bundle-length-wrap: Props/C06.lean
           `rawLen_terminates` / `rawLen_bundle_terminates`; such a block now has length 0 and
           is dropped (`d`)
    conc <maxMsg> <nmsgs> <chunk> <wops> <rops> <sched>
                                             wops: w<hex>,x<hex>,… or -; rops: string over h k r l or -;
                                             sched: string over w r (thread choices) or -
         → T <access trace> W <accept flags> R <reader results> D <messages drained afterwards> F<fault>
           the trace carries operation boundaries: bw<i>/ew<i> (writer), br<i>/er<i> (reader)

  `b<hex>`: the block handed to raw_write is write_buffer = the message followed by stale bytes.
  The generator uses it for OSC messages only, whose length does not depend on what follows
  (`Framing.msg`, `rawLen_msg`), so the model runs `rawWrite <message>`; a message longer than
  MaxMsg = buffer_size() is not composed (the constructor returns 0) and nothing is sent, which
  is what `rawWrite` of an over-long message does.
    enum <maxMsg> <nmsgs> <chunk> <wops> <rops> <limit> <warm: 0|1>
         → every complete schedule of the model, comma separated (used by the generator only)
    soak …  → `soak ok` (the implementation side runs two free-running threads)
-/
import RtoscModel.Ring.Frame
import RtoscModel.Ring.Conc
import Driver.Common
namespace Driver.TlinkEngine
open Rtosc Rtosc.Ring

def hexTok (cs : List Char) : Option Bytes :=
  if cs = ['-'] then some [] else ofHexChars cs

def parseSeqOp (t : String) : Option Op :=
  match t.toList with
  | ['r'] => some .read
  | ['l'] => some .readLookahead
  | ['h'] => some .hasNext
  | ['k'] => some .hasNextLookahead
  | 'w' :: cs => (hexTok cs).map .write
  | 'a' :: cs => (hexTok cs).map .write
  | 'x' :: cs => (hexTok cs).map .rawWrite
  | 'b' :: cs => (hexTok cs).map .rawWrite
  | _ => none

def showSeq (before after : Seq) : Out → String
  | .unit => if before.w = after.w then "d" else "a"
  | .bool b => if b then "1" else "0"
  | .msg none => "m-"
  | .msg (some m) => "m" ++ toHex m

def stopWord : Op → String
  | .rawWrite b => match rawLen b with
    | .hang => "hang"
    | .oob => "oob"
    | .ok _ => "?"
  | _ => "?"

def runSeq (s : Seq) : List Op → List String → Seq × List String
  | [], acc => (s, acc.reverse)
  | op :: ops, acc =>
    match s.stepOsc op with
    | some (s', o) => runSeq s' ops (showSeq s s' o :: acc)
    | none => (s, (stopWord op :: acc).reverse)

def seqLine (ws : List String) : String :=
  match ws with
  | mm :: nn :: ops =>
    match mm.toNat?, nn.toNat?, ops.mapM parseSeqOp with
    | some maxMsg, some nmsgs, some ops =>
      let (s, outs) := runSeq (Seq.init maxMsg nmsgs) ops []
      " ".intercalate outs ++ (if s.fault then " FAULT" else "")
    | _, _, _ => "bad-op"
  | _ => "bad-op"

def parseWOps (t : String) : Option (List WOp) :=
  if t = "-" then some [] else
  (t.splitOn ",").mapM fun tok =>
    match tok.toList with
    | 'w' :: cs => (hexTok cs).map .write
    | 'a' :: cs => (hexTok cs).map .write
    | 'x' :: cs => (hexTok cs).map .rawWrite
    | 'b' :: cs => (hexTok cs).map .rawWrite
    | _ => none

def parseROps (t : String) : Option (List ROp) :=
  if t = "-" then some [] else
  t.toList.mapM fun
    | 'h' => some (.hasNext false)
    | 'k' => some (.hasNext true)
    | 'r' => some (.read false)
    | 'l' => some (.read true)
    | _ => none

def parseSched (t : String) : Option (List Tid) :=
  if t = "-" then some [] else
  t.toList.mapM fun
    | 'w' => some Tid.writer
    | 'r' => some Tid.reader
    | _ => none

def showEv : Ev → String
  | .loadR v => s!"lr{v}"
  | .copyIn o n => s!"ci{o}+{n}"
  | .storeW v => s!"sw{v}"
  | .loadW v => s!"lw{v}"
  | .frame o n l => s!"fr{o}+{n}={l}"
  | .copyOut o n => s!"co{o}+{n}"
  | .storeR v => s!"sr{v}"

def showROut : ROut → String
  | .hasNext false b => if b then "h1" else "h0"
  | .hasNext true b => if b then "k1" else "k0"
  | .read false m => "r" ++ toHex m
  | .read true m => "l" ++ toHex m

/-- operation boundaries as the harness emits them: a thread that completes an operation marks
    its end, runs through the following operations that have no shared access at all (begin and
    end back to back) and marks the begin of the next one, all before its next shared access -/
def wMarks (n0 : Nat) (after : Conc) (inProgress : Bool) : List String :=
  let n1 := after.wlog.length
  if n1 = n0 then [] else
    let first := if inProgress then [s!"ew{n0}"] else [s!"bw{n0}", s!"ew{n0}"]
    first ++ ((List.range (n1 - n0 - 1)).flatMap fun j => [s!"bw{n0 + 1 + j}", s!"ew{n0 + 1 + j}"]) ++
      (if after.wops.isEmpty then [] else [s!"bw{n1}"])

def rMarks (n0 : Nat) (after : Conc) : List String :=
  let n1 := after.rlog.length
  if n1 = n0 then [] else
    [s!"er{n0}"] ++ (if after.rops.isEmpty then [] else [s!"br{n1}"])

/-- one step of thread `t`, with the text it adds to the trace -/
def stepT (s : Conc) (t : Tid) : Option (Conc × List String) :=
  match s.step frameExec t with
  | none => none
  | some (s', e) =>
    some (s', showEv e :: (match t with
      | .writer => wMarks s.wlog.length s' true
      | .reader => rMarks s.rlog.length s'))

def initMarks (s0 : Conc) : List String :=
  (if s0.wlog.isEmpty then (if s0.wops.isEmpty then [] else ["bw0"]) else
    -- leading operations without shared access were logged by `Conc.init`
    ((List.range s0.wlog.length).flatMap fun j => [s!"bw{j}", s!"ew{j}"]) ++
      (if s0.wops.isEmpty then [] else [s!"bw{s0.wlog.length}"])) ++
  (if s0.rops.isEmpty then [] else ["br0"])

def runSched : List Tid → Conc → Array String → Conc × Array String
  | [], s, acc => (s, acc)
  | t :: ts, s, acc =>
    match stepT s t with
    | none => runSched ts s acc
    | some (s', tr) => runSched ts s' (acc ++ tr.toArray)

/-- when the schedule is used up: the writer runs to completion, then the reader -/
def finish (s : Conc) (acc : Array String) : Nat → Conc × Array String
  | 0 => (s, acc)
  | f + 1 =>
    match stepT s .writer with
    | some (s', tr) => finish s' (acc ++ tr.toArray) f
    | none =>
      match stepT s .reader with
      | some (s', tr) => finish s' (acc ++ tr.toArray) f
      | none => (s, acc)

/-- `raw_write` computes its length with `rtosc_message_length(msg,-1)`; the two-thread model
    uses one framing function for both: only blocks on which the two agree are run -/
def rawAgrees : WOp → Bool
  | .rawWrite b => rawLen b == .ok (frameExec b)
  | _ => true

def drain (s : Seq) (acc : Array String) : Nat → Array String
  | 0 => acc
  | f + 1 =>
    if s.hasNext false then
      let (s', len) := s.read frameExec false
      drain s' (acc.push (toHex (s'.rbuf.take len))) f
    else acc

def joinOr (xs : List String) (sep : String) : String :=
  if xs.isEmpty then "-" else sep.intercalate xs

def concLine (ws : List String) : String :=
  match ws with
  | [mm, nn, cc, wo, ro, sc] =>
    match mm.toNat?, nn.toNat?, cc.toNat?, parseWOps wo, parseROps ro, parseSched sc with
    | some maxMsg, some nmsgs, some chunk, some wops, some rops, some sched =>
      if !wops.all rawAgrees then "raw-length-differs" else
      let s0 := Conc.init frameExec maxMsg nmsgs chunk wops rops
      let (s1, es) := runSched sched s0 (initMarks s0).toArray
      let (s2, es2) := finish s1 es 1000000
      let d := drain s2.toSeq #[] (s2.N + 2)
      let flags := String.ofList (s2.wlog.map fun e => if e.2 then 'a' else 'd')
      s!"T {joinOr es2.toList ","} W {if flags.isEmpty then "-" else flags} R {joinOr (s2.rlog.map showROut) ","} D {joinOr d.toList ","} F{if s2.fault then 1 else 0}"
    | _, _, _, _, _, _ => "bad-op"
  | _ => "bad-op"

/-- all maximal schedules from `s` (depth first), `none` once more than `limit` exist -/
partial def enumSched (s : Conc) (pre : List Char) (acc : Array String) (limit : Nat) :
    Option (Array String) :=
  let sw := s.step frameExec .writer
  let sr := s.step frameExec .reader
  match sw, sr with
  | none, none =>
    if acc.size ≥ limit then none else some (acc.push (String.ofList pre.reverse))
  | _, _ =>
    let acc1 := match sw with
      | some (s', _) => enumSched s' ('w' :: pre) acc limit
      | none => some acc
    match acc1, sr with
    | none, _ => none
    | some a, some (s', _) => enumSched s' ('r' :: pre) a limit
    | some a, none => some a

/-- sequential warm-up: the writer completes its first operation, then the reader its first -/
def warmUp (s : Conc) (pre : List Char) : Nat → Conc × List Char
  | 0 => (s, pre)
  | f + 1 =>
    if s.wlog.isEmpty then
      match s.step frameExec .writer with
      | some (s', _) => warmUp s' ('w' :: pre) f
      | none => (s, pre)
    else if s.rlog.isEmpty then
      match s.step frameExec .reader with
      | some (s', _) => warmUp s' ('r' :: pre) f
      | none => (s, pre)
    else (s, pre)

def enumLine (ws : List String) : String :=
  match ws with
  | [mm, nn, cc, wo, ro, lim, warm] =>
    match mm.toNat?, nn.toNat?, cc.toNat?, parseWOps wo, parseROps ro, lim.toNat? with
    | some maxMsg, some nmsgs, some chunk, some wops, some rops, some limit =>
      let s0 := Conc.init frameExec maxMsg nmsgs chunk wops rops
      let (s1, pre) := if warm = "1" then warmUp s0 [] 10000 else (s0, [])
      match enumSched s1 pre #[] limit with
      | none => "toomany"
      | some a => joinOr a.toList ","
    | _, _, _, _, _, _ => "bad-op"
  | _ => "bad-op"

def step (line : String) : String :=
  match words line with
  | "seq" :: ws => seqLine ws
  | "conc" :: ws => concLine ws
  | "enum" :: ws => enumLine ws
  | "soak" :: _ => "soak ok"
  | _ => "bad-op"

def engine : Driver.Engine := Driver.stateless step
end Driver.TlinkEngine
