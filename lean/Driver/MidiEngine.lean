/-
  Engine `midi` (C20).  Op line (see harness/midi.cpp for the full description):
    P:<sig><flags>:<min8>:<max8>[:<depth>.<pad>][,...]  <op> ...      ops: m<k>c m<k>f u<k>c u<k>f x r n c:<par>:<val>[:<chan>:<nrpn>]
  Output: one token per `c` op (`-` | p<k>:i:<dec> | p<k>:f:<8 hex>), `.` when there is none;
  `crash:asan:heap-buffer-overflow` when the model says the implementation indexes outside a vector.
  A line starting with the word `T` instead prints the trigger predicates of the rest of
  the line:  `K1=<0|1> K2=<0|1>[ at=<index of the first hazard step>]` (used by tools/props/c20.py to
  attribute known findings).
-/
import RtoscModel.Midi
import Driver.Common
namespace Driver.MidiEngine
open Rtosc Rtosc.Midi

def parseNat? (s : String) (max : Nat) : Option Nat :=
  if s.isEmpty || s.length > 9 || !s.all Char.isDigit then none
  else match s.toNat? with
    | some n => if n ≤ max then some n else none
    | none => none

def parseInt? (s : String) (max : Nat) : Option Int :=
  if s.startsWith "-" then
    if s.length < 2 || s.length > 9 then none else (parseNat? (s.drop 1).toString max).map (fun n => -(n : Int))
  else (parseNat? s max).map (fun n => (n : Int))

def parseSig (c : Char) : Option Sig :=
  if c = 'i' then some .i else if c = 'f' then some .f else if c = 'I' then some .oi
  else if c = 'F' then some .of else if c = 'j' then some .fi else if c = 'g' then some .ifl else none

def parseShape (s : String) : Option (Nat × Nat) :=
  match s.splitOn "." with
  | [a, b] =>
    match parseNat? a 3, parseNat? b 60 with
    | some d, some p => some (d, p)
    | _, _ => none
  | _ => none

def parsePort (k : Nat) (s : String) : Option PortDecl :=
  let go (t a b : String) (shape : Nat × Nat) : Option PortDecl :=
    match t.toList with
    | [] => none
    | c :: flags =>
      match parseSig c with
      | none => none
      | some sg =>
        if !flags.all (fun x => "dpLsul".toList.contains x) then none else
        match parseInt? a 8388607, parseInt? b 8388607 with
        | some mn, some mx => some ⟨k, sg, flags, mn, mx, shape.1, shape.2⟩
        | _, _ => none
  match s.splitOn ":" with
  | [t, a, b] => go t a b (0, 0)
  | [t, a, b, sh] => (parseShape sh).bind (go t a b)
  | _ => none

def parseDecls (w : String) : Option (List PortDecl) :=
  if !w.startsWith "P:" || w.length < 3 then none else
  let specs := (w.drop 2).toString.splitOn ","
  if specs.length > 10 then none else (specs.zipIdx.mapM fun (s, k) => parsePort k s)

/-- the port table as the mapper sees it (`generateNewBijection`'s reading of each port) -/
def parsePorts (w : String) : Option (List PortSpec) :=
  (parseDecls w).map (·.map PortDecl.toSpec)

def digitOf (c : Char) : Option Nat := if c.isDigit then some (c.toNat - 48) else none

def parseOp (nports : Nat) (t : String) : Option Op :=
  if t = "x" then some .clear
  else if t = "r" then some .deliverRT
  else if t = "n" then some .deliverNRT
  else match t.toList with
    | ['m', k, c] =>
      match digitOf k with
      | some a => if a < nports ∧ (c = 'c' ∨ c = 'f') then some (.map a (c = 'c')) else none
      | none => none
    | ['u', k, c] =>
      match digitOf k with
      | some a => if a < nports ∧ (c = 'c' ∨ c = 'f') then some (.unmap a (c = 'c')) else none
      | none => none
    | 'c' :: ':' :: _ =>
      match ((t.drop 2).toString.splitOn ":") with
      | [a, b] =>
        match parseNat? a 16383, parseNat? b 127 with
        | some par, some val => some (.cc (ccId par 1 false) val)
        | _, _ => none
      | [a, b, c, d] =>
        match parseNat? a 16383, parseNat? b 127, parseNat? c 127, parseNat? d 1 with
        | some par, some val, some ch, some nr => some (.cc (ccId par ch (nr = 1)) val)
        | _, _, _, _ => none
      | _ => none
    | _ => none

def hex8 (n : Nat) : String :=
  String.ofList ((List.range 8).reverse.map fun i => hexDigit ((n >>> (4 * i)) % 16))

def showMsg (m : Msg) : String :=
  match m.val with
  | .int v => s!"p{m.addr}:i:{v}"
  | .flt b => s!"p{m.addr}:f:{hex8 b}"

def isCC : Op → Bool
  | .cc _ _ => true
  | _ => false

def parseLine (ws : List String) : Option (List PortSpec × List Op) :=
  match ws with
  | [] => none
  | p :: rest =>
    match parsePorts p with
    | none => none
    | some ports =>
      match rest.mapM (parseOp ports.length) with
      | none => none
      | some ops => some (ports, ops)

/-- index (in the op list) of the first step that is a hazard; a crash ends the scan -/
def firstHazard (ports : List PortSpec) : Sys → List Op → Nat → Option Nat
  | _, [], _ => none
  | s, op :: ops, i =>
    if hazard s op then some i else
    match Rtosc.Midi.step ports s op with
    | none => none
    | some (s', _) => firstHazard ports s' ops (i + 1)

def step (line : String) : String :=
  match words line with
  | "T" :: rest =>
    match parseLine rest with
    | none => "bad-op"
    | some (ports, ops) =>
      let atTok := match firstHazard ports Sys.init ops 0 with
        | some i => s!" at={i}"
        | none => ""
      s!"K1={if triggerK1 ports ops then 1 else 0} K2={if triggerK2 ports ops then 1 else 0}{atTok}"
  | ws =>
    match parseLine ws with
    | none => "bad-op"
    | some (ports, ops) =>
      match Rtosc.Midi.run ports Sys.init ops with
      | none => "crash:asan:heap-buffer-overflow"
      | some (_, outs) =>
        let toks := (ops.zip outs).filterMap fun (op, out) =>
          if isCC op then
            some (if out.isEmpty then "-" else "+".intercalate (out.map showMsg))
          else none
        if toks.isEmpty then "." else " ".intercalate toks

def engine : Driver.Engine := Driver.stateless step
end Driver.MidiEngine
