/- Engine `midi` (C20): not built yet. -/
import Driver.Common
namespace Driver.MidiEngine
def engine : Driver.Engine := Driver.stateless (fun _ => "unimplemented")
end Driver.MidiEngine
