/-
  Engine `midi` (C20).  Op line (see harness/midi.cpp for the full description):
    P:<t>:<min8>:<max8>[,...]  <op> ...      ops: m<k>c m<k>f u<k>c u<k>f x r n c:<par>:<val>[:<chan>:<nrpn>]
  Output: one token per `c` op (`-` | p<k>:i:<dec> | p<k>:f:<8 hex>), `.` when there is none;
  `crash:asan:heap-buffer-overflow` when the model says the implementation indexes outside a vector.
  A line starting with the word `T` instead prints the trigger predicates of the rest of
  the line:  `K1=<0|1> K2=<0|1>` (used by tools/props/c20.py to attribute known findings).
-/
import RtoscModel.Midi
import Driver.Common
namespace Driver.MidiEngine
open Rtosc Rtosc.Midi

def parseNat? (s : String) (max : Nat) : Option Nat :=
  if s.isEmpty || s.length > 9 || !s.all Char.isDigit then none
  else match s.toNat? with
    | some n => if n ≤ max then some n else none
    | none => none

def parseInt? (s : String) (max : Nat) : Option Int :=
  if s.startsWith "-" then
    if s.length < 2 || s.length > 9 then none else (parseNat? (s.drop 1).toString max).map (fun n => -(n : Int))
  else (parseNat? s max).map (fun n => (n : Int))

def parsePort (s : String) : Option PortSpec :=
  match s.splitOn ":" with
  | [t, a, b] =>
    if t ≠ "i" ∧ t ≠ "f" then none else
    match parseInt? a 8388607, parseInt? b 8388607 with
    | some mn, some mx => some ⟨t = "i", mn, mx⟩
    | _, _ => none
  | _ => none

def parsePorts (w : String) : Option (List PortSpec) :=
  if !w.startsWith "P:" || w.length < 3 then none else
  let specs := (w.drop 2).toString.splitOn ","
  if specs.length > 10 then none else specs.mapM parsePort

def digitOf (c : Char) : Option Nat := if c.isDigit then some (c.toNat - 48) else none

def parseOp (nports : Nat) (t : String) : Option Op :=
  if t = "x" then some .clear
  else if t = "r" then some .deliverRT
  else if t = "n" then some .deliverNRT
  else match t.toList with
    | ['m', k, c] =>
      match digitOf k with
      | some a => if a < nports ∧ (c = 'c' ∨ c = 'f') then some (.map a (c = 'c')) else none
      | none => none
    | ['u', k, c] =>
      match digitOf k with
      | some a => if a < nports ∧ (c = 'c' ∨ c = 'f') then some (.unmap a (c = 'c')) else none
      | none => none
    | 'c' :: ':' :: _ =>
      match ((t.drop 2).toString.splitOn ":") with
      | [a, b] =>
        match parseNat? a 16383, parseNat? b 127 with
        | some par, some val => some (.cc (ccId par 1 false) val)
        | _, _ => none
      | [a, b, c, d] =>
        match parseNat? a 16383, parseNat? b 127, parseNat? c 127, parseNat? d 1 with
        | some par, some val, some ch, some nr => some (.cc (ccId par ch (nr = 1)) val)
        | _, _, _, _ => none
      | _ => none
    | _ => none

def hex8 (n : Nat) : String :=
  String.ofList ((List.range 8).reverse.map fun i => hexDigit ((n >>> (4 * i)) % 16))

def showMsg (m : Msg) : String :=
  match m.val with
  | .int v => s!"p{m.addr}:i:{v}"
  | .flt b => s!"p{m.addr}:f:{hex8 b}"

def isCC : Op → Bool
  | .cc _ _ => true
  | _ => false

def parseLine (ws : List String) : Option (List PortSpec × List Op) :=
  match ws with
  | [] => none
  | p :: rest =>
    match parsePorts p with
    | none => none
    | some ports =>
      match rest.mapM (parseOp ports.length) with
      | none => none
      | some ops => some (ports, ops)

def step (line : String) : String :=
  match words line with
  | "T" :: rest =>
    match parseLine rest with
    | none => "bad-op"
    | some (ports, ops) =>
      s!"K1={if triggerK1 ports ops then 1 else 0} K2={if triggerK2 ports ops then 1 else 0}"
  | ws =>
    match parseLine ws with
    | none => "bad-op"
    | some (ports, ops) =>
      match Rtosc.Midi.run ports Sys.init ops with
      | none => "crash:asan:heap-buffer-overflow"
      | some (_, outs) =>
        let toks := (ops.zip outs).filterMap fun (op, out) =>
          if isCC op then
            some (if out.isEmpty then "-" else "+".intercalate (out.map showMsg))
          else none
        if toks.isEmpty then "." else " ".intercalate toks

def engine : Driver.Engine := Driver.stateless step
end Driver.MidiEngine
