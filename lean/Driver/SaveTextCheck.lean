/-
  C12, text level — evaluation of the text model RtoscModel/Save/Text.lean on op lines of the engine
  `save` (not an engine, not linked into `drv_save`; run by tools/props/c12_textcheck.py with
  `lake env lean --run Driver/SaveTextCheck.lean <ops-file>`).  Per op line:
      TXT <hex of App.saveText> | <App.loadText of that text into a fresh instance> | O <saved state>
  The first field is what harness/save.cpp prints in mode `txt` (the text the compiled library's
  save_to_file returns).
-/
import Driver.SaveEngine
import RtoscModel.Save.Text
open Rtosc Rtosc.Save Rtosc.Save.Text Driver.SaveEngine

def showErr : Rtosc.Pretty.Err → String
  | .oob => "oob" | .undef => "undef" | .trap => "trap" | .unmodelled => "unmodelled" | .argval => "argval"
  | .hang => "hang" | .fuel => "fuel"

def one (rtoscVer : Nat × Nat × Nat) (line : String) : String :=
  match words line with
  | _ :: _ :: desc :: hist :: _ =>
    match parseApp desc, parseHist hist with
    | some app, some h =>
      let s := app.run h app.init
      match app.saveText rtoscVer (1, 2, 3) s with
      | .ok text =>
        let load := match app.loadText text app.init with
          | .ok (.ok s' n) => s!"R {n} F {showFields app s'}"
          | .ok .fail => "R neg"
          | .ok .undefined => "R undefined"
          | .error e => "E " ++ showErr e
        "TXT " ++ toHex text ++ " | " ++ load ++ " | O " ++ showFields app s
      | .error e => "ERR " ++ showErr e
    | _, _ => "bad-op"
  | _ => "bad-op"

def main (args : List String) : IO Unit := do
  let ls ← IO.FS.lines args[0]!
  let ver := match (args.getD 1 "0.3.1").splitOn "." |>.map String.toNat? with
    | [some a, some b, some c] => (a, b, c)
    | _ => (0, 3, 1)
  for l in ls do
    IO.println (one ver l)
