/- Engine `pretty` (C10): not built yet. -/
import Driver.Common
namespace Driver.PrettyEngine
def engine : Driver.Engine := Driver.stateless (fun _ => "unimplemented")
end Driver.PrettyEngine
