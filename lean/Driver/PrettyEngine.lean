/-
  Engine `pretty` (C10).  Op line (see harness/pretty.cpp for the full description):
    A|M <lossless> <prec> <linelength> <compress> <cols0> <addr-hex|-> <arg>*
        <lossless> = N: opt == NULL, i.e. `default_print_options` (prec, linelength, compress ignored);
        mode A with cols0 > 0: the buffer points cols0 bytes into the caller's line ((cols0-1) x 'p' and a blank),
        extra output token `B <byte at buffer[-1] after printing>`; argument token `R<num>:<hasdelta>` = range header
    T|TM <text-hex>                      count + scan of a given text
    X a32|a64|f32|f64|sf32|sf64|si|tm …  the libc sub-models alone
  Output line: `P <ret> <text-hex> [B <dec>] C <count> S <rd> <n> <cell>* [A <addr-hex>] E <eq>`
  (scanned booleans are printed with their payload: `T1`, `F0`)
-/
import RtoscModel.Pretty.Check
import Driver.Common
namespace Driver.PrettyEngine
open Rtosc Rtosc.Libc Rtosc.Pretty
open Rtosc.ArgVal (Cell IntTy StrTy FlagTy)

def hexNat? (s : String) : Option Nat :=
  s.toList.foldl (fun acc c => do let a ← acc; let d ← hexVal c; pure (a * 16 + d)) (some 0)

def padHex (w n : Nat) : String :=
  let s := String.ofList ((Nat.toDigits 16 n))
  String.ofList (List.replicate (w - s.length) '0') ++ s

def payload (tok : String) (k : Nat) : String := String.ofList (tok.toList.drop k)

/-- op-line argument tokens → flat cells -/
def parseArgs : Nat → List String → Option (List Cell × List String)
  | 0, _ => none
  | _, [] => some ([], [])
  | fuel + 1, tok :: rest =>
    match tok.toList with
    | ']' :: [] => some ([], tok :: rest)
    | 'R' :: spec => do
      let (num, hd) ← match (String.ofList spec).splitOn ":" with
        | [a, b] => (do let x ← a.toInt?; let y ← b.toInt?; pure (x, y) : Option (Int × Int))
        | _ => none
      let (more, rest1) ← parseArgs fuel rest
      some (Cell.rep num hd :: more, rest1)
    | '[' :: ty => do
      let t ← (String.ofList ty).toNat?
      let (inner, rest1) ← parseArgs fuel rest
      match rest1 with
      | "]" :: rest2 =>
        let (more, rest3) ← parseArgs fuel rest2
        some (Cell.arr t.toUInt8 inner.length :: inner ++ more, rest3)
      | _ => none
    | c :: _ => do
      let p := payload tok 1
      let cell : Cell ←
        if c = 'i' then p.toInt?.map (Cell.int .i)
        else if c = 'c' then p.toInt?.map (Cell.int .c)
        else if c = 'h' then p.toInt?.map Cell.huge
        else if c = 'f' then (hexNat? p).map (fun n => Cell.flt n.toUInt32)
        else if c = 'd' then (hexNat? p).map (fun n => Cell.dbl n.toUInt64)
        else if c = 't' then (hexNat? p).map Cell.time
        else if c = 'r' then (hexNat? p).map (fun n => Cell.int .r (toI32 n))
        else if c = 'm' then (hexNat? p).map (fun n => Cell.midi (n / 16777216 % 256).toUInt8 (n / 65536 % 256).toUInt8 (n / 256 % 256).toUInt8 (n % 256).toUInt8)
        else if c = 's' then (ofHex (payload tok 2)).map (fun b => Cell.str .s (some b))
        else if c = 'S' then (ofHex (payload tok 2)).map (fun b => Cell.str .S (some b))
        else if c = 'b' then (ofHex (payload tok 2)).map Cell.blob
        else if tok = "T" then some (Cell.flag .T)
        else if tok = "F" then some (Cell.flag .F)
        else if tok = "N" then some (Cell.flag .N)
        else if tok = "I" then some (Cell.flag .I)
        else none
      let (more, rest1) ← parseArgs fuel rest
      some (cell :: more, rest1)
    | [] => none

def showCell : Cell → String
  | .int .i v => s!"i{v}"
  | .int .c v => s!"c{v}"
  | .int .r v => "r" ++ padHex 8 (v % 4294967296).toNat
  | .huge v => s!"h{v}"
  | .time v => "t" ++ padHex 16 v
  | .flt b => "f" ++ padHex 8 b.toNat
  | .dbl b => "d" ++ padHex 16 b.toNat
  | .midi a b c d => "m" ++ padHex 2 a.toNat ++ padHex 2 b.toNat ++ padHex 2 c.toNat ++ padHex 2 d.toNat
  | .str .s (some b) => "s:" ++ toHex (b.takeWhile (· ≠ 0))
  | .str .S (some b) => "S:" ++ toHex (b.takeWhile (· ≠ 0))
  | .str .s none => "s:NULL"
  | .str .S none => "S:NULL"
  | .blob d => "b:" ++ toHex d
  | .flag .T => "T" | .flag .F => "F" | .flag .N => "N" | .flag .I => "I"
  | .arr t len => s!"a{t.toNat}:{len}"
  | .rep n hd => s!"R{n}:{hd}"

/-- the cells of the C10 output line: booleans with their payload `val.T` (the model's `.flag .T`
    is the cell with type 'T' and `val.T = 1`, `.flag .F` the one with 'F' and `val.T = 0`: the
    invariant every function of arg-val-math.c keeps and `rtosc_arg_val_to_int` relies on) -/
def showCellT : Cell → String
  | .flag .T => "T1"
  | .flag .F => "F0"
  | c => showCell c

def showErr : Pretty.Err → String
  | .oob => "model:oob" | .undef => "model:undef" | .trap => "model:trap" | .unmodelled => "model:unmodelled"
  | .argval => "model:argval" | .fuel => "model:fuel" | .hang => "model:hang"

/-- `C … S … [A …] [E …]` for a text -/
def countScan (text : Bytes) (msg : Bool) (orig : Option (List Cell)) : String :=
  match (if msg then countPrintedArgValsOfMsg text else countPrintedArgVals text) with
  | .error e => "C " ++ showErr e
  | .ok count =>
    if count < 0 then s!"C {count} S -"
    else
      let n := count.toNat
      let scanned : Pretty.Res (Nat × Option Bytes × List Cell) :=
        if msg then (do let (rd, a, cs) ← scanMessage text 256 n; pure (rd, some a, cs))
        else (do let (rd, cs) ← scanArgVals text n; pure (rd, none, cs))
      match scanned with
      | .error e => s!"C {count} S " ++ showErr e
      | .ok (rd, addr, cells) =>
        let cellsTxt := String.join (cells.map (fun c => " " ++ showCellT c))
        let a := match addr with | some a => " A " ++ toHex a | none => ""
        let e := match orig with
          | none => ""
          | some o =>
            match ArgVal.eq ((o.length + cells.length + 4) * 4) o cells o.length n with
            | .ok b => " E " ++ (if b then "1" else "0")
            | .error _ => " E model:argval"
        s!"C {count} S {rd} {cells.length}{cellsTxt}{a}{e}"

def libcStep (w : List String) : String :=
  match w with
  | [_, "a32", b] => match hexNat? b with | some n => toHex (fmtA (promote n)) | none => "bad-op"
  | [_, "a64", b] => match hexNat? b with | some n => toHex (fmtA n) | none => "bad-op"
  | [_, "f32", p, b] => match p.toNat?, hexNat? b with | some p, some n => toHex (fmtF true p (promote n)) | _, _ => "bad-op"
  | [_, "f64", p, b] => match p.toNat?, hexNat? b with | some p, some n => toHex (fmtF true p n) | _, _ => "bad-op"
  | [_, "sf32", t] =>
    match ofHex t with
    | some txt => (match sscanf fmtScFloat txt with | [.flt b, .pos rd] => s!"{rd} " ++ padHex 8 b | _ => "fail")
    | none => "bad-op"
  | [_, "sf64", t] =>
    match ofHex t with
    | some txt => (match sscanf [.flt true false, .n] txt with | [.flt b, .pos rd] => s!"{rd} " ++ padHex 16 b | _ => "fail")
    | none => "bad-op"
  | [_, "si", conv, wd, t] =>
    match ofHex t with
    | some txt =>
      let cv : IntConv := if conv = "d" then .d else if conv = "i" then .i else .x
      (match sscanf [.int cv wd.toNat? false, .n] txt with | [.int v, .pos rd] => s!"{rd} {toI64 v}" | _ => "fail")
    | none => "bad-op"
  | [_, "tm", sec] =>
    match sec.toNat? with
    | some s =>
      let tm := localtime s
      toHex (Libc.fmtDate tm ++ 32 :: fmtHM tm ++ 58 :: fmtS tm) ++ s!" {mktime tm}"
    | none => "bad-op"
  | _ => "bad-op"

def step (line : String) : String :=
  let w := words line
  match w with
  | "X" :: _ => libcStep w
  | [m, t] =>
    if m = "T" ∨ m = "TM" then
      match ofHex t with
      | some txt => countScan txt (m = "TM") none
      | none => "bad-op"
    else "bad-op"
  | m :: l :: p :: ll :: c :: k :: a :: args =>
    if m ≠ "A" ∧ m ≠ "M" then "bad-op" else
    match (if l = "N" then some 1 else l.toNat?), p.toNat?, ll.toInt?, c.toNat?, k.toInt?, ofHex a,
        parseArgs (args.length + 2) args with
    | some lv, some p, some ll, some c, some k, some addr, some (cells, []) =>
      if k < 0 ∨ k > 4096 then "bad-op" else
      -- opt == NULL: `if(!opt) opt = default_print_options;`
      let opt : POpt := if l = "N" then defaultOpt
        else { lossless := lv ≠ 0, prec := p, linelength := ll, compress := c ≠ 0 }
      -- mode A with cols_used > 0: the caller's line so far stands in front of the buffer
      let pre : Nat := if m = "M" then 0 else k.toNat
      let line0 : Bytes := if pre = 0 then [] else List.replicate (pre - 1) 112 ++ [32]
      let printed : Pretty.Res (PSt × Nat) :=
        if m = "M" then printMessage opt addr cells k else printArgVals opt cells { out := line0, cols := k }
      match printed with
      | .error e => "P " ++ showErr e
      | .ok (st, ret) =>
        let text := (st.out.drop pre).takeWhile (· ≠ 0)
        let b := if pre = 0 then "" else s!"B {(st.out.getD (pre - 1) 0).toNat} "
        s!"P {ret} {toHex text} " ++ b ++ countScan text (m = "M") (some cells)
    | _, _, _, _, _, _, _ => "bad-op"
  | _ => "bad-op"

def engine : Driver.Engine := Driver.stateless step
end Driver.PrettyEngine
