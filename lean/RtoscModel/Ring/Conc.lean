/-
  C06 — M-conc: the writer thread and the reader thread of a `ThreadLink` as two small
  pc-machines over the shared ring.  One step = one *shared access* of the real code, in
  the real order:

    writer  write/writeArray/raw_write:
              load ring->read            (ring_write_size; ring->write is the writer's own)
              memcpy chunk into the ring (plain writes; first [w,size) then [0,w2))
              store ring->write          (publish)
    reader  hasNext(l):  load ring->write
            read(l):     load ring->write          (ring_read_vector → ring_read_size)
                         frame the view            (rtosc_message_ring_length: plain reads of
                                                    the view bytes; taken as one access that
                                                    touches the *whole* view)
                         memcpy chunk out of the ring (plain reads)
                         store ring->read          (release; not for lookahead reads)

  Loads of a thread's *own* index (`write` for the writer, `read`/`read_lookahead` for the
  reader) and every access to `read_lookahead`, `read_buffer`, `write_buffer` are thread
  local (no other thread touches them) and are folded into the neighbouring step.  A
  `memcpy` of n bytes is `⌈n/chunk⌉` steps (`chunk = 0`: one step); the theorems hold for
  every `chunk`, in particular for byte granularity.  An operation without any shared
  access (`raw_write` of a message longer than `MaxMsg`, after the F6 repair) is skipped
  when the previous operation completes.

  Global step = either thread takes one step (`step`); a run is a list of thread choices.
  Everything a thread has observed is in its pc (loaded values) or in the logs `wlog`
  (messages in publication order, with the accept flag) and `rlog` (results returned to
  the reader's caller); the logs are history variables: no step reads them.
-/
import RtoscModel.Ring.Seq
namespace Rtosc.Ring
open Rtosc

inductive Tid where
  | writer | reader
deriving DecidableEq, Repr

inductive WOp where
  | write (m : Bytes)          -- write()/writeArray(); `m` = the encoded message
  | rawWrite (blk : Bytes)     -- raw_write(); `blk` = the block at `msg`
deriving DecidableEq, Repr

inductive ROp where
  | hasNext (lookahead : Bool)
  | read (lookahead : Bool)
deriving DecidableEq, Repr

/-- results handed to the reader's caller -/
inductive ROut where
  | hasNext (lookahead : Bool) (b : Bool)
  | read (lookahead : Bool) (msg : Bytes)      -- `[]`: nothing read
deriving DecidableEq, Repr

/-- canonical access trace -/
inductive Ev where
  | loadR (v : Nat)                 -- writer: load ring->read
  | copyIn (off n : Nat)            -- writer: plain write of ring[off, off+n)
  | storeW (v : Nat)                -- writer: store ring->write
  | loadW (v : Nat)                 -- reader: load ring->write
  | frame (off n len : Nat)         -- reader: plain reads of the n view bytes from off (wrapping)
  | copyOut (off n : Nat)           -- reader: plain read of ring[off, off+n)
  | storeR (v : Nat)                -- reader: store ring->read
deriving DecidableEq, Repr

inductive WPc where
  | idle
  | copying (m data : Bytes) (k : Nat)     -- accepted; `k` bytes of `data` are in the ring
deriving DecidableEq, Repr

inductive RPc where
  | idle
  | framing (lookahead : Bool) (wv : Nat)        -- `wv`: loaded value of ring->write
  | copying (lookahead : Bool) (len k : Nat)     -- `k` of `len` bytes are in read_buffer
deriving DecidableEq, Repr

structure Conc where
  N : Nat                -- ring->size
  maxMsg : Nat
  chunk : Nat            -- bytes per memcpy step (0: whole memcpy)
  buf : Bytes            -- ring->buffer            (shared, plain)
  w : Nat                -- ring->write             (shared, atomic)
  r : Nat                -- ring->read              (shared, atomic)
  wops : List WOp
  wpc : WPc
  wlog : List (Bytes × Bool)
  rops : List ROp
  rpc : RPc
  la : Nat               -- ring->read_lookahead    (reader only)
  rbuf : Bytes           -- read_buffer             (reader only)
  rlog : List ROut
  fault : Bool
deriving DecidableEq, Repr

/-- the bytes a writer operation wants to put into the ring -/
def wData (frame : Bytes → Nat) (maxMsg : Nat) : WOp → Bytes × Bytes
  | .write m => (m, if m.length ≤ maxMsg then m else [])     -- rtosc_vmessage → 0 if too long
  | .rawWrite b => (b, b.take (frame b))                     -- rtosc_message_length(msg,-1)

/-- drop leading operations that perform no shared access at all -/
def wSkip (frame : Bytes → Nat) (maxMsg : Nat) :
    List WOp → List (Bytes × Bool) → List WOp × List (Bytes × Bool)
  | .rawWrite b :: ops, log =>
    if frame b ≤ maxMsg then (.rawWrite b :: ops, log)
    else wSkip frame maxMsg ops (log ++ [(b, false)])
  | ops, log => (ops, log)

def chunkLen (chunk rem : Nat) : Nat := if chunk = 0 then rem else min chunk rem

/-- ring offset and size of the memcpy step that continues after `k` of `len` bytes, for a
    transfer that starts at ring offset `x` (the split of `ring_write`/`ring_read`). -/
def chunkAt (N x len chunk k : Nat) : Nat × Nat :=
  if (x + len) % N < x then
    let x1 := N - x
    if k < x1 then (x + k, chunkLen chunk (x1 - k)) else (k - x1, chunkLen chunk (len - k))
  else (x + k, chunkLen chunk (len - k))

def Conc.init (frame : Bytes → Nat) (maxMsg nmsgs chunk : Nat) (wops : List WOp)
    (rops : List ROp) : Conc :=
  let (ops, log) := wSkip frame maxMsg wops []
  { N := maxMsg * nmsgs, maxMsg := maxMsg, chunk := chunk,
    buf := List.replicate (maxMsg * nmsgs) 0, w := 0, r := 0,
    wops := ops, wpc := .idle, wlog := log,
    rops := rops, rpc := .idle, la := 0, rbuf := List.replicate maxMsg 0, rlog := [],
    fault := false }

def Conc.wStep (frame : Bytes → Nat) (s : Conc) : Option (Conc × Ev) :=
  match s.wpc with
  | .idle =>
    match s.wops with
    | [] => none
    | op :: rest =>
      let (m, data) := wData frame s.maxMsg op
      if writeSize s.w s.r s.N ≥ data.length then
        some ({ s with wops := rest, wpc := .copying m data 0 }, .loadR s.r)
      else
        let (ops, log) := wSkip frame s.maxMsg rest (s.wlog ++ [(m, false)])
        some ({ s with wops := ops, wlog := log }, .loadR s.r)
  | .copying m data k =>
    if k < data.length then
      let (off, c) := chunkAt s.N s.w data.length s.chunk k
      let (b, ok) := blit s.buf off ((data.drop k).take c)
      some ({ s with buf := b, wpc := .copying m data (k + c), fault := s.fault || !ok },
            .copyIn off c)
    else
      let next := (s.w + data.length) % s.N
      let entry := if data = [] then (m, false) else (data, true)
      let (ops, log) := wSkip frame s.maxMsg s.wops (s.wlog ++ [entry])
      some ({ s with w := next, wpc := .idle, wops := ops, wlog := log }, .storeW next)

def Conc.rStep (frame : Bytes → Nat) (s : Conc) : Option (Conc × Ev) :=
  match s.rpc with
  | .idle =>
    match s.rops with
    | [] => none
    | .hasNext l :: rest =>
      let b : Bool := readSize s.w (if l then s.la else s.r) s.N ≠ 0
      some ({ s with rops := rest, rlog := s.rlog ++ [.hasNext l b] }, .loadW s.w)
    | .read l :: rest =>
      some ({ s with rops := rest, rpc := .framing l s.w }, .loadW s.w)
  | .framing l wv =>
    let x := if l then s.la else s.r
    let (d0, d1, ok) := readVector s.buf s.N wv x
    let len := frame (d0 ++ d1)
    let ev := Ev.frame x (d0.length + d1.length) len
    if l ∧ len = 0 then            -- ring_read(len = 0, lookahead): only read_lookahead = next
      some ({ s with rpc := .idle, la := (x + 0) % s.N, rlog := s.rlog ++ [.read l []],
                     fault := s.fault || !ok }, ev)
    else
      some ({ s with rpc := .copying l len 0, fault := s.fault || !ok }, ev)
  | .copying l len k =>
    let x := if l then s.la else s.r
    if k < len then
      let (off, c) := chunkAt s.N x len s.chunk k
      let (bytes, ok1) := slice s.buf off c
      let (rb, ok2) := blit s.rbuf k bytes
      let s1 := { s with rbuf := rb, fault := s.fault || !(ok1 && ok2) }
      if l ∧ k + c ≥ len then      -- last chunk of a lookahead read: read_lookahead = next
        some ({ s1 with rpc := .idle, la := (x + len) % s.N,
                        rlog := s.rlog ++ [.read l (rb.take len)] }, .copyOut off c)
      else
        some ({ s1 with rpc := .copying l len (k + c) }, .copyOut off c)
    else if l then none            -- unreachable: a lookahead read ends with its last chunk
    else
      let next := (x + len) % s.N
      some ({ s with r := next, la := next, rpc := .idle,
                     rlog := s.rlog ++ [.read l (s.rbuf.take len)] }, .storeR next)

def Conc.step (frame : Bytes → Nat) (t : Tid) (s : Conc) : Option (Conc × Ev) :=
  match t with
  | .writer => s.wStep frame
  | .reader => s.rStep frame

/-- run a schedule; a choice naming a thread that cannot move is skipped -/
def Conc.run (frame : Bytes → Nat) : List Tid → Conc → Conc × List Ev
  | [], s => (s, [])
  | t :: ts, s =>
    match s.step frame t with
    | none => Conc.run frame ts s
    | some (s1, e) => let (s2, es) := Conc.run frame ts s1; (s2, e :: es)

/-- reachability: any number of steps, any choice of thread each time -/
inductive Conc.Reach (frame : Bytes → Nat) (s0 : Conc) : Conc → Prop where
  | refl : Reach frame s0 s0
  | step {s s' : Conc} {e : Ev} (t : Tid) : Reach frame s0 s → s.step frame t = some (s', e) →
      Reach frame s0 s'

/-! ### the plain (non-atomic) accesses to ring bytes that are enabled in a state -/

/-- offsets `(x + i) % N`, `i < n` -/
def ringOffsets (N x n : Nat) : List Nat := (List.range n).map fun i => (x + i) % N

/-- ring offsets the writer's next step writes (plain) -/
def Conc.writerWrites (s : Conc) : List Nat :=
  match s.wpc with
  | .copying _ data k =>
    if k < data.length then
      let (off, c) := chunkAt s.N s.w data.length s.chunk k
      (List.range c).map (off + ·)
    else []
  | .idle => []

/-- ring offsets the reader's next step reads (plain) -/
def Conc.readerReads (s : Conc) : List Nat :=
  match s.rpc with
  | .idle => []
  | .framing l wv =>
    let x := if l then s.la else s.r
    ringOffsets s.N x (readSize wv x s.N)
  | .copying l len k =>
    if k < len then
      let (off, c) := chunkAt s.N (if l then s.la else s.r) len s.chunk k
      (List.range c).map (off + ·)
    else []

/-! ### observables -/

def pubOf (wlog : List (Bytes × Bool)) : List Bytes := (wlog.filter (·.2)).map (·.1)

def retSel : ROut → Option Bytes
  | .read false m => if m = [] then none else some m
  | _ => none

def retOf (rlog : List ROut) : List Bytes := rlog.filterMap retSel

/-- messages published so far, in publication order -/
def Conc.published (s : Conc) : List Bytes := pubOf s.wlog

/-- messages returned by completed (consuming) reads, in order -/
def Conc.returned (s : Conc) : List Bytes := retOf s.rlog

/-- the message a writer operation is given -/
def WOp.msg : WOp → Bytes
  | .write m => m
  | .rawWrite b => b

def Conc.wDone (s : Conc) : Bool := s.wpc = .idle && s.wops.isEmpty
def Conc.rDone (s : Conc) : Bool := s.rpc = .idle && s.rops.isEmpty

/-- the shared part as a sequential ThreadLink (used when both threads are idle) -/
def Conc.toSeq (s : Conc) : Seq :=
  { buf := s.buf, w := s.w, r := s.r, la := s.la, size := s.N, maxMsg := s.maxMsg,
    rbuf := s.rbuf, fault := s.fault }

end Rtosc.Ring
