/-
  C06 — the message framing used by `ThreadLink`, taken from C01's model of src/rtosc.c
  (`RtoscModel/Osc/Length.lean`, `RtoscModel/Osc/Bundle.lean`; both mirror rtosc.c at HEAD,
  i.e. with the guards of the fixes C07-blob-len / C07-bundle-len / C07-empty-string-size /
  C06-bundle-length-wrap):

  * `frameOsc v`   = `rtosc_message_ring_length(r)` on the ring view `v = r[0] ++ r[1]`
                     (`Osc.ringLength`; the code's own `deref` yields 0 outside both segments and
                     the guards compare with `total = |v|`).  This is the `frame` the driver
                     runs and the function the `…_osc` theorems of Props/C06.lean are about;
                     `Proofs/RingOsc.lean` proves `Framing frameOsc IsOscMsg` from C01's
                     `ringLength_encode`.
  * `rawLen blk`   = `rtosc_message_length(msg, -1)` as called by `ThreadLink::raw_write`
                     (`Osc.messageLengthU`): the ring is `{{msg, SIZE_MAX}, {NULL, 0}}`, so no
                     guard of the code that compares with `total` can fire and every read is
                     checked against the block `blk` at `msg` instead: `.oob` = a byte outside
                     the block would be read, `.hang` = the loop does not terminate.  Since fix
                     C06-bundle-length-wrap (former finding C06-K6) `.hang` is not a value of
                     `rawLen` on any block shorter than 2^32 bytes, nor on any bundle
                     (`rawLen_terminates`, `rawLen_bundle_terminates` in Props/C06.lean).

  (An earlier version of this file carried its own transcription of rtosc.c:545-652; it had
  gone stale against the two fixes above — white-box review B1/B2 — and is gone.)
-/
import RtoscModel.Ring.Seq
import RtoscModel.Osc.Bundle
namespace Rtosc.Ring
open Rtosc

/-- `rtosc_message_ring_length` on the concatenated ring view; fuel exhaustion (impossible
    for a view shorter than 2^32 bytes, where `pos` cannot wrap) is shown as 0 -/
def frameOsc (v : Bytes) : Nat := (Osc.ringLength ⟨v, []⟩).getD 0

/-- the framing function the driver runs -/
abbrev frameExec : Bytes → Nat := frameOsc

def bundleMagic : Bytes := Osc.bundleMagic    -- "#bundle\0"

/-- `rtosc_message_length(msg, -1)` on the block at `msg` -/
def rawLen (blk : Bytes) : Osc.Rd Nat := Osc.messageLengthU blk

/-- the encodings of well-formed OSC messages whose address does not start with '#'
    (the inputs C01's `ringLength_encode` is about) -/
def IsOscMsg (b : Bytes) : Prop :=
  ∃ m : Osc.Msg, m.WF ∧ m.addr.head? ≠ some 35 ∧ b = Osc.Spec.encode m

/-- One operation of the sequential ThreadLink with the real length functions:
    `raw_write` computes its length with `rtosc_message_length(msg,-1)` (`rawLen`), the reads
    frame with `rtosc_message_ring_length` (`frameOsc`).  `none`: `raw_write` reads outside the
    block it was given (`.oob`); or does not return (`.hang`: proved impossible,
    `raw_write_returns` in Props/C06.lean).  A length of 0 (no message recognised, e.g. a bundle
    whose element sizes would wrap `unsigned pos`) passes `len <= MaxMsg && ring_write_size() >=
    len` and `ring_write` copies no byte: the block is dropped. -/
def Seq.stepOsc (s : Seq) : Op → Option (Seq × Out)
  | .rawWrite b =>
    match rawLen b with
    | .ok len => some (s.rawWrite (fun _ => len) b, .unit)
    | _ => none
  | op => some (s.step frameOsc op)

/-- a history; stops at the first operation that does not return -/
def Seq.runOsc : Seq → List Op → Option (Seq × List Out)
  | s, [] => some (s, [])
  | s, op :: ops =>
    match s.stepOsc op with
    | none => none
    | some (s1, o) =>
      match Seq.runOsc s1 ops with
      | none => none
      | some (s2, os) => some (s2, o :: os)

end Rtosc.Ring
