/-
  C06 — executable copy of the message framing used by `ThreadLink::read`:
  `deref`, `bundle_ring_length`, `rtosc_message_ring_length` (src/rtosc.c:545-652).

  The ThreadLink theorems are parameterised by an abstract framing function
  (`Rtosc.Ring.Framing`); this file is what the *driver* plugs in, so that the
  correspondence run compares the real `rtosc_message_ring_length` with a
  straightforward transcription.  (C01 models the same function in
  `RtoscModel/Osc/Length.lean` and proves `ringLength_encode`; this copy keeps the
  C06 build independent of it.)

  * The ring view is two segments; the code's `deref` yields 0 outside both, so on the
    concatenation `d0 ++ d1` it is `getD pos 0` — the bounds check is the code's own.
  * `unsigned pos` wraps modulo 2^32 explicitly.
  * Loops run on fuel (`view length + 2`); `none` = the real loop would not stop within
    that many rounds (only possible when `pos` wraps).
-/
import RtoscModel.Basic
namespace Rtosc.Ring
open Rtosc

def u32 (n : Nat) : Nat := n % 4294967296

/-- `a - b` on `unsigned` -/
def usub (a b : Nat) : Nat := (a + 4294967296 - b % 4294967296) % 4294967296

/-- `deref(pos, ring)` on the concatenated view -/
def deref (v : Bytes) (pos : Nat) : UInt8 := v.getD pos 0

/-- `deref` on the two segments as written in the code; equal to `deref (d0 ++ d1)`. -/
def deref2 (d0 d1 : Bytes) (pos : Nat) : UInt8 :=
  if pos < d0.length then d0.getD pos 0
  else if pos - d0.length < d1.length then d1.getD (pos - d0.length) 0 else 0

/-- `has_reserved` (rtosc.c:35) -/
def hasReserved (t : UInt8) : Bool :=
  t = 105 || t = 115 || t = 98 || t = 102 || t = 104 || t = 116 || t = 100 ||
  t = 83 || t = 114 || t = 109 || t = 99

/-- first position `≥ pos` holding 0 -/
def scanNul (v : Bytes) : Nat → Nat → Option Nat
  | 0, _ => none
  | f + 1, pos => if deref v pos = 0 then some pos else scanNul v f (u32 (pos + 1))

/-- `for(int i=0; i<4; ++i) if(deref(++pos, ring)) break;` -/
def nullWord (v : Bytes) : Nat → Nat → Nat
  | 0, pos => pos
  | k + 1, pos =>
    let pos := u32 (pos + 1)
    if deref v pos ≠ 0 then pos else nullWord v k pos

/-- bytes from `p` up to the first 0 (the type tags) -/
def tagsFrom (v : Bytes) : Nat → Nat → Option Bytes
  | 0, _ => none
  | f + 1, p =>
    let c := deref v p
    if c = 0 then some [] else (tagsFrom v f (u32 (p + 1))).map (c :: ·)

def rd32 (v : Bytes) (pos : Nat) : Nat :=
  (deref v pos).toNat * 16777216 + (deref v (u32 (pos + 1))).toNat * 65536 +
  (deref v (u32 (pos + 2))).toNat * 256 + (deref v (u32 (pos + 3))).toNat

/-- the `while(toparse)` loop -/
def lenLoop (v : Bytes) (fuel aligned : Nat) : Nat → Bytes → Nat → Option Nat
  | 0, _, pos => some pos
  | _ + 1, [], _ => none
  | tp + 1, t :: ts, pos =>
    if t = 104 ∨ t = 116 ∨ t = 100 then lenLoop v fuel aligned tp ts (u32 (pos + 8))
    else if t = 109 ∨ t = 114 ∨ t = 99 ∨ t = 102 ∨ t = 105 then
      lenLoop v fuel aligned tp ts (u32 (pos + 4))
    else if t = 83 ∨ t = 115 then
      match scanNul v fuel (u32 (pos + 1)) with            -- while(deref(++pos,ring));
      | none => none
      | some p => lenLoop v fuel aligned tp ts (u32 (p + (4 - usub p aligned % 4)))
    else if t = 98 then
      let i := rd32 v pos
      let pos := u32 (u32 (pos + 4) + i)
      let pos := if usub pos aligned % 4 ≠ 0 then u32 (pos + (4 - usub pos aligned % 4)) else pos
      lenLoop v fuel aligned tp ts pos
    else lenLoop v fuel aligned (tp + 1) ts pos

/-- the `do … while(advance)` loop of `bundle_ring_length` -/
def bundleLoop (v : Bytes) : Nat → Nat → Option Nat
  | 0, _ => none
  | f + 1, pos =>
    let advance := rd32 v pos
    if advance ≠ 0 then bundleLoop v f (u32 (pos + u32 (4 + advance))) else some pos

def bundleMagic : Bytes := [35, 98, 117, 110, 100, 108, 101, 0]    -- "#bundle\0"

/-- `rtosc_message_ring_length` on the view `v = r[0] ++ r[1]`; `none`: a loop ran out
    of fuel (the real function would spin). -/
def ringLength (v : Bytes) : Option Nat :=
  let fuel := v.length + 2
  if (List.range 8).map (deref v) = bundleMagic then
    match bundleLoop v fuel 16 with
    | none => none
    | some pos => some (if pos ≤ v.length then pos else 0)
  else
    match scanNul v fuel 0 with                      -- while(deref(pos++,ring)); pos--;
    | none => none
    | some pos =>
      let pos := nullWord v 4 pos
      if deref v pos ≠ 44 then some 0
      else
        let aligned := pos
        let arguments := u32 (pos + 1)
        match scanNul v fuel (u32 (pos + 1)) with    -- while(deref(++pos,ring));
        | none => none
        | some pos =>
          let pos := u32 (pos + (4 - usub pos aligned % 4))
          match tagsFrom v fuel arguments with
          | none => none
          | some tags =>
            match lenLoop v fuel aligned ((tags.filter hasReserved).length) tags pos with
            | none => none
            | some pos => some (if pos ≤ v.length then pos else 0)

/-- the framing function the driver runs (fuel exhaustion shown as 0; it cannot occur for
    views shorter than 2^32 - 8 bytes unless a blob/bundle size field wraps `pos`) -/
def frameExec (v : Bytes) : Nat := (ringLength v).getD 0

theorem ringLength_le (v : Bytes) (n : Nat) (h : ringLength v = some n) : n ≤ v.length := by
  unfold ringLength at h
  simp only at h
  split at h
  · split at h
    · cases h
    · cases h; split <;> omega
  · split at h
    · cases h
    · split at h
      · cases h; omega
      · split at h
        · cases h
        · split at h
          · cases h
          · split at h
            · cases h
            · cases h; split <;> omega

theorem frameExec_le (v : Bytes) : frameExec v ≤ v.length := by
  unfold frameExec
  cases h : ringLength v with
  | none => simp
  | some n => simpa using ringLength_le v n h

theorem deref2_eq (d0 d1 : Bytes) (pos : Nat) : deref2 d0 d1 pos = deref (d0 ++ d1) pos := by
  unfold deref2 deref
  by_cases h : pos < d0.length
  · simp [h, List.getD_eq_getElem?_getD, List.getElem?_append_left h]
  · have h' : d0.length ≤ pos := Nat.le_of_not_lt h
    simp only [h, if_false, List.getD_eq_getElem?_getD, List.getElem?_append_right h']
    by_cases h2 : pos - d0.length < d1.length
    · simp [h2]
    · simp [h2]

end Rtosc.Ring
