/-
  C06 — S: what a ThreadLink is supposed to be.  A bounded FIFO of whole messages with a
  lookahead cursor; independent of rings, offsets and framing.
-/
import RtoscModel.Ring.Seq
namespace Rtosc.Ring
open Rtosc

/-- What the ThreadLink theorems need to know about message framing
    (`rtosc_message_ring_length` applied to the ring view): the result never exceeds the
    view, and an accepted message is recognised with its own length whatever follows it
    (C01 proves this of the real function for encoded OSC messages: `ringLength_encode`). -/
structure Framing (frame : Bytes → Nat) (IsMsg : Bytes → Prop) : Prop where
  le : ∀ v, frame v ≤ v.length
  msg : ∀ m rest, IsMsg m → frame (m ++ rest) = m.length
  ne : ∀ m, IsMsg m → m ≠ []

structure Q where
  cap : Nat               -- bytes that may be queued at once (ring size - 1)
  maxMsg : Nat
  items : List Bytes      -- accepted and not yet consumed, oldest first
  la : Nat                -- `items[0..la)` have been returned by lookahead reads
deriving DecidableEq, Repr

def Q.init (maxMsg nmsgs : Nat) : Q :=
  { cap := maxMsg * nmsgs - 1, maxMsg := maxMsg, items := [], la := 0 }

def Q.used (q : Q) : Nat := q.items.flatten.length

/-- a message is accepted iff it respects the maximum size and fits into the free space -/
def Q.fits (q : Q) (m : Bytes) : Bool := m.length ≤ q.maxMsg && q.used + m.length ≤ q.cap

def Q.write (q : Q) (m : Bytes) : Q :=
  if q.fits m then { q with items := q.items ++ [m] } else q

def Q.step (q : Q) : Op → Q × Out
  | .write m => (q.write m, .unit)
  | .rawWrite m => (q.write m, .unit)
  | .read =>
    match q.items with
    | [] => ({ q with la := 0 }, .msg none)
    | m :: t => ({ q with items := t, la := 0 }, .msg (some m))
  | .readLookahead =>
    match q.items[q.la]? with
    | none => (q, .msg none)
    | some m => ({ q with la := q.la + 1 }, .msg (some m))
  | .hasNext => (q, .bool (!q.items.isEmpty))
  | .hasNextLookahead => (q, .bool (q.la < q.items.length))

def Q.run : Q → List Op → Q × List Out
  | q, [] => (q, [])
  | q, op :: ops =>
    let (q1, o) := q.step op
    let (q2, os) := Q.run q1 ops
    (q2, o :: os)

end Rtosc.Ring
