/-
  C06 — M-seq: sequential model of `rtosc::ThreadLink` (src/cpp/thread-link.cpp), with
  the F6 repair (`raw_write` tests `len <= MaxMsg`, fixes/C06-rawwrite-maxmsg.patch).

  * `ring->buffer`, `read_buffer` are byte lists; `write`, `read`, `read_lookahead` are
    offsets `< size` exactly as in the code.
  * every `memcpy` goes through `blit`/`slice`, which report whether the copy stayed
    inside its block; a copy that does not sets the sticky `fault` flag (nothing is
    defaulted: the theorems prove `fault = false`).
  * `size_t` expressions `(w-r+size) % size` are written `(w + size - r) % size`; both
    agree for `r ≤ w + size` (offsets are `< size`), no other wrap can occur.
  * message framing is a parameter `frame : Bytes → Nat` applied to the two-segment ring
    view `r[0] ++ r[1]` of `ring_read_vector` (the driver plugs in `Ring.frameExec`).
  * compiled with `NDEBUG` (the default build): the `assert`s are no code.
-/
import RtoscModel.Basic
namespace Rtosc.Ring
open Rtosc

/-- `memcpy(dst+off, src, |src|)`; `false` = the copy would leave the block. -/
def blit (dst : Bytes) (off : Nat) (src : Bytes) : Bytes × Bool :=
  if off + src.length ≤ dst.length then
    (dst.take off ++ src ++ dst.drop (off + src.length), true)
  else (dst, false)

/-- the `n` bytes at `b+off`; `false` = they are not all inside the block. -/
def slice (b : Bytes) (off n : Nat) : Bytes × Bool :=
  if off + n ≤ b.length then ((b.drop off).take n, true) else ([], false)

/-- `ring_read_size` given the loaded index values (thread-link.cpp:26) -/
def readSize (w x size : Nat) : Nat := (w + size - x) % size

/-- `ring_write_size` (thread-link.cpp:33): one byte stays free -/
def writeSize (w r size : Nat) : Nat :=
  if r = w then size - 1 else (r + size - w) % size - 1

/-- `ring_read_vector` (thread-link.cpp:83): the two segments `r[0]`, `r[1]` -/
def readVector (buf : Bytes) (size w x : Nat) : Bytes × Bytes × Bool :=
  let rs := readSize w x size
  if rs + x > size then
    let r2 := (rs + x) % size
    let r1 := rs - r2
    let (d0, ok0) := slice buf x r1
    let (d1, ok1) := slice buf 0 r2
    (d0, d1, ok0 && ok1)
  else
    let (d0, ok0) := slice buf x rs
    (d0, [], ok0)

structure Seq where
  buf : Bytes          -- ring->buffer
  w : Nat              -- ring->write
  r : Nat              -- ring->read
  la : Nat             -- ring->read_lookahead
  size : Nat           -- ring->size = BufferSize
  maxMsg : Nat         -- MaxMsg
  rbuf : Bytes         -- read_buffer
  fault : Bool         -- some memcpy left its block
deriving DecidableEq, Repr

/-- `ThreadLink(max_message_length, max_messages)` -/
def Seq.init (maxMsg nmsgs : Nat) : Seq :=
  { buf := List.replicate (maxMsg * nmsgs) 0, w := 0, r := 0, la := 0,
    size := maxMsg * nmsgs, maxMsg := maxMsg, rbuf := List.replicate maxMsg 0, fault := false }

/-- the copies of `ring_write` (thread-link.cpp:47-55): one `memcpy`, or two when the
    message wraps around the end of the buffer -/
def copyIn (buf : Bytes) (size w : Nat) (data : Bytes) : Bytes × Bool :=
  let next := (w + data.length) % size
  if next < w then                         -- discontinuous write
    let w1 := size - w
    let (b1, ok1) := blit buf w (data.take w1)
    let (b2, ok2) := blit b1 0 (data.drop w1)
    (b2, ok1 && ok2)
  else blit buf w data

/-- `ring_write` (thread-link.cpp:42) -/
def Seq.ringWrite (s : Seq) (data : Bytes) : Seq :=
  let (b, ok) := copyIn s.buf s.size s.w data
  { s with buf := b, w := (s.w + data.length) % s.size, fault := s.fault || !ok }

/-- `ThreadLink::write` / `writeArray` once the arguments are encoded: `m` is the
    encoding; `rtosc_vmessage(write_buffer, MaxMsg, …)` yields 0 when it does not fit. -/
def Seq.write (s : Seq) (m : Bytes) : Seq :=
  let data := if m.length ≤ s.maxMsg then m else []
  if writeSize s.w s.r s.size ≥ data.length then s.ringWrite data else s

/-- `ThreadLink::raw_write` (repaired): `blk` is the memory block at `msg`. -/
def Seq.rawWrite (frame : Bytes → Nat) (s : Seq) (blk : Bytes) : Seq :=
  let len := frame blk                     -- rtosc_message_length(msg, -1)
  if len ≤ s.maxMsg ∧ writeSize s.w s.r s.size ≥ len then s.ringWrite (blk.take len) else s

/-- `ThreadLink::hasNext(lookahead)` -/
def Seq.hasNext (s : Seq) (lookahead : Bool) : Bool :=
  readSize s.w (if lookahead then s.la else s.r) s.size ≠ 0

/-- the copies of `ring_read` (thread-link.cpp:64-72) into `read_buffer` -/
def copyOut (buf rbuf : Bytes) (size read len : Nat) : Bytes × Bool :=
  let next := (read + len) % size
  if next < read then                      -- discontinuous read
    let r1 := size - read
    let r2 := len - r1
    let (c1, ok1) := slice buf read r1
    let (c2, ok2) := slice buf 0 r2
    let (rb1, ok3) := blit rbuf 0 c1
    let (rb2, ok4) := blit rb1 r1 c2
    (rb2, ok1 && ok2 && ok3 && ok4)
  else
    let (c, ok1) := slice buf read len
    let (rb, ok2) := blit rbuf 0 c
    (rb, ok1 && ok2)

/-- `ring_read` (thread-link.cpp:58) -/
def Seq.ringRead (s : Seq) (len : Nat) (lookahead : Bool) : Seq :=
  let read := if lookahead then s.la else s.r
  let next := (read + len) % s.size
  let (rb, ok) := copyOut s.buf s.rbuf s.size read len
  if lookahead then { s with rbuf := rb, la := next, fault := s.fault || !ok }
  else { s with rbuf := rb, r := next, la := next, fault := s.fault || !ok }

/-- `ThreadLink::read(lookahead)`: the new state and the length of the message now at
    the start of `read_buffer` (0: nothing was read, the buffer keeps its old contents). -/
def Seq.read (frame : Bytes → Nat) (s : Seq) (lookahead : Bool) : Seq × Nat :=
  let x := if lookahead then s.la else s.r
  let (d0, d1, ok) := readVector s.buf s.size s.w x
  let len := frame (d0 ++ d1)              -- rtosc_message_ring_length(r)
  let s' := s.ringRead len lookahead
  ({ s' with fault := s'.fault || !ok }, len)

/-! ### operation histories -/

inductive Op where
  | write (m : Bytes)
  | rawWrite (blk : Bytes)
  | read
  | readLookahead
  | hasNext
  | hasNextLookahead
deriving DecidableEq, Repr

/-- what the caller sees: nothing, a truth value, or the message returned by a read
    (`none`: the read found nothing; `read_buffer` is stale) -/
inductive Out where
  | unit
  | bool (b : Bool)
  | msg (m : Option Bytes)
deriving DecidableEq, Repr

def msgOut (rbuf : Bytes) (len : Nat) : Out :=
  .msg (if len = 0 then none else some (rbuf.take len))

def Seq.step (frame : Bytes → Nat) (s : Seq) : Op → Seq × Out
  | .write m => (s.write m, .unit)
  | .rawWrite b => (s.rawWrite frame b, .unit)
  | .read => let (s', len) := s.read frame false; (s', msgOut s'.rbuf len)
  | .readLookahead => let (s', len) := s.read frame true; (s', msgOut s'.rbuf len)
  | .hasNext => (s, .bool (s.hasNext false))
  | .hasNextLookahead => (s, .bool (s.hasNext true))

def Seq.run (frame : Bytes → Nat) : Seq → List Op → Seq × List Out
  | s, [] => (s, [])
  | s, op :: ops =>
    let (s1, o) := s.step frame op
    let (s2, os) := Seq.run frame s1 ops
    (s2, o :: os)

end Rtosc.Ring
