/-
  C16 — Argument-value comparison is a coherent order, blind to range compression.
  Property theorems only; helper lemmas live in Proofs/ArgValOrder.lean, Proofs/ArgValBridge.lean and
  Proofs/ArgValMsg.lean.

  Reading of the statement.  An argument list is given as a structured list `s : List Item`
  (plain values, arrays of any nesting, `N x value`, `start … end` with a delta) of any length;
  the C functions see its memory layout `flatList s` with `size = (flatList s).length`.
  `expandList s = some vs` says that `s` denotes the value list `vs`: all ranges are finite
  (`num ≥ 1`), their arithmetic `start + i·delta` (wrapping int32/int64, exact float/double
  arithmetic, `rangeVal`) is defined, and a repeated value is a plain value or an array.
  `Val.noNaNList vs` excludes NaN.  `fuel` is the model's recursion bound; `fuelFor` always suffices.
  The model is the code with fixes C16-blob-prefix, C16-array-type, C16-itr-repeated-array
  C01-avmessage and C10-10-argval-math-wrap applied.  Only the sign of `cmp` is specified (`memcmp`/`strcmp` by sign).
  The comparison options are not modelled: the model is the comparison with `opt == NULL`
  (`float_tolerance` 0.0); the correspondence check also passes the default options explicitly and
  requires the same results.  `Val.cmpList` takes over from the code also the orders the property does
  not state (MIDI, values of different types, NULL strings, array element types).
-/
import RtoscModel.Proofs.ArgValBridge
import RtoscModel.Proofs.ArgValMsg
namespace Rtosc.ArgVal
open Rtosc

/-- **cmp_lexicographic** (the bridge all other clauses rest on): on every pair of lists the C
    three-way comparison of the flat layouts is the lexicographic order `Val.cmpList` of the
    denoted values — first differing value decides, a proper prefix is smaller, arrays compare
    by element type ('T' ≙ 'F') and then by content. -/
theorem cmp_lexicographic (s t : List Item) (vs vt : List Val)
    (hs : expandList s = some vs) (ht : expandList t = some vt)
    (fuel : Nat) (hf : fuelFor vs vt ≤ fuel) :
    cmp fuel (flatList s) (flatList t) (flatList s).length (flatList t).length
      = .ok (Val.cmpList vs vt) :=
  cmp_flat_spec s t vs vt hs ht fuel hf

/-- **eq_spec**: the equality test computes "the order says equal" (the `eq` half of
    `cmp_zero_iff_eq`, for every pair of lists, NaN or not). -/
theorem eq_spec (s t : List Item) (vs vt : List Val)
    (hs : expandList s = some vs) (ht : expandList t = some vt)
    (fuel : Nat) (hf : fuelFor vs vt ≤ fuel) :
    eq fuel (flatList s) (flatList t) (flatList s).length (flatList t).length
      = .ok (decide (Val.cmpList vs vt = 0)) :=
  eq_flat_spec s t vs vt hs ht fuel hf

/-- **cmp_refl**: every list compares equal to itself. -/
theorem cmp_refl (s : List Item) (vs : List Val) (hs : expandList s = some vs)
    (hn : Val.noNaNList vs = true) (fuel : Nat) (hf : fuelFor vs vs ≤ fuel) :
    cmp fuel (flatList s) (flatList s) (flatList s).length (flatList s).length = .ok 0 := by
  rw [cmp_lexicographic s s vs vs hs hs fuel hf, Val.cmpList_refl vs (okList_of_expand hs hn)]

/-- **cmp_antisymm**: `sign (cmp a b) = − sign (cmp b a)` (both calls return, with a sign in
    {-1, 0, 1}). -/
theorem cmp_antisymm (s t : List Item) (vs vt : List Val)
    (hs : expandList s = some vs) (ht : expandList t = some vt)
    (hns : Val.noNaNList vs = true) (hnt : Val.noNaNList vt = true)
    (fuel : Nat) (hf1 : fuelFor vs vt ≤ fuel) (hf2 : fuelFor vt vs ≤ fuel) :
    ∃ a b : Int,
      cmp fuel (flatList s) (flatList t) (flatList s).length (flatList t).length = .ok a ∧
      cmp fuel (flatList t) (flatList s) (flatList t).length (flatList s).length = .ok b ∧
      Int.sign a = - Int.sign b ∧ (a = -1 ∨ a = 0 ∨ a = 1) := by
  refine ⟨_, _, cmp_lexicographic s t vs vt hs ht fuel hf1, cmp_lexicographic t s vt vs ht hs fuel hf2, ?_,
    Val.cmpList_range vs vt (okList_of_expand hs hns) (okList_of_expand ht hnt)⟩
  rw [Val.cmpList_antisymm vs vt (okList_of_expand hs hns) (okList_of_expand ht hnt)]
  simp

/-- **cmp_trans**: `a ≤ b` and `b ≤ c` give `a ≤ c`; if one of the two is strict, `a < c`. -/
theorem cmp_trans (s t u : List Item) (vs vt vu : List Val)
    (hs : expandList s = some vs) (ht : expandList t = some vt) (hu : expandList u = some vu)
    (hns : Val.noNaNList vs = true) (hnt : Val.noNaNList vt = true) (hnu : Val.noNaNList vu = true)
    (fuel : Nat) (hf1 : fuelFor vs vt ≤ fuel) (hf2 : fuelFor vt vu ≤ fuel) (hf3 : fuelFor vs vu ≤ fuel) :
    ∃ ab bc ac : Int,
      cmp fuel (flatList s) (flatList t) (flatList s).length (flatList t).length = .ok ab ∧
      cmp fuel (flatList t) (flatList u) (flatList t).length (flatList u).length = .ok bc ∧
      cmp fuel (flatList s) (flatList u) (flatList s).length (flatList u).length = .ok ac ∧
      (ab ≤ 0 → bc ≤ 0 → ac ≤ 0) ∧ (ab ≤ 0 → bc ≤ 0 → (ab < 0 ∨ bc < 0) → ac < 0) := by
  have os := okList_of_expand hs hns
  have ot := okList_of_expand ht hnt
  have ou := okList_of_expand hu hnu
  refine ⟨_, _, _, cmp_lexicographic s t vs vt hs ht fuel hf1, cmp_lexicographic t u vt vu ht hu fuel hf2,
    cmp_lexicographic s u vs vu hs hu fuel hf3, Val.cmpList_trans vs vt vu os ot ou, ?_⟩
  intro h1 h2 h3
  have h4 := Val.cmpList_trans vs vt vu os ot ou h1 h2
  have a1 := Val.cmpList_antisymm vs vu os ou
  have a2 := Val.cmpList_antisymm vs vt os ot
  have a3 := Val.cmpList_antisymm vt vu ot ou
  by_cases e : Val.cmpList vs vu = 0
  · -- c ≤ a: then b ≤ c ≤ a and c ≤ a ≤ b contradict the strict one
    have hua : Val.cmpList vu vs ≤ 0 := by omega
    have := Val.cmpList_trans vt vu vs ot ou os h2 hua
    have := Val.cmpList_trans vu vs vt ou os ot hua h1
    omega
  · omega

/-- **cmp_zero_iff_eq**: the three-way comparison returns 0 exactly when the equality test
    reports equal. -/
theorem cmp_zero_iff_eq (s t : List Item) (vs vt : List Val)
    (hs : expandList s = some vs) (ht : expandList t = some vt)
    (fuel : Nat) (hf : fuelFor vs vt ≤ fuel) :
    ∃ (e : Bool) (c : Int),
      eq fuel (flatList s) (flatList t) (flatList s).length (flatList t).length = .ok e ∧
      cmp fuel (flatList s) (flatList t) (flatList s).length (flatList t).length = .ok c ∧
      (e = true ↔ c = 0) :=
  ⟨_, _, eq_spec s t vs vt hs ht fuel hf, cmp_lexicographic s t vs vt hs ht fuel hf, by simp⟩

/-- **orders_as_documented**: numbers are ordered numerically, strings lexicographically
    (`lexCmp` on the bytes up to the terminator, unsigned), blobs bytewise with a proper prefix
    first (whatever the next byte is), the time tag 1 ("immediately") before every other
    time tag; floats/doubles by the IEEE order (`FFmt.key` is the monotone map of non-NaN
    patterns into the integers, `-0 = +0`). -/
theorem orders_as_documented (fuel : Nat) (hf : 4 ≤ fuel) :
    (∀ ty x y, cmp fuel [.int ty x] [.int ty y] 1 1 = .ok (cmp3 x y)) ∧
    (∀ x y, cmp fuel [.huge x] [.huge y] 1 1 = .ok (cmp3 x y)) ∧
    (∀ x y, f32.isNaN x.toNat = false → f32.isNaN y.toNat = false →
      cmp fuel [.flt x] [.flt y] 1 1 = .ok (cmp3 (f32.key x.toNat) (f32.key y.toNat))) ∧
    (∀ x y, f64.isNaN x.toNat = false → f64.isNaN y.toNat = false →
      cmp fuel [.dbl x] [.dbl y] 1 1 = .ok (cmp3 (f64.key x.toNat) (f64.key y.toNat))) ∧
    (∀ ty x y, cmp fuel [.str ty (some x)] [.str ty (some y)] 1 1 = .ok (lexCmp (cstrOf x) (cstrOf y))) ∧
    (∀ x y, cmp fuel [.blob x] [.blob y] 1 1 = .ok (lexCmp x y)) ∧
    (∀ x b r, cmp fuel [.blob x] [.blob (x ++ b :: r)] 1 1 = .ok (-1) ∧
              cmp fuel [.blob (x ++ b :: r)] [.blob x] 1 1 = .ok 1) ∧
    (∀ y, y ≠ 1 → cmp fuel [.time 1] [.time y] 1 1 = .ok (-1) ∧
                  cmp fuel [.time y] [.time 1] 1 1 = .ok 1) ∧
    (∀ x y, x ≠ 1 → y ≠ 1 → cmp fuel [.time x] [.time y] 1 1 = .ok (cmp3 x y)) := by
  refine ⟨?_, ?_, ?_, ?_, ?_, ?_, ?_, ?_, ?_⟩
  · intro ty x y; rw [cmp_single_value _ _ rfl rfl fuel hf]; simp [cmpScalar, Cell.type]
  · intro x y; rw [cmp_single_value _ _ rfl rfl fuel hf]; simp [cmpScalar, Cell.type]
  · intro x y hx hy
    rw [cmp_single_value _ _ rfl rfl fuel hf]
    simp [cmpScalar, Cell.type, fcmp3_key f32 _ _ hx hy, cmp3_lexI]
  · intro x y hx hy
    rw [cmp_single_value _ _ rfl rfl fuel hf]
    simp [cmpScalar, Cell.type, fcmp3_key f64 _ _ hx hy, cmp3_lexI]
  · intro ty x y; rw [cmp_single_value _ _ rfl rfl fuel hf]; simp [cmpScalar, Cell.type, strcmpS]
  · intro x y; rw [cmp_single_value _ _ rfl rfl fuel hf]; simp [cmpScalar, Cell.type, blobCmp_eq]
  · intro x b r
    rw [cmp_single_value _ _ rfl rfl fuel hf, cmp_single_value _ _ rfl rfl fuel hf]
    simp [cmpScalar, Cell.type, blobCmp_eq, lexCmp_prefix]
  · intro y hy
    rw [cmp_single_value _ _ rfl rfl fuel hf, cmp_single_value _ _ rfl rfl fuel hf]
    simp [cmpScalar, Cell.type, hy]
  · intro x y hx hy
    rw [cmp_single_value _ _ rfl rfl fuel hf]
    simp [cmpScalar, Cell.type, hx, hy]

/-- **compress_blind**: two layouts `s`, `s'` of the same value list (any choice of `N x value`
    and delta ranges over its runs, at any nesting depth) are indistinguishable: equality and
    order against every third list in both directions, what iteration yields, and the OSC
    message `rtosc_avmessage` builds are the same; and the two layouts compare equal. -/
theorem compress_blind (s s' t : List Item) (vs vt : List Val)
    (hs : expandList s = some vs) (hs' : expandList s' = some vs) (ht : expandList t = some vt)
    (fuel : Nat) (hf1 : fuelFor vs vt ≤ fuel) (hf2 : fuelFor vt vs ≤ fuel) (hf3 : fuelFor vs vs ≤ fuel)
    (buffer : Option Bytes) (addr : Bytes) :
    cmp fuel (flatList s) (flatList t) (flatList s).length (flatList t).length
      = cmp fuel (flatList s') (flatList t) (flatList s').length (flatList t).length ∧
    cmp fuel (flatList t) (flatList s) (flatList t).length (flatList s).length
      = cmp fuel (flatList t) (flatList s') (flatList t).length (flatList s').length ∧
    eq fuel (flatList s) (flatList t) (flatList s).length (flatList t).length
      = eq fuel (flatList s') (flatList t) (flatList s').length (flatList t).length ∧
    eq fuel (flatList t) (flatList s) (flatList t).length (flatList s).length
      = eq fuel (flatList t) (flatList s') (flatList t).length (flatList s').length ∧
    (∃ ps ps', iterate fuel (Itr.init (flatList s)) (flatList s).length = .ok ps ∧
               iterate fuel (Itr.init (flatList s')) (flatList s').length = .ok ps' ∧
               AllDenote ps vs ∧ AllDenote ps' vs) ∧
    avmessage fuel buffer addr (flatList s).length (flatList s)
      = avmessage fuel buffer addr (flatList s').length (flatList s') ∧
    (Val.noNaNList vs = true →
      cmp fuel (flatList s) (flatList s') (flatList s).length (flatList s').length = .ok 0 ∧
      eq fuel (flatList s) (flatList s') (flatList s).length (flatList s').length = .ok true) := by
  have hlen : vs.length + 1 ≤ fuel := by
    have := length_le_sizeList vs; simp only [fuelFor] at hf3; omega
  refine ⟨?_, ?_, ?_, ?_, ?_, ?_, ?_⟩
  · rw [cmp_lexicographic s t vs vt hs ht fuel hf1, cmp_lexicographic s' t vs vt hs' ht fuel hf1]
  · rw [cmp_lexicographic t s vt vs ht hs fuel hf2, cmp_lexicographic t s' vt vs ht hs' fuel hf2]
  · rw [eq_spec s t vs vt hs ht fuel hf1, eq_spec s' t vs vt hs' ht fuel hf1]
  · rw [eq_spec t s vt vs ht hs fuel hf2, eq_spec t s' vt vs ht hs' fuel hf2]
  · have c1 := cur_init s [] vs hs
    have c2 := cur_init s' [] vs hs'
    simp only [List.append_nil] at c1 c2
    obtain ⟨ps, h1, d1⟩ := iterate_cur vs fuel _ _ c1 hlen
    obtain ⟨ps', h2, d2⟩ := iterate_cur vs fuel _ _ c2 hlen
    exact ⟨ps, ps', h1, h2, d1, d2⟩
  · rw [avmessage_bridge s vs hs fuel hlen, avmessage_bridge s' vs hs' fuel hlen]
  · intro hn
    have o := okList_of_expand hs hn
    rw [cmp_lexicographic s s' vs vs hs hs' fuel hf3, eq_spec s s' vs vs hs hs' fuel hf3,
      Val.cmpList_refl vs o]
    simp

/-- **compress_const_run**: replacing a run of `n` equal values (plain or array) anywhere in a
    list by `n x value` does not change what the list denotes (so `compress_blind` applies);
    `expandList_arr_congr` carries this into arrays. -/
theorem compress_const_run (pre post : List Item) (n : Nat) (hn : 1 ≤ n) (x : Item)
    (hx : (∃ c, x = .val c) ∨ (∃ ety es, x = .arr ety es)) :
    expandList (pre ++ List.replicate n x ++ post) = expandList (pre ++ [.rep n x] ++ post) := by
  have key : expandList (List.replicate n x) = expandList [.rep n x] := by
    have hrep : ∀ (m : Nat) (vx : List Val), x.expand = some vx →
        expandList (List.replicate m x) = some (List.replicate m vx).flatten := by
      intro m vx hvx
      induction m with
      | zero => simp [expandList]
      | succ m ih => simp [List.replicate_succ, expandList, hvx, ih]
    rcases hx with ⟨c, rfl⟩ | ⟨ety, es, rfl⟩
    · by_cases hc : c.isScalar = true
      · rw [hrep n [.sc c] (by simp [Item.expand, hc])]
        simp [expandList, Item.expand, hn, hc]
      · have : expandList (List.replicate n (Item.val c)) = none := by
          cases n with
          | zero => omega
          | succ m => simp [List.replicate_succ, expandList, Item.expand, hc]
        rw [this]; simp [expandList, Item.expand, hc]
    · cases he : expandList es with
      | none =>
        have : expandList (List.replicate n (Item.arr ety es)) = none := by
          cases n with
          | zero => omega
          | succ m => simp [List.replicate_succ, expandList, Item.expand, he]
        rw [this]; simp [expandList, Item.expand, he]
      | some ves =>
        rw [hrep n [.arr ety ves] (by simp [Item.expand, he])]
        simp [expandList, Item.expand, hn, he]
  simp only [expandList_append, key]

/-- **compress_arith_run**: replacing a run `v 0, …, v (n-1)` with `v i = start + i·delta`
    anywhere in a list by the delta range does not change what the list denotes. -/
theorem compress_arith_run (pre post : List Item) (n : Nat) (hn : 1 ≤ n) (d s : Cell) (v : Nat → Cell)
    (hd : d.isScalar = true) (hs : s.isScalar = true) (hv : ∀ i, i < n → rangeVal d s i = .ok (v i)) :
    expandList (pre ++ (List.range n).map (fun i => .val (v i)) ++ post)
      = expandList (pre ++ [.range n d s] ++ post) := by
  have hvals : ∀ (m i : Nat), i + m ≤ n →
      rangeVals d s i m = some ((List.range' i m).map fun j => .sc (v j)) := by
    intro m
    induction m with
    | zero => intro i _; simp [rangeVals]
    | succ m ih =>
      intro i him
      simp [rangeVals, hv i (by omega), ih (i + 1) (by omega), List.range'_succ]
  have hplain : ∀ (m i : Nat), i + m ≤ n →
      expandList ((List.range' i m).map fun j => Item.val (v j))
        = some ((List.range' i m).map fun j => .sc (v j)) := by
    intro m
    induction m with
    | zero => intro i _; simp [expandList]
    | succ m ih =>
      intro i him
      have hsc : (v i).isScalar = true := rangeVal_scalar (hv i (by omega))
      simp [List.range'_succ, expandList, Item.expand, hsc, ih (i + 1) (by omega)]
  have key : expandList ((List.range n).map fun i => Item.val (v i)) = expandList [.range n d s] := by
    rw [List.range_eq_range', hplain n 0 (by omega)]
    simp [expandList, Item.expand, hn, hd, hs, hvals n 0 (by omega)]
  simp only [expandList_append, key]

/-- compression inside an array: equal denotations of the contents give equal denotations of
    the arrays (whatever their `len` fields are) -/
theorem expandList_arr_congr (ety : UInt8) (es es' : List Item) (h : expandList es = expandList es') :
    expandList [.arr ety es] = expandList [.arr ety es'] := by
  simp [expandList, Item.expand, h]

/-! ### Non-vacuity: concrete lists with arrays, `N x` ranges, delta ranges (also inside an array)
    satisfy the hypotheses, and the conclusions evaluate as stated. -/

/-- `1 2 3 4 5  [T F F]  "ab" "ab"  [1.0 1.5]` written with ranges -/
def exS : List Item :=
  [.range 5 (.int .i 1) (.int .i 1), .arr 70 [.val (.flag .T), .rep 2 (.val (.flag .F))],
   .rep 2 (.val (.str .s (some [97, 98]))), .arr 102 [.range 2 (.flt 0x3f000000) (.flt 0x3f800000)]]
/-- the same list written out -/
def exS' : List Item :=
  [.val (.int .i 1), .val (.int .i 2), .range 3 (.int .i 1) (.int .i 3),
   .arr 70 [.val (.flag .T), .val (.flag .F), .val (.flag .F)],
   .val (.str .s (some [97, 98])), .val (.str .s (some [97, 98])),
   .arr 102 [.val (.flt 0x3f800000), .val (.flt 0x3fc00000)]]
/-- a list that differs in the last array -/
def exT : List Item :=
  [.range 5 (.int .i 1) (.int .i 1), .arr 84 [.val (.flag .T), .rep 2 (.val (.flag .F))],
   .rep 2 (.val (.str .s (some [97, 98]))), .arr 102 [.val (.flt 0x3f800000)]]
def exV : List Val :=
  [.sc (.int .i 1), .sc (.int .i 2), .sc (.int .i 3), .sc (.int .i 4), .sc (.int .i 5),
   .arr 70 [.sc (.flag .T), .sc (.flag .F), .sc (.flag .F)],
   .sc (.str .s (some [97, 98])), .sc (.str .s (some [97, 98])),
   .arr 102 [.sc (.flt 0x3f800000), .sc (.flt 0x3fc00000)]]

example : expandList exS = some exV := by rfl
example : expandList exS' = some exV := by rfl
example : expandList exT ≠ none := by decide
example : Val.noNaNList exV = true := by decide
example : fuelFor exV exV ≤ 40 := by decide
example : (flatList exS).length = 13 ∧ (flatList exS').length = 14 ∧ (flatList exT).length = 11 := by decide
-- the conclusions, evaluated on the model
example : cmp 40 (flatList exS) (flatList exS') 13 14 = .ok 0 := by decide +kernel
example : eq 40 (flatList exS) (flatList exS') 13 14 = .ok true := by decide +kernel
example : cmp 40 (flatList exT) (flatList exS) 11 13 = .ok (-1) := by decide +kernel
example : cmp 40 (flatList exS') (flatList exT) 14 11 = .ok 1 := by decide +kernel
example : eq 40 (flatList exS') (flatList exT) 14 11 = .ok false := by decide +kernel
-- the witnesses of the repaired defects
example : cmp 40 [.blob [1, 2]] [.blob [1, 2, 0]] 1 1 = .ok (-1) := by decide +kernel
example : cmp 40 [.blob [1, 2, 0]] [.blob [1, 2]] 1 1 = .ok 1 := by decide +kernel
example : cmp 40 [.arr 84 0] [.arr 105 0] 1 1 = .ok (-1) ∧ cmp 40 [.arr 105 0] [.arr 84 0] 1 1 = .ok 1 := by
  decide +kernel
-- hypotheses of compress_const_run / compress_arith_run
example : ∀ i, i < 5 → rangeVal (.int .i 1) (.int .i 1) i = .ok (.int .i ((i : Int) + 1)) := by decide

/-! ### What "arithmetic run" means, and what the message is -/

/-- **range_arith_int**: the `n`-th value of an integer range is `start + n·delta`, computed in
    wrapping `int32_t` ('i', 'c') / `int64_t` ('h') arithmetic — and exactly `start + n·delta`
    when neither the product nor the sum leaves the type. -/
theorem range_arith_int (n : Nat) :
    (∀ d s, rangeVal (.int .i d) (.int .i s) n = .ok (.int .i (wrapI32 (s + wrapI32 (n * d))))) ∧
    (∀ d s, rangeVal (.int .c d) (.int .c s) n = .ok (.int .c (wrapI32 (s + wrapI32 (n * d))))) ∧
    (∀ d s, rangeVal (.huge d) (.huge s) n = .ok (.huge (wrapI64 (s + wrapI64 (n * d))))) ∧
    (∀ d s : Int, -2147483648 ≤ n * d → n * d < 2147483648 → -2147483648 ≤ s + n * d → s + n * d < 2147483648 →
      wrapI32 (s + wrapI32 (n * d)) = s + n * d) ∧
    (∀ d s : Int, -9223372036854775808 ≤ n * d → n * d < 9223372036854775808 →
      -9223372036854775808 ≤ s + n * d → s + n * d < 9223372036854775808 →
      wrapI64 (s + wrapI64 (n * d)) = s + n * d) := by
  refine ⟨?_, ?_, ?_, ?_, ?_⟩
  · intro d s; simp [rangeVal, fromInt, mult, add, Cell.type]
  · intro d s; simp [rangeVal, fromInt, mult, add, Cell.type]
  · intro d s; simp [rangeVal, fromInt, mult, add, Cell.type]
  · intro d s h1 h2 h3 h4
    have e : wrapI32 (n * d) = n * d := by unfold wrapI32; omega
    rw [e]; unfold wrapI32; omega
  · intro d s h1 h2 h3 h4
    have e : wrapI64 (n * d) = n * d := by unfold wrapI64; omega
    rw [e]; unfold wrapI64; omega

/-- **range_arith_float**: the `n`-th value of a float / double range is
    `start ⊕ (float(n) ⊗ delta)` with one IEEE rounding per operation (`Float.lean`; `none` = a NaN
    operand, which the property excludes). -/
theorem range_arith_float (n : Nat) :
    (∀ d s : UInt32, rangeVal (.flt d) (.flt s) n =
      match f32.mul (UInt32.ofNat (f32.ofInt n)).toNat d.toNat with
      | none => .error .nan
      | some m => fop32 (f32.add s.toNat (UInt32.ofNat m).toNat)) ∧
    (∀ d s : UInt64, rangeVal (.dbl d) (.dbl s) n =
      match f64.mul (UInt64.ofNat (f64.ofInt n)).toNat d.toNat with
      | none => .error .nan
      | some m => fop64 (f64.add s.toNat (UInt64.ofNat m).toNat)) := by
  refine ⟨?_, ?_⟩
  · intro d s
    unfold rangeVal fromInt mult
    simp only [Cell.type, ne_eq, not_true_eq_false, if_false]
    cases h : f32.mul (UInt32.ofNat (f32.ofInt n)).toNat d.toNat <;> simp [fop32, add, Cell.type]
  · intro d s
    unfold rangeVal fromInt mult
    simp only [Cell.type, ne_eq, not_true_eq_false, if_false]
    cases h : f64.mul (UInt64.ofNat (f64.ofInt n)).toNat d.toNat <;> simp [fop64, add, Cell.type]

/-- **range_arith_bool**: a boolean range `start, start xor delta, start xor delta, …`. -/
theorem range_arith_bool (n : Nat) (d s : FlagTy) (hd : d = .T ∨ d = .F) (hs : s = .T ∨ s = .F) :
    rangeVal (.flag d) (.flag s) n =
      .ok (.flag (if (s = .T) ≠ (n ≠ 0 ∧ d = .T) then .T else .F)) := by
  rcases hd with rfl | rfl <;> rcases hs with rfl | rfl <;> by_cases h : n = 0 <;>
    simp [rangeVal, fromInt, mult, add, Cell.type, FlagTy.char, h]

/-- **avmessage_of_values**: when the denoted list holds no NULL string at top level,
    `rtosc_avmessage` on *any* layout of it returns what `rtosc_amessage` (C01's model) builds from one
    type character per denoted top-level value and one `rtosc_arg_t` per value that carries a payload
    (an array contributes its `'a'` character only) — so the message clause of `compress_blind` is an
    equation between defined results, not between two failures. -/
theorem avmessage_of_values (s : List Item) (vs : List Val) (hs : expandList s = some vs)
    (hn : noNullTop vs = true) (fuel : Nat) (hf : vs.length + 1 ≤ fuel) (buffer : Option Bytes) (addr : Bytes) :
    avmessage fuel buffer addr (flatList s).length (flatList s)
      = .ok (Osc.amessage buffer addr (vs.map fun v => v.head.type) (vs.flatMap Val.payload)) := by
  rw [avmessage_bridge s vs hs fuel hf]
  simp [msgOf, msgArgs_defined vs (expandList_leaves s vs hs) hn, bind, Except.bind, pure, Except.pure]

example : noNullTop exV = true := by decide
example : rangeVal (.int .c 1) (.int .c 0) 199 = .ok (.int .c 199) := by decide
example : rangeVal (.huge 5000000000) (.huge (-5000000000)) 2 = .ok (.huge 5000000000) := by decide
example : rangeVal (.int .i 2147483647) (.int .i 1) 3 = .ok (.int .i 2147483646) := by decide


end Rtosc.ArgVal
