/-
  C14 — Parameter ports clamp to their declared range and report every change.
  Property theorems only; helper lemmas live in Proofs/ParamLemmas.lean.

  Reading of the statement.  The callbacks are the functions of RtoscModel/Param/Sugar.lean
  (one per macro of include/rtosc/port-sugar.h, repaired by fixes/C14-*.patch).  A
  callback gets the stored value `old`, the location `loc` (= `data.loc`, the port's full
  address), the port's metadata `pm` (= `data.port->meta()`) and the argument list of the
  message; it returns the new stored value and the messages it hands to
  `RtData::reply` / `RtData::broadcast`, in order.

  * declared minimum / maximum:  `bound conv pm "min" = .ok lo`, `… "max" = .ok hi`
    (`lo hi : Option _`, `none` = the bound is absent from the metadata).  For the integer
    kinds `conv = atoi`: the bound as declared, *not* converted to the type of the
    callback's variable (fixes/C14-limit-bound-narrowing.patch; before the repair a
    declared maximum of 200 on a `char`-typed variable was used as -56).
  * every callback reads the first argument only (`a :: rest`, `rest` arbitrary): the last
    alternative of a port's type pattern accepts further arguments.
  * the incoming value is representable in the storage type: `varTy.InRange raw`
    (char-backed kinds narrow before clamping by design).
  * integer kinds: `rParamCb ty = intCb ty ty Arg.c`, `rParamICb ty = intCb ty ty Arg.i`,
    the element callback of `rArrayICb` is `intCb .i8 ty Arg.i`; the theorems are stated
    for `intCb` and therefore hold for all three.
    float kinds: `rParamFCb = rArrayFElem = fltCb`.  options: `rOptionCb = rArrayOptionElem = optCb`.
  * fields / variables of the other C integer types (`unsigned short`, `unsigned`, `long`,
    `unsigned long`): `intCbW` of Param/Wide.lean, a conservative extension of `intCb`
    (`intCbW_eq_intCb`); theorems `…_int_wide` at the end of this file.
  * array forms: `arrCb elem …` with the element callbacks above; `array_applies_element_callback`
    transfers every scalar theorem to the addressed element.
-/
import RtoscModel.Proofs.ParamLemmas
import RtoscModel.Proofs.ParamDelivery
import RtoscModel.Proofs.ParamDeliveryArr
import RtoscModel.Proofs.ParamWalkBridge
import RtoscModel.Proofs.ParamWide
namespace Rtosc.Param
open Rtosc

/-! ## stored value = incoming value clamped to the declared range -/

/-- **rLIMIT clamps** over any comparison structure whose `<` is transitive (the order-only
    abstraction: nothing else about the values is used). -/
theorem limit_clamps {α : Type} (N : NumOps α) {D : α → Prop} (ho : Ordered N D)
    (lo hi : Option α) (v : α)
    (hord : ∀ l h, lo = some l → hi = some h → N.lt h l = false) :
    Clamped N lo hi v (limit N lo hi v) :=
  limit_clamps_aux N ho lo hi v hord

/-- **stored_is_clamped** (rParam, rParamI, rArrayI; every storage type, every declared
    range that meets the type of the callback's variable — the minimum is not above the
    type's largest value, the maximum not below its smallest): after a set message the
    stored value is the incoming value clamped to the *declared* bounds `atoi(metadata)`.
    In particular a declared maximum of 200 on the `char` variable of rArrayI clamps
    nothing in -128..127. -/
theorem stored_is_clamped_int (varTy storeTy : IntTy) (tag : Int → Arg) (pm : Meta.Ptr) (loc : Bytes)
    (old raw new : Int) (a : Arg) (args : List Arg) (lo hi : Option Int) (ev : List Event)
    (harg : argI a = .ok raw) (hraw : varTy.InRange raw) (hsub : varTy.Sub storeTy)
    (hmn : bound atoi pm kMin = .ok lo) (hmx : bound atoi pm kMax = .ok hi)
    (hlo : ∀ l, lo = some l → l ≤ varTy.max) (hhi : ∀ h, hi = some h → varTy.min ≤ h)
    (hord : ∀ l h, lo = some l → hi = some h → l ≤ h)
    (hres : intCb varTy storeTy tag pm loc old (a :: args) = .ok (new, ev)) :
    (∀ l, lo = some l → raw < l → new = l) ∧
    (∀ h, hi = some h → h < raw → new = h) ∧
    ((∀ l, lo = some l → l ≤ raw) → (∀ h, hi = some h → raw ≤ h) → new = raw) := by
  obtain ⟨hnew, _⟩ := intCb_set_result varTy storeTy tag pm loc old raw new a args lo hi ev harg hsub hmn hmx hres
  rw [IntTy.wrap_of_inRange _ _ hraw, limitInt_eq_limit varTy lo hi raw hraw hlo hhi hord] at hnew
  have hc := limit_clamps intOps intOps_ordered lo hi raw (by
    intro l h hl hh
    have := hord l h hl hh
    simp [intOps]; omega)
  rw [← hnew] at hc
  refine ⟨fun l hl hlt => hc.below l hl (by simp [intOps]; omega),
          fun h hh hlt => hc.above h hh (by simp [intOps]; omega),
          fun h1 h2 => hc.inside (fun l hl => by have := h1 l hl; simp [intOps]; omega)
                                 (fun h hh => by have := h2 h hh; simp [intOps]; omega)⟩

/-- whatever the declared bounds are, the value the repaired `rLIMIT` leaves in the
    callback's variable is a value of that variable's type, and it is what gets stored -/
theorem stored_int_in_var_type (varTy storeTy : IntTy) (tag : Int → Arg) (pm : Meta.Ptr) (loc : Bytes)
    (old raw new : Int) (a : Arg) (args : List Arg) (ev : List Event)
    (harg : argI a = .ok raw) (hsub : varTy.Sub storeTy)
    (hres : intCb varTy storeTy tag pm loc old (a :: args) = .ok (new, ev)) :
    varTy.InRange new := by
  simp only [intCb, harg, bind, Except.bind] at hres
  split at hres
  · cases hres
  · rename_i lo hmn
    split at hres
    · cases hres
    · rename_i hi hmx
      simp only [pure, Except.pure, Except.ok.injEq, Prod.mk.injEq] at hres
      have hvr := limitInt_inRange varTy lo hi _ (IntTy.wrap_inRange varTy raw)
      rw [← hres.1, IntTy.wrap_of_inRange _ _ (hsub.inRange hvr)]
      exact hvr

/-- **stored_is_clamped** (rParamF, rArrayF): clamping in the IEEE order of the bit
    patterns; bounds are `(float)atof(metadata)`.  Holds for every pattern, NaN included
    (a NaN compares neither below nor above and is stored as it is). -/
theorem stored_is_clamped_float (pm : Meta.Ptr) (loc : Bytes) (old raw new : UInt32) (a : Arg)
    (args : List Arg) (lo hi : Option UInt32) (ev : List Event)
    (harg : argF a = .ok raw)
    (hmn : bound atofF32 pm kMin = .ok lo) (hmx : bound atofF32 pm kMax = .ok hi)
    (hord : ∀ l h, lo = some l → hi = some h → fLt h l = false)
    (hres : fltCb pm loc old (a :: args) = .ok (new, ev)) :
    Clamped fltOps lo hi raw new := by
  obtain ⟨hnew, _⟩ := fltCb_set_result pm loc old raw new a args lo hi ev harg hmn hmx hres
  rw [hnew]
  exact limit_clamps fltOps fltOps_ordered lo hi raw hord

/-- **stored_is_clamped** (rOption, rArrayOption with an integer argument `i` or `c`). -/
theorem stored_is_clamped_option (storeTy : IntTy) (pm : Meta.Ptr) (loc : Bytes)
    (old raw new : Int) (a : Arg) (rest : List Arg) (lo hi : Option Int) (ev : List Event)
    (harg : a = .i raw ∨ a = .c raw) (hraw : storeTy.InRange raw)
    (hmn : bound atoi pm kMin = .ok lo) (hmx : bound atoi pm kMax = .ok hi)
    (hlo : ∀ l, lo = some l → storeTy.InRange l) (hhi : ∀ h, hi = some h → storeTy.InRange h)
    (hord : ∀ l h, lo = some l → hi = some h → l ≤ h)
    (hres : optCb storeTy pm loc old (a :: rest) = .ok (new, ev)) :
    (∀ l, lo = some l → raw < l → new = l) ∧
    (∀ h, hi = some h → h < raw → new = h) ∧
    ((∀ l, lo = some l → l ≤ raw) → (∀ h, hi = some h → raw ≤ h) → new = raw) := by
  obtain ⟨hnew, _⟩ := optCb_int_result storeTy pm loc old raw new a rest lo hi ev harg hraw hmn hmx hlo hhi hres
  have hc := limit_clamps intOps intOps_ordered lo hi raw (by
    intro l h hl hh
    have := hord l h hl hh
    simp [intOps]; omega)
  rw [← hnew] at hc
  refine ⟨fun l hl hlt => hc.below l hl (by simp [intOps]; omega),
          fun h hh hlt => hc.above h hh (by simp [intOps]; omega),
          fun h1 h2 => hc.inside (fun l hl => by have := h1 l hl; simp [intOps]; omega)
                                 (fun h hh => by have := h2 h hh; simp [intOps]; omega)⟩

/-- **stored value of a toggle** (rToggle and the element callbacks of rArrayT and
    rArrayTCbMember): the stored value is the incoming one; a broadcast carrying it is sent
    iff it differs from the old value; no other message is sent.  Arguments behind the first
    one change nothing. -/
theorem stored_toggle (loc : Bytes) (old v : Bool) (a : Arg) (rest : List Arg) (harg : argT a = .ok v) :
    rToggleCb loc old (a :: rest) = .ok (v, if old ≠ v then [broadcast loc [tfArg v]] else []) ∧
    rArrayTElem loc old (a :: rest) = .ok (v, if old ≠ v then [broadcast loc [tfArg v]] else []) ∧
    rArrayTMemberElem loc old (a :: rest) = .ok (v, if old ≠ v then [broadcast loc [tfArg v]] else []) := by
  cases a <;> simp [argT] at harg <;> subst harg <;> cases old <;>
    simp [rToggleCb, rArrayTElem, rArrayTMemberElem, argT, tfArg, bind, Except.bind]

/-! ## a message without arguments replies the stored value at the port's address and changes nothing -/

theorem query_replies_and_preserves_int (varTy storeTy : IntTy) (tag : Int → Arg) (pm : Meta.Ptr)
    (loc : Bytes) (old : Int) (hold : IntTy.i32.InRange old) :
    intCb varTy storeTy tag pm loc old [] = .ok (old, [reply loc [tag old]]) := by
  simp [intCb, IntTy.wrap_of_inRange _ _ hold]

/-- the reply carries the stored pattern (`fArg old = .f old` for every non-NaN value,
    `fArg_of_not_nan`; a signalling NaN arrives quiet, as the `float → double → float`
    round trip of the variadic call makes it) -/
theorem query_replies_and_preserves_float (pm : Meta.Ptr) (loc : Bytes) (old : UInt32) :
    fltCb pm loc old [] = .ok (old, [reply loc [fArg old]]) ∧
    (isNaN old = false → fltCb pm loc old [] = .ok (old, [reply loc [.f old]])) := by
  refine ⟨by simp [fltCb], fun h => by simp [fltCb, fArg_of_not_nan old h]⟩

theorem query_replies_and_preserves_option (storeTy : IntTy) (pm : Meta.Ptr) (loc : Bytes) (old : Int)
    (hold : IntTy.i32.InRange old) :
    optCb storeTy pm loc old [] = .ok (old, [reply loc [.i old]]) := by
  simp [optCb, IntTy.wrap_of_inRange _ _ hold]

theorem query_replies_and_preserves_toggle (loc : Bytes) (old : Bool) :
    rToggleCb loc old [] = .ok (old, [reply loc [tfArg old]]) ∧
    rArrayTElem loc old [] = .ok (old, [reply loc [tfArg old]]) ∧
    rArrayTMemberElem loc old [] = .ok (old, [reply loc [tfArg old]]) := by
  simp [rToggleCb, rArrayTElem, rArrayTMemberElem]

theorem query_replies_and_preserves_string (len : Nat) (loc old s : Bytes) (hs : cstr old = some s) :
    rStringCb len loc old [] = .ok (old, [reply loc [.s s]]) := by
  simp [rStringCb, hs]

/-- **query on an array port**: whenever the element callback answers a query with the
    element unchanged (the four theorems above), the array callback returns the array
    unchanged with that reply. -/
theorem query_replies_and_preserves_array {α : Type} (elem : α → List Arg → Except Err (α × List Event))
    (pattern path : Bytes) (xs : List α) (i : Nat) (x : α) (ev : List Event)
    (hidx : arrayIndex pattern path = .ok i) (hx : xs[i]? = some x)
    (hq : elem x [] = .ok (x, ev)) :
    arrCb elem pattern path xs [] = .ok (xs, ev) := by
  have hlt : i < xs.length := by
    cases hlt : decide (i < xs.length) with
    | true => exact of_decide_eq_true hlt
    | false =>
      have := of_decide_eq_false hlt
      rw [List.getElem?_eq_none (by omega)] at hx; cases hx
  have hget : xs[i] = x := by
    rw [List.getElem?_eq_getElem hlt] at hx; exact Option.some.inj hx
  simp only [arrCb, hidx, bind, Except.bind, hx, hq, pure, Except.pure]
  rw [← hget, List.set_getElem_self]

/-! ## a change is broadcast with the new value -/

/-- every set message on an integer port ends with a broadcast of the stored value at the
    port's address (so in particular every change is broadcast) -/
theorem change_is_broadcast_int (varTy storeTy : IntTy) (tag : Int → Arg) (pm : Meta.Ptr) (loc : Bytes)
    (old raw new : Int) (a : Arg) (args : List Arg) (lo hi : Option Int) (ev : List Event)
    (harg : argI a = .ok raw) (hsub : varTy.Sub storeTy)
    (hmn : bound atoi pm kMin = .ok lo) (hmx : bound atoi pm kMax = .ok hi)
    (hres : intCb varTy storeTy tag pm loc old (a :: args) = .ok (new, ev)) :
    ev.getLast? = some (broadcast loc [tag new]) := by
  obtain ⟨_, hev⟩ := intCb_set_result varTy storeTy tag pm loc old raw new a args lo hi ev harg hsub hmn hmx hres
  rw [hev]; simp

theorem change_is_broadcast_float (pm : Meta.Ptr) (loc : Bytes) (old raw new : UInt32) (a : Arg)
    (args : List Arg) (lo hi : Option UInt32) (ev : List Event)
    (harg : argF a = .ok raw)
    (hmn : bound atofF32 pm kMin = .ok lo) (hmx : bound atofF32 pm kMax = .ok hi)
    (hres : fltCb pm loc old (a :: args) = .ok (new, ev)) :
    ev.getLast? = some (broadcast loc [fArg new]) := by
  obtain ⟨_, hev⟩ := fltCb_set_result pm loc old raw new a args lo hi ev harg hmn hmx hres
  rw [hev]; simp

/-- option ports broadcast the stored index with the type tag of the request (`i` or `c`) -/
theorem change_is_broadcast_option (storeTy : IntTy) (pm : Meta.Ptr) (loc : Bytes)
    (old raw new : Int) (a : Arg) (rest : List Arg) (lo hi : Option Int) (ev : List Event)
    (harg : a = .i raw ∨ a = .c raw) (hraw : storeTy.InRange raw)
    (hmn : bound atoi pm kMin = .ok lo) (hmx : bound atoi pm kMax = .ok hi)
    (hlo : ∀ l, lo = some l → storeTy.InRange l) (hhi : ∀ h, hi = some h → storeTy.InRange h)
    (hres : optCb storeTy pm loc old (a :: rest) = .ok (new, ev)) :
    ev.getLast? = some (broadcast loc [if a = .c raw then .c new else .i new]) := by
  obtain ⟨_, hev⟩ := optCb_int_result storeTy pm loc old raw new a rest lo hi ev harg hraw hmn hmx hlo hhi hres
  rw [hev]; simp

theorem change_is_broadcast_toggle (loc : Bytes) (old v : Bool) (a : Arg) (rest : List Arg)
    (harg : argT a = .ok v) (hch : old ≠ v) :
    rToggleCb loc old (a :: rest) = .ok (v, [broadcast loc [tfArg v]]) ∧
    rArrayTElem loc old (a :: rest) = .ok (v, [broadcast loc [tfArg v]]) ∧
    rArrayTMemberElem loc old (a :: rest) = .ok (v, [broadcast loc [tfArg v]]) := by
  have := stored_toggle loc old v a rest harg
  simpa [hch] using this

/-! ## strings are truncated to the declared length -/

/-- **string_truncated** (and change_is_broadcast for strings): after a set message the
    buffer still has its declared length, holds the first `length-1` bytes of the incoming
    string as a C string, and exactly that string is broadcast at the port's address. -/
theorem string_truncated (len : Nat) (loc old x : Bytes) (a : Arg) (args : List Arg)
    (harg : argS a = .ok x) (hx : ∀ c ∈ x, c ≠ 0) (hold : old.length = len) (hlen : 0 < len) :
    ∃ buf, rStringCb len loc old (a :: args) = .ok (buf, [broadcast loc [.s (x.take (len - 1))]]) ∧
      buf.length = len ∧ cstr buf = some (x.take (len - 1)) :=
  rStringCb_set len loc old x a args harg hx hold hlen

theorem change_is_broadcast_string (len : Nat) (loc old x : Bytes) (a : Arg) (args : List Arg)
    (harg : argS a = .ok x) (hx : ∀ c ∈ x, c ≠ 0) (hold : old.length = len) (hlen : 0 < len) :
    ∃ buf, rStringCb len loc old (a :: args) = .ok (buf, [broadcast loc [.s (x.take (len - 1))]]) := by
  obtain ⟨buf, h, _⟩ := string_truncated len loc old x a args harg hx hold hlen
  exact ⟨buf, h⟩

/-! ## exactly one undo event, with the true old and new value, iff the stored value changed -/

/-- **undo_event_iff_changed** (rParam, rParamI, rArrayI) -/
theorem undo_event_iff_changed_int (varTy storeTy : IntTy) (tag : Int → Arg) (pm : Meta.Ptr) (loc : Bytes)
    (old raw new : Int) (a : Arg) (args : List Arg) (lo hi : Option Int) (ev : List Event)
    (harg : argI a = .ok raw) (hsub : varTy.Sub storeTy)
    (hold : varTy.InRange old) (hloc : loc ≠ undoAddr)
    (hmn : bound atoi pm kMin = .ok lo) (hmx : bound atoi pm kMax = .ok hi)
    (hres : intCb varTy storeTy tag pm loc old (a :: args) = .ok (new, ev)) :
    undoEvents ev = if new ≠ old then [reply undoAddr [.s loc, tag old, tag new]] else [] := by
  obtain ⟨hnew, hev⟩ := intCb_set_result varTy storeTy tag pm loc old raw new a args lo hi ev harg hsub hmn hmx hres
  rw [hev, IntTy.wrap_of_inRange _ _ hold]
  exact undoEvents_set intOps old new loc _ _ _ hloc (by simp [intOps]; omega)

/-- **undo_event_iff_changed** (rParamF, rArrayF), non-NaN values; "changed" is IEEE
    inequality, i.e. inequality of the order keys (`+0 = -0`).  The event carries the bit
    patterns of the true previous and of the new stored value. -/
theorem undo_event_iff_changed_float (pm : Meta.Ptr) (loc : Bytes) (old raw new : UInt32) (a : Arg)
    (args : List Arg) (lo hi : Option UInt32) (ev : List Event)
    (harg : argF a = .ok raw) (hloc : loc ≠ undoAddr)
    (hold : isNaN old = false) (hraw : isNaN raw = false)
    (hmn : bound atofF32 pm kMin = .ok lo) (hmx : bound atofF32 pm kMax = .ok hi)
    (hlo : ∀ l, lo = some l → isNaN l = false) (hhi : ∀ h, hi = some h → isNaN h = false)
    (hres : fltCb pm loc old (a :: args) = .ok (new, ev)) :
    undoEvents ev = if fKey new ≠ fKey old then [reply undoAddr [.s loc, .f old, .f new]] else [] := by
  obtain ⟨hnew, hev⟩ := fltCb_set_result pm loc old raw new a args lo hi ev harg hmn hmx hres
  have hnn : isNaN new = false := by
    rcases limit_cases fltOps lo hi raw with h | h | h
    · rw [hnew, h]; exact hraw
    · rw [hnew]; exact hlo _ h
    · rw [hnew]; exact hhi _ h
  rw [hev, fArg_of_not_nan old hold, fArg_of_not_nan new hnn]
  exact undoEvents_set fltOps old new loc _ _ _ hloc (by
    show fNe old new = true ↔ _
    rw [fNe_iff, hold, hnn]; simp; omega)

/-- **undo_event_iff_changed** (rOption, rArrayOption, integer argument) -/
theorem undo_event_iff_changed_option (storeTy : IntTy) (pm : Meta.Ptr) (loc : Bytes)
    (old raw new : Int) (a : Arg) (rest : List Arg) (lo hi : Option Int) (ev : List Event)
    (harg : a = .i raw ∨ a = .c raw) (hraw : storeTy.InRange raw)
    (hold : IntTy.i32.InRange old) (hloc : loc ≠ undoAddr)
    (hmn : bound atoi pm kMin = .ok lo) (hmx : bound atoi pm kMax = .ok hi)
    (hlo : ∀ l, lo = some l → storeTy.InRange l) (hhi : ∀ h, hi = some h → storeTy.InRange h)
    (hres : optCb storeTy pm loc old (a :: rest) = .ok (new, ev)) :
    undoEvents ev = if new ≠ old then [reply undoAddr [.s loc, .i old, .i new]] else [] := by
  obtain ⟨hnew, hev⟩ := optCb_int_result storeTy pm loc old raw new a rest lo hi ev harg hraw hmn hmx hlo hhi hres
  rw [hev, IntTy.wrap_of_inRange _ _ hold]
  exact undoEvents_set intOps old new loc _ _ _ hloc (by simp [intOps]; omega)

/-! ## option symbols are translated to their index -/

/-- **option_symbol_translated**: a symbol (`S` or `s`) that the metadata declares as
    `map k = sym` stores `k`, emits the undo event iff `k` differs from the old value and
    broadcasts `k` — whatever further arguments follow the symbol (before
    fixes/C14-consumed-argument-tag.patch `/x ,Si "blue" 1` read the string pointer as an
    integer and crashed in the broadcast). -/
theorem option_symbol_translated (storeTy : IntTy) (pm : Meta.Ptr) (loc sym : Bytes) (old k : Int)
    (ps : List Meta.Pair) (hps : Meta.pairs pm = some ps) (hdecl : Declares ps sym k)
    (hk : storeTy.InRange k) (hold : IntTy.i32.InRange old) (hloc : loc ≠ undoAddr) :
    (∀ a rest, a = .S sym ∨ a = .s sym →
      ∃ ev, optCb storeTy pm loc old (a :: rest) = .ok (k, ev) ∧
        undoEvents ev = (if k ≠ old then [reply undoAddr [.s loc, .i old, .i k]] else []) ∧
        ev.getLast? = some (broadcast loc [.i k])) := by
  intro a rest ha
  have hkey : enumKey pm sym = .ok k := by
    simp only [enumKey, hps]; exact enumKeyLoop_declares ps sym k hdecl
  have hk32 : IntTy.i32.InRange k := (IntTy.sub_i32 storeTy).inRange hk
  have hcb : optCb storeTy pm loc old (a :: rest) =
      .ok (k, undoEvent intOps old k loc (.i old) (.i k) ++ [broadcast loc [.i k]]) := by
    rcases ha with rfl | rfl <;>
      simp only [optCb, hkey, bind, Except.bind, pure, Except.pure, optApply,
        IntTy.wrap_of_inRange _ _ hk, IntTy.wrap_of_inRange _ _ hold, IntTy.wrap_of_inRange _ _ hk32]
  refine ⟨_, hcb, ?_, by simp⟩
  exact undoEvents_set intOps old k loc _ _ _ hloc (by simp [intOps]; omega)

/-! ## an array port touches only the element its address names -/

/-- **array_index_of_address**: for a macro-generated array port `name#N…` the index the
    callback uses is the number written behind the name in the address, whatever
    characters (digits included) the name contains. -/
theorem array_index_of_address (name rest ds : Bytes) (hname : ∀ c ∈ name, c ≠ 35)
    (hds : AllDigits ds) (hv : digitsVal ds ≤ 2147483647) :
    arrayIndex (name ++ 35 :: rest) (name ++ ds) = .ok (digitsVal ds) := by
  simp only [arrayIndex, walkPrefix_name name rest ds hname, atoi_digits ds hds hv]
  have : ¬ ((digitsVal ds : Int) < 0) := by omega
  simp [this]

/-- **array_touches_only_index**: whatever the element callback does, an array callback
    leaves the length and every other element unchanged. -/
theorem array_touches_only_index {α : Type} (elem : α → List Arg → Except Err (α × List Event))
    (pattern path : Bytes) (xs ys : List α) (args : List Arg) (ev : List Event) (i : Nat)
    (hidx : arrayIndex pattern path = .ok i)
    (hres : arrCb elem pattern path xs args = .ok (ys, ev)) :
    ys.length = xs.length ∧ ∀ j, j ≠ i → ys[j]? = xs[j]? := by
  simp only [arrCb, hidx, bind, Except.bind] at hres
  split at hres
  · cases hres
  · rename_i x hx
    split at hres
    · cases hres
    · rename_i r hr
      obtain ⟨x', ev'⟩ := r
      simp only [pure, Except.pure, Except.ok.injEq, Prod.mk.injEq] at hres
      obtain ⟨rfl, _⟩ := hres
      refine ⟨by simp, fun j hj => ?_⟩
      rw [List.getElem?_set_ne (Ne.symm hj)]

/-- **array_applies_element_callback**: the addressed element is updated by exactly the
    scalar callback (with the same location, metadata and arguments), so every scalar
    theorem above holds for the addressed element of the corresponding array port. -/
theorem array_applies_element_callback {α : Type} (elem : α → List Arg → Except Err (α × List Event))
    (pattern path : Bytes) (xs : List α) (args : List Arg) (i : Nat) (x : α)
    (hidx : arrayIndex pattern path = .ok i) (hx : xs[i]? = some x) :
    arrCb elem pattern path xs args = (elem x args).map (fun r => (xs.set i r.1, r.2)) := by
  simp only [arrCb, hidx, bind, Except.bind, hx]
  cases elem x args with
  | error e => rfl
  | ok r => obtain ⟨x', ev⟩ := r; rfl

/-! ## "at the port's full address": delivery of a message to a port

  Three layers.
  * One port, scalar (`name::tags`) or array (`name#N::tags`), over the restricted model of
    `rtosc_match` in Param/Port.lean (what the `param` engine runs): `dispatch_scalar_at_address`,
    `dispatch_array_at_address`, `dispatch_array_only`, `array_callback_runs_element`.  The
    address of the object the port belongs to is a parameter `pfx` there.
  * The walk of `Ports::dispatch` through `rRecur` sub-trees of any depth that builds that
    address — the model of C04 (Ports/Dispatch.lean: linear and hashed lookup, `SNIP`, the
    location buffer): `delivery_through_recur`.  It shows that `pfx` is the address in front
    of the port's own part of the path, that `loc` is the full address, and that C04's
    matcher (C05) and the restricted one agree on macro names.
  * That C04's model is what the library does is C04's correspondence, not C14's. -/

/-- the type specifications the scalar port macros write behind the name, each with the
    type strings of the messages the property speaks about (query, one value) -/
def macroSpecs : List (Bytes × List Bytes) :=
  [([58, 58, 99], [[], [99]]),                                  -- "::c"      rParam
   ([58, 58, 102], [[], [102]]),                                -- "::f"      rParamF
   ([58, 58, 105], [[], [105]]),                                -- "::i"      rParamI
   ([58, 58, 105, 58, 99, 58, 83], [[], [105], [99], [83]]),    -- "::i:c:S"  rOption
   ([58, 58, 84, 58, 70], [[], [84], [70]]),                    -- "::T:F"    rToggle
   ([58, 58, 115], [[], [115]])]                                -- "::s"      rString

theorem macro_specs_accept :
    ∀ st ∈ macroSpecs, ∀ t ∈ st.2, matchArgs (st.1.length + 2) st.1 t = true := by decide

/-- **delivery, scalar ports**: a message is handed to the callback of a scalar macro port
    exactly when its path below the object is the port's name (and its type string is
    accepted); the callback then runs with `loc` = the object's address followed by the name. -/
theorem dispatch_scalar_at_address (p : Port) (name spec pfx path : Bytes) (fld : Field) (args : List Arg)
    (hp : p.pattern = name ++ 58 :: spec) (hn : PlainName name) :
    (path ≠ name → dispatch p pfx path fld args = .ok none) ∧
    (path = name → matchArgs ((58 :: spec).length + 2) (58 :: spec) (args.map Arg.tag) = true →
      dispatch p pfx path fld args =
        match callback p (pfx ++ name) name fld args with
        | .error e => .error e
        | .ok r => .ok (some r)) := by
  constructor
  · intro h
    simp [dispatch, hp, portMatches_scalar name spec path _ hn, h]
  · intro h hm
    subst h
    simp only [List.length_cons] at hm
    simp only [dispatch, hp, portMatches_scalar path spec path _ hn, List.length_cons, hm, decide_true, Bool.and_self]
    cases callback p (pfx ++ path) path fld args <;> rfl

-- the scalar macro specifications accept a query and a message with one declared value
example : PlainName [112, 102, 48] := by
  intro c hc
  simp only [List.mem_cons, List.not_mem_nil, or_false] at hc
  rcases hc with rfl | rfl | rfl <;> decide

/-! ### array ports -/

/-- **delivery, array ports** (rArrayF / rArrayI / rArrayT / rArrayOption: `name#N::tags`): a
    message at the address `name<k>` (any spelling of `k` in decimal digits, leading zeros
    included) is handed to the callback iff `k < N` (and its type string is accepted), with
    `loc` = the object's address followed by `name<k>`; an index `k ≥ N` matches nothing. -/
theorem dispatch_array_at_address (p : Port) (name nd spec pfx ds : Bytes) (fld : Field) (args : List Arg)
    (hp : p.pattern = arrPattern name nd spec) (hn : PlainName name)
    (hnd : AllDigits nd) (hnne : nd ≠ []) (hnv : digitsVal nd ≤ 2147483647)
    (hds : AllDigits ds) (hdne : ds ≠ []) (hdv : digitsVal ds ≤ 2147483647) :
    (digitsVal nd ≤ digitsVal ds → dispatch p pfx (name ++ ds) fld args = .ok none) ∧
    (digitsVal ds < digitsVal nd →
      matchArgs ((58 :: spec).length + 2) (58 :: spec) (args.map Arg.tag) = true →
      dispatch p pfx (name ++ ds) fld args =
        match callback p (pfx ++ (name ++ ds)) (name ++ ds) fld args with
        | .error e => .error e
        | .ok r => .ok (some r)) := by
  have hm := portMatches_array name nd spec ds (args.map Arg.tag) hn hnd hnne hnv hds hdne hdv
  constructor
  · intro h
    have : ¬ (digitsVal ds < digitsVal nd) := by omega
    simp [dispatch, hp, hm, this]
  · intro h ha
    simp only [dispatch, hp, hm, h, decide_true, ha, Bool.and_self]
    cases callback p (pfx ++ (name ++ ds)) (name ++ ds) fld args <;> rfl

/-- **only such addresses**: whatever the path below the object is, if the callback of an
    array port runs then the path is the port's name followed by a non-empty run of digits
    whose value is below the declared length. -/
theorem dispatch_array_only (p : Port) (name nd spec pfx path : Bytes) (fld : Field) (args : List Arg)
    (r : Field × List Event)
    (hp : p.pattern = arrPattern name nd spec) (hn : PlainName name)
    (hnd : AllDigits nd) (hnne : nd ≠ []) (hnv : digitsVal nd ≤ 2147483647)
    (h : dispatch p pfx path fld args = .ok (some r)) :
    ∃ ds, path = name ++ ds ∧ ds ≠ [] ∧ AllDigits ds ∧ digitsVal ds < digitsVal nd := by
  simp only [dispatch, hp] at h
  split at h
  · cases h
  · cases h
  · rename_i hm
    exact portMatches_array_only name nd spec path _ hn hnd hnne hnv hm

/-- **the callback of an array port runs the element callback on element `k`** of the address
    `name<k>` — all five array macros; with `dispatch_array_at_address` (which gives `k < N`, and
    `N` is the length of the field) and the scalar theorems above this is "a set message at
    `name<k>` reaches element `k`": the new array is the old one with element `k` replaced by what
    the element callback stores, the messages are the element callback's. -/
theorem array_callback_runs_element (p : Port) (name nd spec loc ds : Bytes) (pm : Meta.Ptr) (args : List Arg)
    (hp : p.pattern = arrPattern name nd spec) (hn : PlainName name)
    (hpm : Meta.container p.block = some pm)
    (hds : AllDigits ds) (hdv : digitsVal ds ≤ 2147483647) :
    (p.kind = .arrayF → ∀ xs x, xs[digitsVal ds]? = some x →
      callback p loc (name ++ ds) (.flts xs) args =
        (rArrayFElem pm loc x args).map (fun r => (.flts (xs.set (digitsVal ds) r.1), r.2))) ∧
    (p.kind = .arrayI → ∀ xs x, xs[digitsVal ds]? = some x →
      callback p loc (name ++ ds) (.ints xs) args =
        (rArrayIElem p.ty pm loc x args).map (fun r => (.ints (xs.set (digitsVal ds) r.1), r.2))) ∧
    (p.kind = .arrayOption → ∀ xs x, xs[digitsVal ds]? = some x →
      callback p loc (name ++ ds) (.ints xs) args =
        (rArrayOptionElem p.ty pm loc x args).map (fun r => (.ints (xs.set (digitsVal ds) r.1), r.2))) ∧
    (p.kind = .arrayT → ∀ xs x, xs[digitsVal ds]? = some x →
      callback p loc (name ++ ds) (.bools xs) args =
        (rArrayTElem loc x args).map (fun r => (.bools (xs.set (digitsVal ds) r.1), r.2))) ∧
    (p.kind = .arrayTMember → ∀ xs x, xs[digitsVal ds]? = some x →
      callback p loc (name ++ ds) (.bools xs) args =
        (rArrayTMemberElem loc x args).map (fun r => (.bools (xs.set (digitsVal ds) r.1), r.2))) := by
  have hname : ∀ c ∈ name, c ≠ 35 := fun c hc => (hn c hc).2.2.2.2
  have hidx : arrayIndex p.pattern (name ++ ds) = .ok (digitsVal ds) := by
    rw [hp, arrPattern]; exact array_index_of_address name _ ds hname hds hdv
  refine ⟨?_, ?_, ?_, ?_, ?_⟩ <;> intro hk xs x hx
  · simp only [callback, hpm, hk, rArrayFCb, array_applies_element_callback _ _ _ xs args _ x hidx hx]
    cases rArrayFElem pm loc x args <;> rfl
  · simp only [callback, hpm, hk, rArrayICb, array_applies_element_callback _ _ _ xs args _ x hidx hx]
    cases rArrayIElem p.ty pm loc x args <;> rfl
  · simp only [callback, hpm, hk, rArrayOptionCb, array_applies_element_callback _ _ _ xs args _ x hidx hx]
    cases rArrayOptionElem p.ty pm loc x args <;> rfl
  · simp only [callback, hpm, hk, rArrayTCb, array_applies_element_callback _ _ _ xs args _ x hidx hx]
    cases rArrayTElem loc x args <;> rfl
  · simp only [callback, hpm, hk, rArrayTCbMember, array_applies_element_callback _ _ _ xs args _ x hidx hx]
    cases rArrayTMemberElem loc x args <;> rfl


/-! ### the address walk -/

/-- the names the parameter macros generate, as structured names of C05/C04 -/
inductive MacroName : Match.Pat → Prop
  | scalar (name : Bytes) (ts : List Bytes) : PlainName name → MacroName (scalarPat name ts)
  | array (name nd : Bytes) (ts : List Bytes) : PlainName name → MacroName (arrayPat name nd ts)

theorem MacroName.nosub {p : Match.Pat} (h : MacroName p) : p.sub = false := by
  cases h <;> rfl

/-- on a macro name of a well-formed tree, what C05's matcher accepts the restricted matcher accepts -/
theorem MacroName.bridge {p : Match.Pat} (h : MacroName p) (hwf : Ports.nameWf p = true) {path tags t' : Bytes}
    (hm : Ports.matchB p path tags = some t') : portMatches p.render path tags = .ok true := by
  cases h with
  | scalar name ts hn =>
    obtain ⟨h1, h2⟩ := scalarPat_facts hwf
    rw [(matchB_scalar name ts path tags hn h1 h2).1, hm]; rfl
  | array name nd ts hn =>
    obtain ⟨⟨h1, h2⟩, h3, h4, h5⟩ := arrayPat_facts hwf
    exact (matchB_array name nd ts path tags t' hn h3 h4 h5 h1 h2 hm).1

/-- **delivery through the rRecur address walk** (clause "at the port's full address"): a
    macro-generated port `q` (scalar or array form) anywhere in a well-formed port tree — below
    sub-trees of any depth, in tables that are searched linearly or by hash (any lookup
    tables satisfying C04's `MkOK`, in particular the real ones) —, any message in C04's scope,
    dispatched with a location buffer.  Then
    * the callback of `q` is invoked iff the address matches at every level and the type string
      is accepted (`AnswersRoot`, the specification of C04), and no callback is invoked twice;
    * when it is invoked it is handed: `msg` = `path`, the part of the address its own name
      matches; `loc` = the *full address* `pfx ++ path` of the message (after a base dispatch:
      `"/"` followed by the address without its leading slash); the object handed down by its
      parents and its own port pointer;
    * the restricted matcher of Param/Port.lean accepts `path`, and the one-port model
      `dispatch port pfx path` that the correspondence run executes is exactly the port's
      callback run with that `loc` and `msg`: every callback theorem of this file, instantiated
      with `loc` = the full address, describes what happens. -/
theorem delivery_through_recur {mk : List Bytes → Option Ports.Hash.Matcher} (hmk : Ports.MkOK mk)
    {P : Ports.PPorts} {addr tags rest : Bytes} (h : Ports.InScope P addr tags rest) (k : Nat) (base : Bool)
    (d : Ports.RtData) (L0 : Bytes) (hd : d.loc = some L0) (hsz : d.locSize ≠ 0) (hobj : d.obj = [])
    (q : List Nat) (pat : Match.Pat) (hq : P.tab.find 0 q = some (pat, true)) (hmac : MacroName pat)
    (port : Port) (hport : port.pattern = pat.render) :
    ∃ log d', Ports.dispatch mk P.render (Ports.msgBuf addr tags k rest) d base = some (log, d') ∧
      ((∃ c ∈ log, c.who = .port q) ↔ Ports.AnswersRoot P (Ports.rootAddr base addr) tags (.port q)) ∧
      (log.map (·.who)).Nodup ∧
      ∀ c ∈ log, c.who = .port q →
        ∃ pfx path, Ports.rootLoc base L0 ++ Ports.rootAddr base addr = pfx ++ path ∧
          c.loc = some (pfx ++ path) ∧ c.m = path ++ 0 :: Ports.msgTail k tags rest ∧
          c.obj = q.dropLast ∧ c.dport = some q ∧
          portMatches port.pattern path tags = .ok true ∧
          ∀ fld args, args.map Arg.tag = tags →
            dispatch port pfx path fld args =
              match callback port (Ports.rootLoc base L0 ++ Ports.rootAddr base addr) path fld args with
              | .error e => .error e
              | .ok r => .ok (some r) := by
  obtain ⟨log, d', hdisp, hhand⟩ := Ports.dispatch_handed hmk h k base d L0 hd hsz
  obtain ⟨log1, d1, hdisp1, hiff⟩ := Ports.dispatch_loc_iff hmk h k base d L0 hd hsz
  obtain ⟨log2, d2, hdisp2, hptr⟩ := Ports.port_pointer_own hmk h k base d L0 hd hsz hobj
  have hr : Ports.TwoRuns d { d with loc := none } L0 := ⟨hd, hsz, rfl, rfl, rfl⟩
  obtain ⟨log3, d3, _, _, hdisp3, _, hnd, _⟩ := Ports.dispatch_unique hmk h k base hr
  rw [hdisp] at hdisp1 hdisp2 hdisp3
  cases hdisp1; cases hdisp2; cases hdisp3
  refine ⟨log, d', hdisp, ?_, hnd, ?_⟩
  · rw [← hiff]
    simp only [List.mem_map]
  · intro c hc hw
    obtain ⟨p, pfx, path, t', hfind, hfull, hm, hloc, hmsg⟩ := hhand c hc q hw
    rw [hq] at hfind
    simp only [Option.some.injEq, Prod.mk.injEq] at hfind
    obtain ⟨rfl, _⟩ := hfind
    obtain ⟨rfl, hcons⟩ := Ports.matchB_nosub hmac.nosub hm
    rw [hcons] at hloc
    have hwf := Ports.PTable.find_wf P.tab h.wf 0 q pat true hq
    have hpm : portMatches port.pattern path tags = .ok true := by rw [hport]; exact hmac.bridge hwf hm
    obtain ⟨hp1, hp2⟩ := (hptr c hc).1 q hw
    refine ⟨pfx, path, hfull, hloc, hmsg, hp2, hp1, hpm, ?_⟩
    intro fld args hargs
    simp only [dispatch, hargs, hpm, hfull]
    cases callback port (pfx ++ path) path fld args <;> rfl


/-- after a base dispatch of a message whose address begins with '/', the "full address" of
    `delivery_through_recur` is literally the address of the message -/
theorem full_address_base (L0 r : Bytes) :
    Ports.rootLoc true L0 ++ Ports.rootAddr true (47 :: r) = 47 :: r := by
  simp [Ports.rootLoc, Ports.rootAddr, Ports.stripSlash]

/-! ## the comparison structures satisfy the order hypotheses -/

-- `intOps_ordered : Ordered intOps (fun _ => True)` and
-- `fltOps_ordered : Ordered fltOps (fun b => isNaN b = false)` are proved in
-- Proofs/ParamLemmas.lean; they are listed as obligations of this property.

/-! ## finding C14-K1: non-integral bounds of integer ports are truncated toward zero

  `rLIMIT(var, atoi)` converts the metadata literal with `atoi`.  For a positive
  non-integral minimum (`rLinear(2.5, …)` → 2) or a negative non-integral maximum
  (`rLinear(…, -2.5)` → -2) the bound used lies *outside* the declared range, so one
  integer outside the range is stored unclamped.  The statement "the bound used respects
  the declared literal" is therefore false in general; it holds exactly when the trigger
  `boundTruncatedOutward` is false.  (All theorems above are about the bound the callback
  uses, `bound conv pm key`, and are unaffected.) -/

/-- full statement (false, see the counterexample) -/
def declared_int_bound_respected_statement : Prop :=
  ∀ (isMin : Bool) (l : DecLit), l.WF → ∀ m, atoi l.bytes = some m → BoundRespects isMin l m

/-- a declared minimum `2.5` is used as `2` -/
theorem declared_int_bound_respected_counterexample : ¬ declared_int_bound_respected_statement := by
  intro h
  have hwf : (⟨false, [50], [53]⟩ : DecLit).WF :=
    ⟨by decide, by intro c hc; simp at hc; subst hc; decide,
      by intro c hc; simp at hc; subst hc; decide, by decide⟩
  have := h true ⟨false, [50], [53]⟩ hwf 2 (by decide)
  simp [BoundRespects, DecLit.num, digitsVal] at this

/-- **declared_int_bound_respected_partial**: outside the trigger of C14-K1 the bound the
    callback uses never lies outside the declared range (integral literals are exact, the
    other non-integral literals are truncated inward). -/
theorem declared_int_bound_respected_partial (isMin : Bool) (l : DecLit) (hwf : l.WF)
    (htrig : boundTruncatedOutward isMin l = false) (m : Int) (hm : atoi l.bytes = some m) :
    BoundRespects isMin l m := by
  rw [atoi_decLit l hwf] at hm
  simp only [Option.some.injEq] at hm
  subst hm
  unfold BoundRespects DecLit.num
  simp only [Int.natCast_add, Int.natCast_mul]
  cases isMin <;> cases hneg : l.neg <;>
    simp only [boundTruncatedOutward, hneg, Bool.and_eq_false_iff, decide_eq_false_iff_not,
      Decidable.not_not, Bool.not_false, Bool.not_true, Bool.false_eq_true, Bool.true_eq_false,
      ↓reduceIte, or_false, or_true, Int.neg_mul] at htrig ⊢ <;>
    (generalize ((digitsVal l.ip : Nat) : Int) * ((10 ^ l.fp.length : Nat) : Int) = P; omega)

/-! ## non-vacuity: concrete ports meeting the hypotheses -/

/-- metadata of `rParamF(x, rLinear(-1.5, 2.25), "d")` -/
def exBlockF : Bytes :=
  [58, 112, 97, 114, 97, 109, 101, 116, 101, 114, 0, 58, 109, 105, 110, 0, 61, 45, 49, 46, 53, 0, 58, 109, 97, 120, 0, 61, 50, 46, 50, 53, 0, 58, 115, 99, 97, 108, 101, 0, 61, 108, 105, 110, 101, 97, 114, 0, 58, 100, 111, 99, 117, 109, 101, 110, 116, 97, 116, 105, 111, 110, 0, 61, 100, 0, 0]
/-- metadata of `rOption(x, rOptions(red, blue), rLinear(0, 1), "d")` -/
def exBlockO : Bytes :=
  [58, 112, 97, 114, 97, 109, 101, 116, 101, 114, 0, 58, 101, 110, 117, 109, 101, 114, 97, 116, 101, 100, 0, 58, 109, 97, 112, 32, 48, 0, 61, 114, 101, 100, 0, 58, 109, 97, 112, 32, 49, 0, 61, 98, 108, 117, 101, 0, 58, 109, 105, 110, 0, 61, 48, 0, 58, 109, 97, 120, 0, 61, 49, 0, 58, 100, 111, 99, 117, 109, 101, 110, 116, 97, 116, 105, 111, 110, 0, 61, 100, 0, 0]
/-- "/x" -/
def exLoc : Bytes := [47, 120]
def exPm (b : Bytes) : Meta.Ptr := (Meta.container b).getD none
/-- "blue" -/
def exBlue : Bytes := [98, 108, 117, 101]

-- the declared bounds are found and converted: -1.5 = 0xbfc00000, 2.25 = 0x40100000
example : (bound atofF32 (exPm exBlockF) kMin).toOption = some (some 0xbfc00000) := by decide
example : (bound atofF32 (exPm exBlockF) kMax).toOption = some (some 0x40100000) := by decide
example : fLt 0x40100000 0xbfc00000 = false := by decide
example : isNaN 0x3fa00000 = false ∧ isNaN 0x40e00000 = false ∧ exLoc ≠ undoAddr := by decide
-- 1.25 → 7.0 (clamped to 2.25): one undo event with the true old and new value, then the broadcast
example : (fltCb (exPm exBlockF) exLoc 0x3fa00000 [.f 0x40e00000]).toOption =
    some (0x40100000, [reply undoAddr [.s exLoc, .f 0x3fa00000, .f 0x40100000],
                       broadcast exLoc [.f 0x40100000]]) := by decide
-- -0.0 over +0.0: the bits change, the value does not: no undo event
example : (fltCb (exPm exBlockF) exLoc 0 [.f 0x80000000]).toOption =
    some (0x80000000, [broadcast exLoc [.f 0x80000000]]) := by decide
-- char-backed integer port with bounds 0..1: 100 is clamped to 1
example : (bound atoi (exPm exBlockO) kMin).toOption = some (some 0) := by decide
example : IntTy.i8.InRange 100 ∧ IntTy.i8.InRange 5 ∧ IntTy.i8.Sub .i8 := ⟨by decide, by decide, IntTy.sub_refl _⟩
example : (rParamCb .i8 (exPm exBlockO) exLoc 5 [.c 100]).toOption =
    some (1, [reply undoAddr [.s exLoc, .c 5, .c 1], broadcast exLoc [.c 1]]) := by decide +kernel
-- option: the block declares blue ↦ 1
def exPairsO : List Meta.Pair :=
  [([112, 97, 114, 97, 109, 101, 116, 101, 114], none), ([101, 110, 117, 109, 101, 114, 97, 116, 101, 100], none), ([109, 97, 112, 32, 48], some [114, 101, 100]), ([109, 97, 112, 32, 49], some [98, 108, 117, 101]), ([109, 105, 110], some [48]), ([109, 97, 120], some [49]), ([100, 111, 99, 117, 109, 101, 110, 116, 97, 116, 105, 111, 110], some [100])]
example : Meta.pairs (exPm exBlockO) = some exPairsO := by decide
example : Declares exPairsO exBlue 1 := by
  refine ⟨⟨[([112, 97, 114, 97, 109, 101, 116, 101, 114], none), ([101, 110, 117, 109, 101, 114, 97, 116, 101, 100], none), ([109, 97, 112, 32, 48], some [114, 101, 100])], [49],
    [([109, 105, 110], some [48]), ([109, 97, 120], some [49]), ([100, 111, 99, 117, 109, 101, 110, 116, 97, 116, 105, 111, 110], some [100])], by decide, by decide, ?_⟩⟩
  intro p hp hm
  simp only [List.mem_cons, List.not_mem_nil, or_false] at hp
  rcases hp with rfl | rfl | rfl
  · exact absurd hm (by decide)
  · exact absurd hm (by decide)
  · exact ⟨_, rfl, by decide⟩
example : (optCb .i32 (exPm exBlockO) exLoc 0 [.S exBlue]).toOption =
    some (1, [reply undoAddr [.s exLoc, .i 0, .i 1], broadcast exLoc [.i 1]]) := by decide +kernel
-- array: a name containing a digit ("a2x#3::f", path "a2x1"), leading zeros ("017")
example : (arrayIndex [97, 50, 120, 35, 51, 58, 58, 102] [97, 50, 120, 49]).toOption = some 1 := by decide
example : (∀ c ∈ ([97, 50, 120] : Bytes), c ≠ 35) ∧ AllDigits [48, 49, 55] ∧ digitsVal [48, 49, 55] = 17 := by
  refine ⟨by decide, ?_, by decide⟩
  intro c hc
  simp only [List.mem_cons, List.not_mem_nil, or_false] at hc
  rcases hc with rfl | rfl | rfl <;> decide
-- string of capacity 4: "hello" is stored as "hel"
example : (rStringCb 4 exLoc [120, 0, 0, 0] [.s [104, 101, 108, 108, 111]]).toOption =
    some ([104, 101, 108, 0], [broadcast exLoc [.s [104, 101, 108]]]) := by decide
-- toggle
example : argT .T = .ok true := rfl

-- fixes/C14-limit-bound-narrowing.patch: `rArrayI(a, 4, rLinear(0, 200), "d")`, an `int` element
-- behind the callback's `char var`: the declared maximum 200 is not narrowed to -56, incoming 100 is stored
/-- metadata of `rArrayI(a, 4, rLinear(0, 200), "d")` -/
def exBlockA : Bytes :=
  [58, 112, 97, 114, 97, 109, 101, 116, 101, 114, 0, 58, 109, 105, 110, 0, 61, 48, 0, 58, 109, 97, 120, 0, 61, 50, 48, 48, 0, 58, 115, 99, 97, 108, 101, 0, 61, 108, 105, 110, 101, 97, 114, 0, 58, 100, 111, 99, 117, 109, 101, 110, 116, 97, 116, 105, 111, 110, 0, 61, 100, 0, 0]
example : (bound atoi (exPm exBlockA) kMax).toOption = some (some 200) ∧ IntTy.i8.min ≤ 200 ∧ IntTy.i8.InRange 100 ∧
    IntTy.i8.Sub .i32 := by
  refine ⟨by decide, by decide, by decide, IntTy.sub_i32 _⟩
example : (rArrayIElem .i32 (exPm exBlockA) exLoc 5 [.i 100]).toOption =
    some (100, [reply undoAddr [.s exLoc, .i 5, .i 100], broadcast exLoc [.i 100]]) := by decide +kernel
-- fixes/C14-consumed-argument-tag.patch: `/x ,Si "blue" 1` is the symbol `blue`, the second argument is ignored
example : (optCb .i32 (exPm exBlockO) exLoc 0 [.S exBlue, .i 1]).toOption =
    some (1, [reply undoAddr [.s exLoc, .i 0, .i 1], broadcast exLoc [.i 1]]) := by decide +kernel
example : (rToggleCb exLoc false [.T, .i 7]).toOption = some (true, [broadcast exLoc [.T]]) := by decide
-- an `rSpecial(disable)` entry (a title followed by a bare string) in front of the range does not hide it
/-- metadata of `rParamF(x, rSpecial(disable), rLinear(0, 2.5), "d")` -/
def exBlockS : Bytes :=
  [58, 112, 97, 114, 97, 109, 101, 116, 101, 114, 0, 58, 115, 112, 101, 99, 105, 97, 108, 0, 100, 105, 115, 97, 98, 108, 101, 0, 58, 109, 105, 110, 0, 61, 48, 0, 58, 109, 97, 120, 0, 61, 50, 46, 53, 0, 58, 115, 99, 97, 108, 101, 0, 61, 108, 105, 110, 101, 97, 114, 0, 58, 100, 111, 99, 117, 109, 101, 110, 116, 97, 116, 105, 111, 110, 0, 61, 100, 0, 0]
example : (bound atofF32 (exPm exBlockS) kMin).toOption = some (some 0) ∧
    (bound atofF32 (exPm exBlockS) kMax).toOption = some (some 0x40200000) := by decide
-- a signalling NaN is stored as it is and reported quiet
example : (fltCb (exPm exBlockF) exLoc 0x7f800001 []).toOption = some (0x7f800001, [reply exLoc [.f 0x7fc00001]]) := by decide

-- C14-K1 on a callback: metadata `min = 2.5`, incoming 2 is stored although 2 < 2.5
/-- metadata of `rParamI(x, rLinear(2.5, 7.9), "d")` -/
def exBlockK : Bytes :=
  [58, 112, 97, 114, 97, 109, 101, 116, 101, 114, 0, 58, 109, 105, 110, 0, 61, 50, 46, 53, 0, 58, 109, 97, 120, 0, 61, 55, 46, 57, 0, 58, 115, 99, 97, 108, 101, 0, 61, 108, 105, 110, 101, 97, 114, 0, 58, 100, 111, 99, 117, 109, 101, 110, 116, 97, 116, 105, 111, 110, 0, 61, 100, 0, 0]
example : (rParamICb .i32 (exPm exBlockK) exLoc 5 [.i 2]).toOption =
    some (2, [reply undoAddr [.s exLoc, .i 5, .i 2], broadcast exLoc [.i 2]]) := by decide +kernel
example : boundTruncatedOutward true ⟨false, [50], [53]⟩ = true ∧
    boundTruncatedOutward false ⟨false, [55], [57]⟩ = false ∧
    boundTruncatedOutward true ⟨true, [50], [53]⟩ = false := by decide

/-! ### non-vacuity of the delivery theorems -/

-- array port "af#4::f": name "af", N = "4", specification ":f"
example : arrPattern [97, 102] [52] [58, 102] = [97, 102, 35, 52, 58, 58, 102] := by decide
example : PlainName [97, 102] := by
  intro c hc
  simp only [List.mem_cons, List.not_mem_nil, or_false] at hc
  rcases hc with rfl | rfl <;> decide
-- "af3" is delivered, "af4" and "af04" are not, "af03" is element 3
example : (portMatches [97, 102, 35, 52, 58, 58, 102] [97, 102, 51] [102]).toOption = some true ∧
    (portMatches [97, 102, 35, 52, 58, 58, 102] [97, 102, 52] [102]).toOption = some false ∧
    (portMatches [97, 102, 35, 52, 58, 58, 102] [97, 102, 48, 52] [102]).toOption = some false ∧
    (portMatches [97, 102, 35, 52, 58, 58, 102] [97, 102, 48, 51] [102]).toOption = some true ∧
    (portMatches [97, 102, 35, 52, 58, 58, 102] [97, 102] [102]).toOption = some false := by decide
/-- the port `rArrayF(af, 4, rLinear(-1.5, 2.25), "d")` -/
def exPortAF : Port := { kind := .arrayF, ty := .i32, len := 4, pattern := [97, 102, 35, 52, 58, 58, 102], block := exBlockF }
-- "/sub/deep1/" ++ "af3", 7.0: element 3 (and only it) becomes 2.25, reported at the full address
example : (dispatch exPortAF [47, 115, 117, 98, 47, 100, 101, 101, 112, 49, 47] [97, 102, 51] (.flts [0, 0, 0, 0x3fa00000])
      [.f 0x40e00000]).toOption =
    some (some (.flts [0, 0, 0, 0x40100000],
      [reply undoAddr [.s [47, 115, 117, 98, 47, 100, 101, 101, 112, 49, 47, 97, 102, 51], .f 0x3fa00000, .f 0x40100000],
       broadcast [47, 115, 117, 98, 47, 100, 101, 101, 112, 49, 47, 97, 102, 51] [.f 0x40100000]])) := by decide +kernel

/-- `sub/` → { `deep#2/` → { `pf::f`, `af#4::f` } }, `v#2::i` -/
def exWalkTree : Ports.PPorts :=
  { dflt := false,
    tab :=
      .node { segs := [.lit [115, 117, 98]], sub := true, types := none }
        (.node { segs := [.lit [100, 101, 101, 112], .enum [50]], sub := true, types := none }
          (.leaf (scalarPat [112, 102] [[], [102]]) <|
           .leaf (arrayPat [97, 102] [52] [[], [102]]) .nil) false .nil) false <|
      .leaf (arrayPat [118] [50] [[], [105]]) .nil }

/-- "/sub/deep1/af3" -/
def exWalkAddr : Bytes := [47, 115, 117, 98, 47, 100, 101, 101, 112, 49, 47, 97, 102, 51]

example : exWalkTree.tab.WF := by decide
example : exWalkTree.tab.find 0 [0, 0, 1] = some (arrayPat [97, 102] [52] [[], [102]], true) := by decide
example : MacroName (arrayPat [97, 102] [52] [[], [102]]) :=
  .array _ _ _ (by
    intro c hc
    simp only [List.mem_cons, List.not_mem_nil, or_false] at hc
    rcases hc with rfl | rfl <;> decide)
example : exPortAF.pattern = (arrayPat [97, 102] [52] [[], [102]]).render := by decide
example : Ports.InScope exWalkTree exWalkAddr [102] [0, 0, 0, 0] :=
  { wf := by decide
    addr_nul := by unfold Match.NulFree exWalkAddr; decide
    addr_idx := Match.idxBounded_of_check (by decide)
    tags_nul := by unfold Match.NulFree; decide }
def exWalkData : Ports.RtData := { loc := some [], locSize := 64, locHigh := 0, obj := [], nmatches := 0, port := none }
-- the real lookup tables (every table of this tree has a `#` port and is searched linearly; hashed tables: C04's
-- examples — the theorem holds for both): three callbacks (`sub/`, `deep#2/`, `af#4::f`); the last one sees the full address in `loc`,
-- "af3" as its message, the object of its table and its own port pointer
example :
    (Ports.dispatchReal exWalkTree.render (Match.mkMsg exWalkAddr [102] [0, 0, 0, 0]) exWalkData true).map
      (fun r => r.1.map (fun c => (c.who, c.loc, c.obj))) =
    some [(.port [0], some [47, 115, 117, 98, 47], []),
          (.port [0, 0], some [47, 115, 117, 98, 47, 100, 101, 101, 112, 49, 47], [0]),
          (.port [0, 0, 1], some exWalkAddr, [0, 0])] := by decide +kernel


/-! ## every C integer type: `unsigned short`, `unsigned`, `long`, `unsigned long` fields

  `intCbW` (Param/Wide.lean) is the integer callback for a `var` / field of any C integer type;
  on the four types of `IntTy` it is `intCb` (`intCbW_eq_intCb`), so the theorems of this
  section contain the `…_int` theorems above.  New for the wide types: the comparison of
  `rLIMIT` is made in `decltype(var+0)`, and messages carry the low 32 bits of a value. -/

/-- **stored_is_clamped**, every C integer type: hypotheses as in `stored_is_clamped_int`, and
    the declared bounds are values of the promoted type of `var` (for `unsigned` / `unsigned long`
    variables: not negative — see `limitIntW_clamps_counterexample`; always true for the types
    below `int` and for `int`, `long`). -/
theorem stored_is_clamped_int_wide (varTy storeTy : CTy) (tag : Int → Arg) (pm : Meta.Ptr) (loc : Bytes)
    (old raw new : Int) (a : Arg) (args : List Arg) (lo hi : Option Int) (ev : List Event)
    (harg : argI a = .ok raw) (hraw : varTy.InRange raw) (hsub : varTy.Sub storeTy)
    (hmn : bound atoi pm kMin = .ok lo) (hmx : bound atoi pm kMax = .ok hi)
    (hlo : ∀ l, lo = some l → varTy.prom.InRange l ∧ l ≤ varTy.max)
    (hhi : ∀ h, hi = some h → varTy.prom.InRange h ∧ varTy.min ≤ h)
    (hord : ∀ l h, lo = some l → hi = some h → l ≤ h)
    (hres : intCbW varTy storeTy tag pm loc old (a :: args) = .ok (new, ev)) :
    (∀ l, lo = some l → raw < l → new = l) ∧
    (∀ h, hi = some h → h < raw → new = h) ∧
    ((∀ l, lo = some l → l ≤ raw) → (∀ h, hi = some h → raw ≤ h) → new = raw) := by
  obtain ⟨hnew, _⟩ := intCbW_set_result varTy storeTy tag pm loc old raw new a args lo hi ev harg hsub hmn hmx hres
  rw [CTy.wrap_of_inRange _ _ hraw, limitIntW_eq_limit varTy lo hi raw hraw hlo hhi hord] at hnew
  have hc := limit_clamps intOps intOps_ordered lo hi raw (by
    intro l h hl hh
    have := hord l h hl hh
    simp [intOps]; omega)
  rw [← hnew] at hc
  refine ⟨fun l hl hlt => hc.below l hl (by simp [intOps]; omega),
          fun h hh hlt => hc.above h hh (by simp [intOps]; omega),
          fun h1 h2 => hc.inside (fun l hl => by have := h1 l hl; simp [intOps]; omega)
                                 (fun h hh => by have := h2 h hh; simp [intOps]; omega)⟩

/-- whatever the declared bounds are, the stored value is a value of the type of `var`; if the
    incoming value is an OSC integer it also is one (so messages carry it unchanged) -/
theorem stored_int_in_var_type_wide (varTy storeTy : CTy) (tag : Int → Arg) (pm : Meta.Ptr) (loc : Bytes)
    (old raw new : Int) (a : Arg) (args : List Arg) (ev : List Event)
    (harg : argI a = .ok raw) (hsub : varTy.Sub storeTy)
    (hres : intCbW varTy storeTy tag pm loc old (a :: args) = .ok (new, ev)) :
    varTy.InRange new := by
  simp only [intCbW, harg, bind, Except.bind] at hres
  split at hres
  · cases hres
  · rename_i lo hmn
    split at hres
    · cases hres
    · rename_i hi hmx
      simp only [pure, Except.pure, Except.ok.injEq, Prod.mk.injEq] at hres
      have hvr := limitIntW_inRange varTy lo hi _ (CTy.wrap_inRange varTy raw)
      rw [← hres.1, CTy.wrap_of_inRange _ _ (hsub.inRange hvr)]
      exact hvr

/-- **query**, every C integer type: the reply carries the low 32 bits of the stored value — the
    value itself when it is an OSC integer — and nothing changes -/
theorem query_replies_and_preserves_int_wide (varTy storeTy : CTy) (tag : Int → Arg) (pm : Meta.Ptr)
    (loc : Bytes) (old : Int) :
    intCbW varTy storeTy tag pm loc old [] = .ok (old, [reply loc [tag (w32 old)]]) ∧
    (IntTy.i32.InRange old → intCbW varTy storeTy tag pm loc old [] = .ok (old, [reply loc [tag old]])) := by
  refine ⟨rfl, fun h => by simp [intCbW, w32_of_inRange old h]⟩

/-- **change_is_broadcast**, every C integer type -/
theorem change_is_broadcast_int_wide (varTy storeTy : CTy) (tag : Int → Arg) (pm : Meta.Ptr) (loc : Bytes)
    (old raw new : Int) (a : Arg) (args : List Arg) (lo hi : Option Int) (ev : List Event)
    (harg : argI a = .ok raw) (hsub : varTy.Sub storeTy)
    (hmn : bound atoi pm kMin = .ok lo) (hmx : bound atoi pm kMax = .ok hi)
    (hres : intCbW varTy storeTy tag pm loc old (a :: args) = .ok (new, ev)) :
    ev.getLast? = some (broadcast loc [tag (w32 new)]) ∧
    (IntTy.i32.InRange new → ev.getLast? = some (broadcast loc [tag new])) := by
  obtain ⟨_, hev⟩ := intCbW_set_result varTy storeTy tag pm loc old raw new a args lo hi ev harg hsub hmn hmx hres
  refine ⟨by rw [hev]; simp, fun h => by rw [hev, w32_of_inRange new h]; simp⟩

/-- **undo_event_iff_changed**, every C integer type: exactly one event iff the stored value
    changed; it carries the low 32 bits of the previous and of the new value — the values
    themselves when they are OSC integers. -/
theorem undo_event_iff_changed_int_wide (varTy storeTy : CTy) (tag : Int → Arg) (pm : Meta.Ptr) (loc : Bytes)
    (old raw new : Int) (a : Arg) (args : List Arg) (lo hi : Option Int) (ev : List Event)
    (harg : argI a = .ok raw) (hsub : varTy.Sub storeTy)
    (hold : varTy.InRange old) (hloc : loc ≠ undoAddr)
    (hmn : bound atoi pm kMin = .ok lo) (hmx : bound atoi pm kMax = .ok hi)
    (hres : intCbW varTy storeTy tag pm loc old (a :: args) = .ok (new, ev)) :
    undoEvents ev = (if new ≠ old then [reply undoAddr [.s loc, tag (w32 old), tag (w32 new)]] else []) ∧
    (IntTy.i32.InRange old → IntTy.i32.InRange new →
      undoEvents ev = if new ≠ old then [reply undoAddr [.s loc, tag old, tag new]] else []) := by
  obtain ⟨hnew, hev⟩ := intCbW_set_result varTy storeTy tag pm loc old raw new a args lo hi ev harg hsub hmn hmx hres
  have h1 : undoEvents ev = (if new ≠ old then [reply undoAddr [.s loc, tag (w32 old), tag (w32 new)]] else []) := by
    rw [hev, CTy.wrap_of_inRange _ _ hold]
    exact undoEvents_set intOps old new loc _ _ _ hloc (by simp [intOps]; omega)
  refine ⟨h1, fun ho hn => ?_⟩
  rw [h1, w32_of_inRange old ho, w32_of_inRange new hn]

/-! ### finding: a negative declared bound of an unsigned variable -/

/-- full statement (false, see the counterexample): `rLIMIT` clamps whenever the declared range
    meets the variable's type -/
def limitIntW_clamps_statement : Prop :=
  ∀ (ty : CTy) (lo hi : Option Int) (v : Int), ty.InRange v →
    (∀ l, lo = some l → IntTy.i32.InRange l ∧ l ≤ ty.max) → (∀ h, hi = some h → IntTy.i32.InRange h ∧ ty.min ≤ h) →
    (∀ l h, lo = some l → hi = some h → l ≤ h) →
    limitIntW ty lo hi v = limit intOps lo hi v

/-- the trigger: the declared bound is not a value of the type the comparison is made in -/
def boundOutsidePromoted (ty : CTy) (b : Int) : Bool := !decide (ty.prom.InRange b)

/-- `rParamI(u, rLinear(-1, 10))` on an `unsigned u`: incoming 5 is inside the declared range but
    `5 < (unsigned)-1`, so `var` becomes `UINT_MAX` and then the maximum: 10 is stored. -/
theorem limitIntW_clamps_counterexample : ¬ limitIntW_clamps_statement := by
  intro h
  have := h .u32 (some (-1)) (some 10) 5 (by decide)
    (by intro l hl; cases hl; decide) (by intro x hx; cases hx; decide) (by intro l x hl hx; cases hl; cases hx; decide)
  revert this
  decide

/-- **limitIntW_clamps_partial**: outside the trigger the repaired `rLIMIT` is the clamp -/
theorem limitIntW_clamps_partial (ty : CTy) (lo hi : Option Int) (v : Int) (hv : ty.InRange v)
    (hlo : ∀ l, lo = some l → boundOutsidePromoted ty l = false ∧ l ≤ ty.max)
    (hhi : ∀ h, hi = some h → boundOutsidePromoted ty h = false ∧ ty.min ≤ h)
    (hord : ∀ l h, lo = some l → hi = some h → l ≤ h) :
    limitIntW ty lo hi v = limit intOps lo hi v :=
  limitIntW_eq_limit ty lo hi v hv
    (fun l hl => ⟨by have := (hlo l hl).1; simpa [boundOutsidePromoted] using this, (hlo l hl).2⟩)
    (fun h hh => ⟨by have := (hhi h hh).1; simpa [boundOutsidePromoted] using this, (hhi h hh).2⟩) hord

/-- the trigger never fires for the types below `int`, for `int` and for `long` (bounds come from `atoi`) -/
theorem boundOutsidePromoted_signed (ty : CTy) (b : Int) (hb : IntTy.i32.InRange b)
    (hty : ty ≠ .u32 ∧ ty ≠ .u64) : boundOutsidePromoted ty b = false := by
  unfold IntTy.InRange at hb
  simp only [IntTy.min, IntTy.max] at hb
  obtain ⟨h1, h2⟩ := hty
  unfold boundOutsidePromoted
  rw [Bool.not_eq_eq_eq_not, Bool.not_false, decide_eq_true_eq]
  cases ty <;> first | exact absurd rfl h1 | exact absurd rfl h2 |
    (simp only [CTy.prom, CTy.InRange, CTy.min, CTy.max]; omega)

-- non-vacuity
/-- metadata of `rParamI(u, rLinear(-1, 10), "d")` -/
def exBlockU : Bytes :=
  [58, 112, 97, 114, 97, 109, 101, 116, 101, 114, 0, 58, 109, 105, 110, 0, 61, 45, 49, 0, 58, 109, 97, 120, 0, 61, 49, 48, 0, 58, 115, 99, 97, 108, 101, 0, 61, 108, 105, 110, 101, 97, 114, 0, 58, 100, 111, 99, 117, 109, 101, 110, 116, 97, 116, 105, 111, 110, 0, 61, 100, 0, 0]
example : (bound atoi (exPm exBlockU) kMin).toOption = some (some (-1)) ∧
    (bound atoi (exPm exBlockU) kMax).toOption = some (some 10) := by decide
-- the callback on an `unsigned` field: 5 → 10 (what the compiled macro does, probe in the report)
example : (intCbW .u32 .u32 Arg.i (exPm exBlockU) exLoc 0 [.i 5]).toOption =
    some (10, [reply undoAddr [.s exLoc, .i 0, .i 10], broadcast exLoc [.i 10]]) := by decide +kernel
-- on a `long` field the same declaration clamps: 5 → 5, -7 → -1; a stored 5000000000 is reported as its low 32 bits
example : (intCbW .i64 .i64 Arg.i (exPm exBlockU) exLoc 0 [.i 5]).toOption =
    some (5, [reply undoAddr [.s exLoc, .i 0, .i 5], broadcast exLoc [.i 5]]) := by decide +kernel
example : (intCbW .i64 .i64 Arg.i (exPm exBlockU) exLoc 5000000000 [.i (-7)]).toOption =
    some (-1, [reply undoAddr [.s exLoc, .i 705032704, .i (-1)], broadcast exLoc [.i (-1)]]) := by decide +kernel
example : boundOutsidePromoted .u32 (-1) = true ∧ boundOutsidePromoted .i64 (-1) = false ∧
    boundOutsidePromoted .u16 (-1) = false ∧ CTy.u32.Sub .u32 ∧ CTy.u32.InRange 5 := by
  refine ⟨by decide, by decide, by decide, CTy.sub_refl _, by decide⟩

/-! ## enumerated sub-trees (rRecurs) and index digit runs that do not fit `int` -/

/-- **recurs_index_of_address** (`rRecursCb` / `rRecurspCb`: `data.obj = &obj->name[idx]` with the index
    extraction of `rBOILS_BEGIN`): for an enumerated sub-tree port `name#N/` the element whose object is
    handed down is the number written behind the name in the address, whatever follows the `/`.
    (Which C++ object that is, is observed on the compiled code only: harness/param.cpp `/voice<k>/`.) -/
theorem recurs_index_of_address (name rest ds tail : Bytes) (hname : ∀ c ∈ name, c ≠ 35)
    (hds : AllDigits ds) (hne : ds ≠ []) (hv : digitsVal ds ≤ 2147483647) :
    arrayIndex (name ++ 35 :: rest) (name ++ ds ++ 47 :: tail) = .ok (digitsVal ds) := by
  have hst : Stops (47 :: tail) := Or.inr ⟨47, tail, rfl, by decide⟩
  rw [List.append_assoc]
  simp only [arrayIndex, walkPrefix_name name rest (ds ++ 47 :: tail) hname, atoi_run ds (47 :: tail) hds hne hst, hv,
    if_true]
  have : ¬ ((digitsVal ds : Int) < 0) := by omega
  simp [this]

-- `voice#3/` and `voice2/vvol`: element 2
example : (arrayIndex [118, 111, 105, 99, 101, 35, 51, 47] [118, 111, 105, 99, 101, 50, 47, 118, 118, 111, 108]).toOption =
    some 2 := by decide

/-- **matchPath_index_overflow**: an index digit run in the address whose value does not fit `int`
    (`atoi` undefined) makes the `#N` step of the matcher undefined in the model - it neither matches nor
    rejects, and nothing is defaulted.  The compiled `rtosc_match_number` wraps such a run modulo 2^32
    (ASSUMPTIONS of the property module: index digit runs below 2^31). -/
theorem matchPath_index_overflow (fuel : Nat) (p ds : Bytes) (pc mc : UInt8)
    (hp : isDigit pc = true) (hm : isDigit mc = true) (hov : atoi (mc :: ds) = none) :
    matchPath (fuel + 1) (35 :: pc :: p) (mc :: ds) = .error .unsup := by
  simp only [matchPath, hp, hm, hov, Bool.and_self, if_true]
  cases atoi (pc :: p) <;> rfl

/-- **array_index_overflow_unsup**: the witness of the second review (B1) on the model: `af4294967299`
    sent to `af#4::f` is reported as outside the model; the compiled code delivers it to element 3. -/
theorem array_index_overflow_unsup :
    dispatch exPortAF [47] [97, 102, 52, 50, 57, 52, 57, 54, 55, 50, 57, 57] (.flts [0, 0, 0, 0]) [.f 0] =
      .error .unsup := by
  rfl

end Rtosc.Param
