/-
  C02 — Fixed-buffer discipline: never write past the caller's buffer, fail closed.
  Property theorems only; helper lemmas live in Proofs/OscEncode.lean (C01) and
  Proofs/Bundle*.lean, the models in Osc/Encode.lean (C01) and Osc/Bundle.lean.

  Reading of the statement.  The destination is `buf : Bytes` with `len = buf.length`; every
  store of the models goes through `W.put` / `BW.store`, which set the `oob` flag of the result
  when an index `≥ len` is written.  "Never writes outside [buffer, buffer+len)" is `oob = false`,
  for EVERY capacity.  Messages are `m : Msg` with `m.WF`, handed over as `cargs` that denote
  `m.args` (C01).  Bundle elements are handed over as the memory blocks the element pointers
  point into; the store-safety and fail-closed theorems of `rtosc_bundle` hold for arbitrary
  blocks, the exact-size theorem for well-formed elements (`GoodBlocks`, see C08).
  `rtosc_bundle` is modelled after fixes/C02-bundle-len.patch; `bundle_unfixed_overflows`
  records what the unrepaired body does on the witness of defect F2.
-/
import RtoscModel.Proofs.OscAccess
import RtoscModel.Proofs.BundleWrite
namespace Rtosc.Osc
open Rtosc

/-- what `rtosc_amessage` does with a destination of any capacity -/
theorem amessage_fixed (m : Msg) (cargs : List CArg) (buf : Bytes) (hwf : m.WF)
    (hd : Denote cargs m.args) :
    amessage (some buf) m.addr m.tags cargs =
      some (if (Spec.encode m).length ≤ buf.length
        then ⟨some (Spec.encode m ++ buf.drop (Spec.encode m).length), (Spec.encode m).length, false⟩
        else ⟨some (zeros buf.length), 0, false⟩) := by
  split
  · next h => exact amessage_spec m cargs buf hwf hd h
  · next h =>
    simp only [amessage, sizeNull_spec m cargs hwf hd]
    rw [if_pos (by omega)]

/-- **amessage_never_oob** — for every capacity (0 included) and every well-formed message the
    constructor returns and never stores outside the `len` bytes. -/
theorem amessage_never_oob (m : Msg) (cargs : List CArg) (buf : Bytes) (hwf : m.WF)
    (hd : Denote cargs m.args) :
    ∃ r, amessage (some buf) m.addr m.tags cargs = some r ∧ r.oob = false := by
  refine ⟨_, amessage_fixed m cargs buf hwf hd, ?_⟩
  split <;> rfl

/-- **amessage_fail_closed** — the encoding does not fit: the return value is 0 and the buffer
    holds `len` zero bytes (no partial message). -/
theorem amessage_fail_closed (m : Msg) (cargs : List CArg) (buf : Bytes) (hwf : m.WF)
    (hd : Denote cargs m.args) (hsmall : buf.length < (Spec.encode m).length) :
    amessage (some buf) m.addr m.tags cargs = some ⟨some (zeros buf.length), 0, false⟩ := by
  rw [amessage_fixed m cargs buf hwf hd, if_neg (by omega)]

/-- **amessage_fit_exact** — the encoding fits: the return value is exactly the encoded size, the
    first `size` bytes are the encoding, and the bytes behind it are *untouched* (the code clears
    only `total_len` bytes before writing). -/
theorem amessage_fit_exact (m : Msg) (cargs : List CArg) (buf : Bytes) (hwf : m.WF)
    (hd : Denote cargs m.args) (hfit : (Spec.encode m).length ≤ buf.length) :
    amessage (some buf) m.addr m.tags cargs =
      some ⟨some (Spec.encode m ++ buf.drop (Spec.encode m).length), (Spec.encode m).length, false⟩ :=
  amessage_spec m cargs buf hwf hd hfit

/-- **amessage_null_size** — called with the NULL buffer the constructor returns the size it
    needs, and that is exactly the value a large enough buffer receives. -/
theorem amessage_null_size (m : Msg) (cargs : List CArg) (hwf : m.WF) (hd : Denote cargs m.args) :
    ∃ size, amessage none m.addr m.tags cargs = some ⟨none, size, false⟩ ∧
      ∀ buf : Bytes, size ≤ buf.length →
        ∃ b, amessage (some buf) m.addr m.tags cargs = some ⟨some b, size, false⟩ :=
  ⟨(Spec.encode m).length, amessage_null_spec m cargs hwf hd,
    fun buf h => ⟨_, amessage_spec m cargs buf hwf hd h⟩⟩

/-- **vmessage_fixed_buffer** — `rtosc_message` / `rtosc_vmessage` obey the same discipline: for
    every destination (any capacity, NULL) they behave exactly like `rtosc_amessage`. -/
theorem vmessage_fixed_buffer (narrow : UInt64 → UInt32) (widen : UInt32 → UInt64) (m : Msg)
    (cargs : List CArg) (buf : Bytes) (hwf : m.WF) (hd : Denote cargs m.args)
    (hf : ∀ v, CArg.w32 v ∈ cargs → narrow (widen v) = v) :
    vmessage narrow (some buf) m.addr m.tags (promote widen m.tags cargs) =
      some (if (Spec.encode m).length ≤ buf.length
        then ⟨some (Spec.encode m ++ buf.drop (Spec.encode m).length), (Spec.encode m).length, false⟩
        else ⟨some (zeros buf.length), 0, false⟩) := by
  rw [vmessage_promote narrow widen (some buf) m.addr m.tags cargs m.args hwf.matches_ hd hf]
  exact amessage_fixed m cargs buf hwf hd

/-- **bundle_never_oob** — `rtosc_bundle` (repaired) never stores outside the `len` bytes:
    for every capacity, every time tag and *arbitrary* element blocks, whenever the call returns. -/
theorem bundle_never_oob (buf : Bytes) (tt : UInt64) (blks : List Bytes) (r : BResult)
    (h : bundle buf tt blks = .ok r) : r.oob = false ∧ r.buf.length = buf.length :=
  bundle_safe buf tt blks r h

/-- **bundle_fail_closed** — with `total` the size the first pass computes
    (16 + Σ (4 + element length)): if `total > len` the return value is 0 and the buffer holds
    `len` zero bytes; otherwise the return value is `total`.  Arbitrary element blocks. -/
theorem bundle_fail_closed (buf : Bytes) (tt : UInt64) (blks : List Bytes) (r : BResult)
    (h : bundle buf tt blks = .ok r) :
    ∃ total, bundleTotal 16 blks = .ok total ∧
      (buf.length < total → r = ⟨zeros buf.length, 0, false⟩) ∧ (total ≤ buf.length → r.ret = total) :=
  bundle_ret buf tt blks r h

/-- **bundle_exact_size** — well-formed elements, destination large enough: the return value is
    exactly the size of the OSC 1.0 bundle encoding, the buffer holds that encoding followed by
    zero bytes (the code clears the whole buffer first). -/
theorem bundle_exact_size (es : List Elem) (blks : List Bytes) (tt : UInt64) (buf : Bytes)
    (h : GoodBlocks es blks) (hsz : (Spec.encodeElem (.bundle tt es)).length < 4294967296)
    (hfit : (Spec.encodeElem (.bundle tt es)).length ≤ buf.length) :
    bundle buf tt blks = .ok ⟨Spec.encodeElem (.bundle tt es) ++
        zeros (buf.length - (Spec.encodeElem (.bundle tt es)).length),
      (Spec.encodeElem (.bundle tt es)).length, false⟩ :=
  bundle_spec es blks tt buf h hsz hfit

/-- **bundle_fixed_buffer** — well-formed elements, every capacity: the call returns (it reads
    nothing outside the element blocks and terminates), stores nothing outside the buffer, and
    returns either the exact encoded size or 0 with a zero-filled buffer. -/
theorem bundle_fixed_buffer (es : List Elem) (blks : List Bytes) (tt : UInt64) (buf : Bytes)
    (h : GoodBlocks es blks) (hsz : (Spec.encodeElem (.bundle tt es)).length < 4294967296) :
    bundle buf tt blks = .ok
      (if (Spec.encodeElem (.bundle tt es)).length ≤ buf.length
        then ⟨Spec.encodeElem (.bundle tt es) ++ zeros (buf.length - (Spec.encodeElem (.bundle tt es)).length),
              (Spec.encodeElem (.bundle tt es)).length, false⟩
        else ⟨zeros buf.length, 0, false⟩) := by
  split
  · next hfit => exact bundle_spec es blks tt buf h hsz hfit
  · next hs => exact bundle_small es blks tt buf h (by omega)

/-- **appendBundle_never_oob** — `append_bundle` with `max_len` not larger than the destination
    block never stores outside it (arbitrary contents and lengths). -/
theorem appendBundle_never_oob (dst src : Bytes) (maxLen dstLen srcLen : Nat) (r : BResult)
    (hmax : maxLen ≤ dst.length) (h : appendBundle dst src maxLen dstLen srcLen = .ok r) :
    r.oob = false ∧ r.buf.length = dst.length :=
  appendBundle_safe dst src maxLen dstLen srcLen r hmax h

/-- **tlink_writeArray_fixed_buffer** — `ThreadLink::writeArray` builds into `write_buffer[MaxMsg]`
    (`wbuf`, any previous content): never a store outside it; a message longer than `MaxMsg`
    yields length 0 (nothing is handed to the ring) and a zeroed buffer. -/
theorem tlink_writeArray_fixed_buffer (m : Msg) (cargs : List CArg) (wbuf : Bytes) (hwf : m.WF)
    (hd : Denote cargs m.args) :
    ∃ r, tlinkWriteArray wbuf m.addr m.tags cargs = some r ∧ r.oob = false ∧
      (wbuf.length < (Spec.encode m).length → r.ret = 0 ∧ r.buf = some (zeros wbuf.length)) ∧
      ((Spec.encode m).length ≤ wbuf.length → r.ret = (Spec.encode m).length ∧
        r.buf = some (Spec.encode m ++ wbuf.drop (Spec.encode m).length)) := by
  refine ⟨_, amessage_fixed m cargs wbuf hwf hd, ?_, ?_, ?_⟩
  · split <;> rfl
  · intro h; rw [if_neg (by omega)]; exact ⟨rfl, rfl⟩
  · intro h; rw [if_pos h]; exact ⟨rfl, rfl⟩

/-- **tlink_write_fixed_buffer** — the same for the variadic `ThreadLink::write`. -/
theorem tlink_write_fixed_buffer (narrow : UInt64 → UInt32) (widen : UInt32 → UInt64) (m : Msg)
    (cargs : List CArg) (wbuf : Bytes) (hwf : m.WF) (hd : Denote cargs m.args)
    (hf : ∀ v, CArg.w32 v ∈ cargs → narrow (widen v) = v) :
    ∃ r, tlinkWrite narrow wbuf m.addr m.tags (promote widen m.tags cargs) = some r ∧ r.oob = false ∧
      (wbuf.length < (Spec.encode m).length → r.ret = 0 ∧ r.buf = some (zeros wbuf.length)) ∧
      ((Spec.encode m).length ≤ wbuf.length → r.ret = (Spec.encode m).length ∧
        r.buf = some (Spec.encode m ++ wbuf.drop (Spec.encode m).length)) := by
  refine ⟨_, vmessage_fixed_buffer narrow widen m cargs wbuf hwf hd hf, ?_, ?_, ?_⟩
  · split <;> rfl
  · intro h; rw [if_neg (by omega)]; exact ⟨rfl, rfl⟩
  · intro h; rw [if_pos h]; exact ⟨rfl, rfl⟩

/-- **rtdata_reply_fixed_buffer** — `RtData::reply(path,args,...)` and `RtData::broadcast` build
    into `char buffer[8192]` on the stack: never a store outside the 8192 bytes; a message that
    needs more is replaced by the empty (all-zero) buffer, a message that fits is passed on intact. -/
theorem rtdata_reply_fixed_buffer (narrow : UInt64 → UInt32) (widen : UInt32 → UInt64) (m : Msg)
    (cargs : List CArg) (stack : Bytes) (hwf : m.WF) (hd : Denote cargs m.args)
    (hf : ∀ v, CArg.w32 v ∈ cargs → narrow (widen v) = v) (h8192 : stack.length = 8192) :
    ∃ r, rtdataReply narrow stack m.addr m.tags (promote widen m.tags cargs) = some r ∧ r.oob = false ∧
      (8192 < (Spec.encode m).length → r.ret = 0 ∧ r.buf = some (zeros 8192)) ∧
      ((Spec.encode m).length ≤ 8192 → r.ret = (Spec.encode m).length ∧
        r.buf = some (Spec.encode m ++ stack.drop (Spec.encode m).length)) := by
  refine ⟨_, vmessage_fixed_buffer narrow widen m cargs stack hwf hd hf, ?_, ?_, ?_⟩
  · split <;> rfl
  · intro h; rw [if_neg (by omega), h8192]; exact ⟨rfl, rfl⟩
  · intro h; rw [if_pos (by omega)]; exact ⟨rfl, rfl⟩

/-! ### Non-vacuity, and the record of defect F2 -/

/-- the message of C01's example: `"/ab" "[sb]i"`, 32 bytes -/
def c02Msg : Msg :=
  ⟨[47, 97, 98], [91, 115, 98, 93, 105],
   [.str [104, 101, 108, 108, 111], .blob [1, 2, 3], .w32 0x7fffffff]⟩

example : c02Msg.WF := by decide +kernel
example : (Spec.encode c02Msg).length = 32 := by decide +kernel
example : Denote (c02Msg.args.map Arg.toC) c02Msg.args := denote_toC _ (by decide)
/-- capacity 31: fails closed; capacity 32: fits exactly; capacity 0: nothing is touched -/
example : amessage (some (List.replicate 31 170)) c02Msg.addr c02Msg.tags (c02Msg.args.map Arg.toC) =
    some ⟨some (zeros 31), 0, false⟩ := by decide +kernel
example : (amessage (some (List.replicate 32 170)) c02Msg.addr c02Msg.tags (c02Msg.args.map Arg.toC)).map
    (fun r => (r.ret, r.oob)) = some (32, false) := by decide +kernel
example : amessage (some []) c02Msg.addr c02Msg.tags (c02Msg.args.map Arg.toC) = some ⟨some [], 0, false⟩ := by
  decide +kernel

/-- the 20-byte message `"/abcdefg" ",i" 1` -/
def f2Elem : Bytes := [47, 97, 98, 99, 100, 101, 102, 103, 0, 0, 0, 0, 44, 105, 0, 0, 0, 0, 0, 1]
def f2Msg : Msg := ⟨[47, 97, 98, 99, 100, 101, 102, 103], [105], [.w32 1]⟩

example : Spec.encode f2Msg = f2Elem := by decide +kernel
example : GoodBlocks [.msg f2Msg] [f2Elem] := by
  refine ⟨⟨⟨by decide +kernel, by decide⟩, ⟨[], by decide +kernel⟩, ?_⟩, trivial⟩
  intro h; cases h

/-- **bundle_unfixed_overflows** (defect F2, the witness of corpus/C02.ops) — the body of
    `rtosc_bundle` before fixes/C02-bundle-len.patch stores outside a 24-byte buffer when given one
    20-byte element (and claims to have written 40 bytes); the repaired function returns 0 and
    leaves 24 zero bytes. -/
theorem bundle_unfixed_overflows :
    bundleUnfixed (List.replicate 24 170) 0 [f2Elem] =
      .ok ⟨[35, 98, 117, 110, 100, 108, 101, 0, 0, 0, 0, 0, 0, 0, 0, 0, 0, 0, 0, 20, 47, 97, 98, 99], 40, true⟩ ∧
    bundle (List.replicate 24 170) 0 [f2Elem] = .ok ⟨zeros 24, 0, false⟩ := by
  constructor <;> decide +kernel

/-- with 40 bytes the same call fits exactly -/
example : (match bundle (List.replicate 40 170) 0 [f2Elem] with
    | .ok r => some (r.ret, r.oob) | _ => none) = some (40, false) := by decide +kernel

end Rtosc.Osc
