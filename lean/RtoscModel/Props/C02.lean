/-
  C02 — Fixed-buffer discipline: never write past the caller's buffer, fail closed.
  Property theorems only; helper lemmas live in Proofs/OscEncode.lean (C01) and
  Proofs/Bundle*.lean, the models in Osc/Encode.lean (C01) and Osc/Bundle.lean.

  Reading of the statement.  The destination is `buf : Bytes` with `len = buf.length`; every
  store of the models goes through `W.put` / `BW.store`, which set the `oob` flag of the result
  when an index `≥ len` is written.  "Never writes outside [buffer, buffer+len)" is `oob = false`,
  for EVERY capacity.  Messages are `m : Msg` with `m.WF`, handed over as `cargs` that denote
  `m.args` (C01).  Bundle elements are handed over as the memory blocks the element pointers
  point into; the store-safety and fail-closed theorems of `rtosc_bundle` hold for arbitrary
  blocks, the exact-size theorem for well-formed elements (`GoodBlocks`, see C08).
  `rtosc_bundle` is modelled after fixes/C02-bundle-len.patch; `bundle_unfixed_overflows`
  records what the unrepaired body does on the witness of defect F2.

  Callers that own a block and *claim* a capacity (`rtosc_message` as a C caller sees it, the
  C++ wrappers with their private buffers) are modelled with `callAt` (Osc/Bundle.lean): block and
  claimed `len` are independent, a store at an index `≥ block length` sets `oob`.  Their theorems
  have the hypothesis `len ≤ block length`; `wrapper_overclaim_detected` shows the flag being set
  when it fails.  With the NULL pointer `len` is not looked at (`amessage_null_any_len`).

  The variadic entry points (`rtosc_vmessage`, `rtosc_message`, `ThreadLink::write`,
  `RtData::reply/broadcast`) are stated for a call site that passes the promoted values of `cargs`
  (`promote widen`) and ARBITRARY conversions `widen : float → double`, `narrow : double → float`
  on bit patterns: no hypothesis about them.  What is written is the encoding of `m.sent narrow
  widen` — `m` with exactly the values under an `'f'` tag replaced by `narrow (widen v)` — whose
  length is that of `Spec.encode m` (`sent_same_size`): never-oob, fail-closed and exact-size do not
  depend on float bits.  The `…_bytes` corollaries give `Spec.encode m` itself under C01's
  hypothesis on the `'f'` values only (`fArgs`; `sent_eq_self`).
-/
import RtoscModel.Proofs.OscAccess
import RtoscModel.Proofs.BundleVar
namespace Rtosc.Osc
open Rtosc

/-- what `rtosc_amessage` does with a destination of any capacity -/
theorem amessage_fixed (m : Msg) (cargs : List CArg) (buf : Bytes) (hwf : m.WF)
    (hd : Denote cargs m.args) :
    amessage (some buf) m.addr m.tags cargs =
      some (if (Spec.encode m).length ≤ buf.length
        then ⟨some (Spec.encode m ++ buf.drop (Spec.encode m).length), (Spec.encode m).length, false⟩
        else ⟨some (zeros buf.length), 0, false⟩) := by
  split
  · next h => exact amessage_spec m cargs buf hwf hd h
  · next h =>
    simp only [amessage, sizeNull_spec m cargs hwf hd]
    rw [if_pos (by omega)]

/-- **amessage_never_oob** — for every capacity (0 included) and every well-formed message the
    constructor returns and never stores outside the `len` bytes. -/
theorem amessage_never_oob (m : Msg) (cargs : List CArg) (buf : Bytes) (hwf : m.WF)
    (hd : Denote cargs m.args) :
    ∃ r, amessage (some buf) m.addr m.tags cargs = some r ∧ r.oob = false := by
  refine ⟨_, amessage_fixed m cargs buf hwf hd, ?_⟩
  split <;> rfl

/-- **amessage_fail_closed** — the encoding does not fit: the return value is 0 and the buffer
    holds `len` zero bytes (no partial message). -/
theorem amessage_fail_closed (m : Msg) (cargs : List CArg) (buf : Bytes) (hwf : m.WF)
    (hd : Denote cargs m.args) (hsmall : buf.length < (Spec.encode m).length) :
    amessage (some buf) m.addr m.tags cargs = some ⟨some (zeros buf.length), 0, false⟩ := by
  rw [amessage_fixed m cargs buf hwf hd, if_neg (by omega)]

/-- **amessage_fit_exact** — the encoding fits: the return value is exactly the encoded size, the
    first `size` bytes are the encoding, and the bytes behind it are *untouched* (the code clears
    only `total_len` bytes before writing). -/
theorem amessage_fit_exact (m : Msg) (cargs : List CArg) (buf : Bytes) (hwf : m.WF)
    (hd : Denote cargs m.args) (hfit : (Spec.encode m).length ≤ buf.length) :
    amessage (some buf) m.addr m.tags cargs =
      some ⟨some (Spec.encode m ++ buf.drop (Spec.encode m).length), (Spec.encode m).length, false⟩ :=
  amessage_spec m cargs buf hwf hd hfit

/-- **amessage_null_size** — called with the NULL buffer the constructor returns the size it
    needs, and that is exactly the value a large enough buffer receives. -/
theorem amessage_null_size (m : Msg) (cargs : List CArg) (hwf : m.WF) (hd : Denote cargs m.args) :
    ∃ size, amessage none m.addr m.tags cargs = some ⟨none, size, false⟩ ∧
      ∀ buf : Bytes, size ≤ buf.length →
        ∃ b, amessage (some buf) m.addr m.tags cargs = some ⟨some b, size, false⟩ :=
  ⟨(Spec.encode m).length, amessage_null_spec m cargs hwf hd,
    fun buf h => ⟨_, amessage_spec m cargs buf hwf hd h⟩⟩

/-- **sent_same_size** — the message a variadic call site sends (`'f'` values converted to double
    and back by arbitrary conversions) is well-formed, has the address and type string of `m`, and
    its encoding has exactly the length of `Spec.encode m`: sizes do not depend on float bits. -/
theorem sent_same_size (narrow : UInt64 → UInt32) (widen : UInt32 → UInt64) (m : Msg) (hwf : m.WF) :
    (m.sent narrow widen).WF ∧ (m.sent narrow widen).addr = m.addr ∧ (m.sent narrow widen).tags = m.tags ∧
    (Spec.encode (m.sent narrow widen)).length = (Spec.encode m).length :=
  ⟨wf_msg_viaDouble _ m hwf, rfl, rfl, encode_length_sent narrow widen m⟩

/-- **sent_eq_self** — C01's hypothesis, on the values under an `'f'` tag only (`fArgs`): each of
    them survives `float → double → float`.  Then the message sent is `m` itself. -/
theorem sent_eq_self (narrow : UInt64 → UInt32) (widen : UInt32 → UInt64) (m : Msg) (cargs : List CArg)
    (hd : Denote cargs m.args) (hf : ∀ v ∈ fArgs m.tags cargs, narrow (widen v) = v) :
    m.sent narrow widen = m :=
  sent_id narrow widen m cargs hd hf

/-- **vmessage_fixed_buffer** — `rtosc_vmessage` obeys the same discipline, for every destination
    of any capacity and with NO hypothesis on the float conversions: no store outside the buffer;
    too small: 0 and `len` zero bytes; otherwise the return value is exactly the encoded size of `m`
    and the buffer holds the encoding of the message sent, the bytes behind it untouched; with the
    NULL buffer the return value is that size.  (`rtosc_message` itself: `message_fixed_buffer`.) -/
theorem vmessage_fixed_buffer (narrow : UInt64 → UInt32) (widen : UInt32 → UInt64) (m : Msg)
    (cargs : List CArg) (buf : Bytes) (hwf : m.WF) (hd : Denote cargs m.args) :
    vmessage narrow (some buf) m.addr m.tags (promote widen m.tags cargs) =
      some (if (Spec.encode m).length ≤ buf.length
        then ⟨some (Spec.encode (m.sent narrow widen) ++ buf.drop (Spec.encode m).length),
              (Spec.encode m).length, false⟩
        else ⟨some (zeros buf.length), 0, false⟩) ∧
    vmessage narrow none m.addr m.tags (promote widen m.tags cargs) =
      some ⟨none, (Spec.encode m).length, false⟩ := by
  have h := vmessage_disciplined_any narrow widen m cargs hwf hd
  rw [Disciplined, encode_length_sent] at h
  exact ⟨h.2 buf, h.1⟩

/-- **vmessage_fixed_buffer_bytes** — under the `'f'`-only hypothesis the bytes are `Spec.encode m`:
    `rtosc_vmessage` behaves exactly like `rtosc_amessage`. -/
theorem vmessage_fixed_buffer_bytes (narrow : UInt64 → UInt32) (widen : UInt32 → UInt64) (m : Msg)
    (cargs : List CArg) (buf : Bytes) (hwf : m.WF) (hd : Denote cargs m.args)
    (hf : ∀ v ∈ fArgs m.tags cargs, narrow (widen v) = v) :
    vmessage narrow (some buf) m.addr m.tags (promote widen m.tags cargs) =
      some (if (Spec.encode m).length ≤ buf.length
        then ⟨some (Spec.encode m ++ buf.drop (Spec.encode m).length), (Spec.encode m).length, false⟩
        else ⟨some (zeros buf.length), 0, false⟩) := by
  have h := (vmessage_fixed_buffer narrow widen m cargs buf hwf hd).1
  rwa [sent_id narrow widen m cargs hd hf] at h

/-- **bundle_never_oob** — `rtosc_bundle` (repaired) never stores outside the `len` bytes:
    for every capacity, every time tag and *arbitrary* element blocks, whenever the call returns. -/
theorem bundle_never_oob (buf : Bytes) (tt : UInt64) (blks : List Bytes) (r : BResult)
    (h : bundle buf tt blks = .ok r) : r.oob = false ∧ r.buf.length = buf.length :=
  bundle_safe buf tt blks r h

/-- **bundle_fail_closed** — with `total` the size the first pass computes
    (16 + Σ (4 + element length)): if `total > len` the return value is 0 and the buffer holds
    `len` zero bytes; otherwise the return value is `total`.  Arbitrary element blocks. -/
theorem bundle_fail_closed (buf : Bytes) (tt : UInt64) (blks : List Bytes) (r : BResult)
    (h : bundle buf tt blks = .ok r) :
    ∃ total, bundleTotal 16 blks = .ok total ∧
      (buf.length < total → r = ⟨zeros buf.length, 0, false⟩) ∧ (total ≤ buf.length → r.ret = total) :=
  bundle_ret buf tt blks r h

/-- **bundle_exact_size** — well-formed elements, destination large enough: the return value is
    exactly the size of the OSC 1.0 bundle encoding, the buffer holds that encoding followed by
    zero bytes (the code clears the whole buffer first). -/
theorem bundle_exact_size (es : List Elem) (blks : List Bytes) (tt : UInt64) (buf : Bytes)
    (h : GoodBlocks es blks) (hsz : (Spec.encodeElem (.bundle tt es)).length < 4294967296)
    (hfit : (Spec.encodeElem (.bundle tt es)).length ≤ buf.length) :
    bundle buf tt blks = .ok ⟨Spec.encodeElem (.bundle tt es) ++
        zeros (buf.length - (Spec.encodeElem (.bundle tt es)).length),
      (Spec.encodeElem (.bundle tt es)).length, false⟩ :=
  bundle_spec es blks tt buf h hsz hfit

/-- **bundle_fixed_buffer** — well-formed elements, every capacity: the call returns (it reads
    nothing outside the element blocks and terminates), stores nothing outside the buffer, and
    returns either the exact encoded size or 0 with a zero-filled buffer. -/
theorem bundle_fixed_buffer (es : List Elem) (blks : List Bytes) (tt : UInt64) (buf : Bytes)
    (h : GoodBlocks es blks) (hsz : (Spec.encodeElem (.bundle tt es)).length < 4294967296) :
    bundle buf tt blks = .ok
      (if (Spec.encodeElem (.bundle tt es)).length ≤ buf.length
        then ⟨Spec.encodeElem (.bundle tt es) ++ zeros (buf.length - (Spec.encodeElem (.bundle tt es)).length),
              (Spec.encodeElem (.bundle tt es)).length, false⟩
        else ⟨zeros buf.length, 0, false⟩) := by
  split
  · next hfit => exact bundle_spec es blks tt buf h hsz hfit
  · next hs => exact bundle_small es blks tt buf h (by omega)

/-- **appendBundle_never_oob** — `append_bundle` with `max_len` not larger than the destination
    block never stores outside it (arbitrary contents and lengths). -/
theorem appendBundle_never_oob (dst src : Bytes) (maxLen dstLen srcLen : Nat) (r : BResult)
    (hmax : maxLen ≤ dst.length) (h : appendBundle dst src maxLen dstLen srcLen = .ok r) :
    r.oob = false ∧ r.buf.length = dst.length :=
  appendBundle_safe dst src maxLen dstLen srcLen r hmax h

/-- **appendBundle_fail_closed** — `append_bundle` fails exactly when its guard
    `max_len < dst_len + src_len + 4 || dst_len == 0 || src_len == 0` fires (`AppendFails`): the
    return value is 0, the destination holds exactly the bytes it held before (it is NOT
    zero-filled: the bundle built so far stays readable) and the source is not read.  Arbitrary
    blocks and lengths. -/
theorem appendBundle_fail_closed (dst src : Bytes) (maxLen dstLen srcLen : Nat)
    (h : AppendFails maxLen dstLen srcLen) :
    appendBundle dst src maxLen dstLen srcLen = .ok ⟨dst, 0, false⟩ :=
  appendBundle_fails dst src maxLen dstLen srcLen h

/-- **appendBundle_fit_exact** — the guard does not fire, `max_len` is honest and the source block
    has the `src_len` bytes: the return value is exactly `dst_len + 4 + src_len`, the destination
    is the old one with the size field and the element spliced in at `dst_len`, every other byte
    untouched, no store outside.  Arbitrary contents (well-formed ones: C08's `appendBundle_eq_spec`). -/
theorem appendBundle_fit_exact (dst src : Bytes) (maxLen dstLen srcLen : Nat)
    (h : ¬ AppendFails maxLen dstLen srcLen) (hsrc : srcLen ≤ src.length) (hmax : maxLen ≤ dst.length) :
    appendBundle dst src maxLen dstLen srcLen =
      .ok ⟨dst.take dstLen ++ put32 (UInt32.ofNat srcLen) ++ src.take srcLen ++ dst.drop (dstLen + 4 + srcLen),
        dstLen + srcLen + 4, false⟩ :=
  appendBundle_fits dst src maxLen dstLen srcLen h hsrc hmax

/-- **appendBundle_chain_after_failure** — the way `subtree_serialize` uses it,
    `len = append_bundle(buffer, src_i, buffer_size, len, src_len_i)` for one captured message after
    the other (`appendAll`): once an append fails, it and EVERY later append return 0 and the
    destination keeps exactly the bytes it had before the failing call, whatever the later sources
    and lengths are. -/
theorem appendBundle_chain_after_failure (dst src : Bytes) (maxLen dstLen srcLen : Nat)
    (rest : List (Bytes × Nat)) (h : AppendFails maxLen dstLen srcLen) :
    appendAll dst maxLen dstLen ((src, srcLen) :: rest) = .ok ⟨dst, 0, false⟩ :=
  appendAll_after_failure dst src maxLen dstLen srcLen rest h

/-- **appendBundle_chain_never_oob** — the whole chain, successes and failures in any order,
    never stores outside the destination block (`buffer_size ≤` block length). -/
theorem appendBundle_chain_never_oob (dst : Bytes) (maxLen len : Nat) (srcs : List (Bytes × Nat)) (r : BResult)
    (hmax : maxLen ≤ dst.length) (h : appendAll dst maxLen len srcs = .ok r) :
    r.oob = false ∧ r.buf.length = dst.length :=
  appendAll_safe maxLen srcs dst len r hmax h

/-- `rtosc_amessage` obeys the discipline (`Disciplined`) on every buffer -/
theorem amessage_disciplined (m : Msg) (cargs : List CArg) (hwf : m.WF) (hd : Denote cargs m.args) :
    Disciplined (fun buf => amessage buf m.addr m.tags cargs) (Spec.encode m) :=
  ⟨amessage_null_spec m cargs hwf hd, fun buf => amessage_fixed m cargs buf hwf hd⟩

/-- and so does `rtosc_vmessage` at a call site that passes the promoted values of `cargs`, with
    respect to the encoding of the message sent (no hypothesis on the conversions) -/
theorem vmessage_disciplined (narrow : UInt64 → UInt32) (widen : UInt32 → UInt64) (m : Msg)
    (cargs : List CArg) (hwf : m.WF) (hd : Denote cargs m.args) :
    Disciplined (fun buf => vmessage narrow buf m.addr m.tags (promote widen m.tags cargs))
      (Spec.encode (m.sent narrow widen)) :=
  vmessage_disciplined_any narrow widen m cargs hwf hd

/-- **amessage_null_any_len** — with the NULL buffer `len` is not looked at (`if(!buffer) return
    total_len;` comes first): `rtosc_amessage(NULL, len, …)` is the size query for every `len`. -/
theorem amessage_null_any_len (len : Nat) (addr tags : Bytes) (cargs : List CArg) :
    amessageAt none len addr tags cargs = amessage none addr tags cargs := rfl

/-- **message_fixed_buffer** — `rtosc_message(buffer, len, address, arguments, ...)` itself (the
    variadic entry point named in the property): the caller owns the block `blk` and claims
    `len ≤ blk.length`.  No hypothesis on the float conversions.  No store outside the block, the
    bytes behind `len` keep their values; too small: 0 and `len` zero bytes; otherwise the exact size
    and the encoding of the message sent.  With NULL: the size. -/
theorem message_fixed_buffer (narrow : UInt64 → UInt32) (widen : UInt32 → UInt64) (m : Msg)
    (cargs : List CArg) (blk : Bytes) (len : Nat) (hwf : m.WF) (hd : Denote cargs m.args)
    (hlen : len ≤ blk.length) :
    rtoscMessage narrow (some blk) len m.addr m.tags (promote widen m.tags cargs) =
      some (if (Spec.encode m).length ≤ len
        then ⟨some (Spec.encode (m.sent narrow widen) ++ blk.drop (Spec.encode m).length),
              (Spec.encode m).length, false⟩
        else ⟨some (zeros len ++ blk.drop len), 0, false⟩) ∧
    rtoscMessage narrow none len m.addr m.tags (promote widen m.tags cargs) =
      some ⟨none, (Spec.encode m).length, false⟩ := by
  have hd' := vmessage_disciplined narrow widen m cargs hwf hd
  have h := callAt_fixed _ _ blk len hd' hlen
  have h0 := hd'.1
  rw [encode_length_sent] at h h0
  exact ⟨h, h0⟩

/-- **message_fixed_buffer_bytes** — under the `'f'`-only hypothesis the bytes are `Spec.encode m`. -/
theorem message_fixed_buffer_bytes (narrow : UInt64 → UInt32) (widen : UInt32 → UInt64) (m : Msg)
    (cargs : List CArg) (blk : Bytes) (len : Nat) (hwf : m.WF) (hd : Denote cargs m.args)
    (hf : ∀ v ∈ fArgs m.tags cargs, narrow (widen v) = v) (hlen : len ≤ blk.length) :
    rtoscMessage narrow (some blk) len m.addr m.tags (promote widen m.tags cargs) =
      some (if (Spec.encode m).length ≤ len
        then ⟨some (Spec.encode m ++ blk.drop (Spec.encode m).length), (Spec.encode m).length, false⟩
        else ⟨some (zeros len ++ blk.drop len), 0, false⟩) := by
  have h := (message_fixed_buffer narrow widen m cargs blk len hwf hd hlen).1
  rwa [sent_id narrow widen m cargs hd hf] at h

/-- **tlink_writeArray_fixed_buffer** — `ThreadLink::writeArray` builds into `write_buffer`
    (`wbuf`, any previous content) and passes `MaxMsg` as capacity.  Provided the wrapper's claim
    is honest (`maxMsg ≤ wbuf.length`; the constructor allocates exactly `MaxMsg` bytes): never a
    store outside the block; a message longer than `MaxMsg` yields length 0 (nothing is handed to
    the ring) and `MaxMsg` zero bytes; a message that fits is there intact. -/
theorem tlink_writeArray_fixed_buffer (m : Msg) (cargs : List CArg) (wbuf : Bytes) (maxMsg : Nat)
    (hwf : m.WF) (hd : Denote cargs m.args) (hcap : maxMsg ≤ wbuf.length) :
    ∃ r, tlinkWriteArray wbuf maxMsg m.addr m.tags cargs = some r ∧ r.oob = false ∧
      (maxMsg < (Spec.encode m).length → r.ret = 0 ∧ r.buf = some (zeros maxMsg ++ wbuf.drop maxMsg)) ∧
      ((Spec.encode m).length ≤ maxMsg → r.ret = (Spec.encode m).length ∧
        r.buf = some (Spec.encode m ++ wbuf.drop (Spec.encode m).length)) := by
  refine ⟨_, callAt_fixed _ _ wbuf maxMsg (amessage_disciplined m cargs hwf hd) hcap, ?_, ?_, ?_⟩
  · split <;> rfl
  · intro h; rw [if_neg (by omega)]; exact ⟨rfl, rfl⟩
  · intro h; rw [if_pos h]; exact ⟨rfl, rfl⟩

/-- **tlink_write_fixed_buffer** — the same for the variadic `ThreadLink::write`, with no
    hypothesis on the float conversions: what a fitting call leaves in `write_buffer` is the
    encoding of the message sent, whose size is that of `Spec.encode m`. -/
theorem tlink_write_fixed_buffer (narrow : UInt64 → UInt32) (widen : UInt32 → UInt64) (m : Msg)
    (cargs : List CArg) (wbuf : Bytes) (maxMsg : Nat) (hwf : m.WF) (hd : Denote cargs m.args)
    (hcap : maxMsg ≤ wbuf.length) :
    ∃ r, tlinkWrite narrow wbuf maxMsg m.addr m.tags (promote widen m.tags cargs) = some r ∧ r.oob = false ∧
      (maxMsg < (Spec.encode m).length → r.ret = 0 ∧ r.buf = some (zeros maxMsg ++ wbuf.drop maxMsg)) ∧
      ((Spec.encode m).length ≤ maxMsg → r.ret = (Spec.encode m).length ∧
        r.buf = some (Spec.encode (m.sent narrow widen) ++ wbuf.drop (Spec.encode m).length)) := by
  have h := callAt_fixed _ _ wbuf maxMsg (vmessage_disciplined narrow widen m cargs hwf hd) hcap
  rw [encode_length_sent] at h
  refine ⟨_, h, ?_, ?_, ?_⟩
  · split <;> rfl
  · intro h; rw [if_neg (by omega)]; exact ⟨rfl, rfl⟩
  · intro h; rw [if_pos h]; exact ⟨rfl, rfl⟩

/-- **tlink_write_fixed_buffer_bytes** — under the `'f'`-only hypothesis: `Spec.encode m` itself. -/
theorem tlink_write_fixed_buffer_bytes (narrow : UInt64 → UInt32) (widen : UInt32 → UInt64) (m : Msg)
    (cargs : List CArg) (wbuf : Bytes) (maxMsg : Nat) (hwf : m.WF) (hd : Denote cargs m.args)
    (hf : ∀ v ∈ fArgs m.tags cargs, narrow (widen v) = v) (hcap : maxMsg ≤ wbuf.length) :
    ∃ r, tlinkWrite narrow wbuf maxMsg m.addr m.tags (promote widen m.tags cargs) = some r ∧ r.oob = false ∧
      (maxMsg < (Spec.encode m).length → r.ret = 0 ∧ r.buf = some (zeros maxMsg ++ wbuf.drop maxMsg)) ∧
      ((Spec.encode m).length ≤ maxMsg → r.ret = (Spec.encode m).length ∧
        r.buf = some (Spec.encode m ++ wbuf.drop (Spec.encode m).length)) := by
  have h := tlink_write_fixed_buffer narrow widen m cargs wbuf maxMsg hwf hd hcap
  rwa [sent_id narrow widen m cargs hd hf] at h

/-- **rtdata_reply_fixed_buffer** — `RtData::reply(path,args,...)` and `RtData::broadcast` build
    into `char buffer[N]` on the stack (`stack`) and pass `cap` (N = cap = 8192 in the unchanged
    source).  Provided `cap ≤ N`, with no hypothesis on the float conversions: never a store outside
    the N bytes; a message that needs more than `cap` is replaced by the empty (all-zero) buffer, a
    message that fits is passed on intact (the encoding of the message sent). -/
theorem rtdata_reply_fixed_buffer (narrow : UInt64 → UInt32) (widen : UInt32 → UInt64) (m : Msg)
    (cargs : List CArg) (stack : Bytes) (cap : Nat) (hwf : m.WF) (hd : Denote cargs m.args)
    (hcap : cap ≤ stack.length) :
    ∃ r, rtdataReply narrow stack cap m.addr m.tags (promote widen m.tags cargs) = some r ∧ r.oob = false ∧
      (cap < (Spec.encode m).length → r.ret = 0 ∧ r.buf = some (zeros cap ++ stack.drop cap)) ∧
      ((Spec.encode m).length ≤ cap → r.ret = (Spec.encode m).length ∧
        r.buf = some (Spec.encode (m.sent narrow widen) ++ stack.drop (Spec.encode m).length)) := by
  have h := callAt_fixed _ _ stack cap (vmessage_disciplined narrow widen m cargs hwf hd) hcap
  rw [encode_length_sent] at h
  refine ⟨_, h, ?_, ?_, ?_⟩
  · split <;> rfl
  · intro h; rw [if_neg (by omega)]; exact ⟨rfl, rfl⟩
  · intro h; rw [if_pos h]; exact ⟨rfl, rfl⟩

/-- **rtdata_reply_fixed_buffer_bytes** — under the `'f'`-only hypothesis: `Spec.encode m` itself. -/
theorem rtdata_reply_fixed_buffer_bytes (narrow : UInt64 → UInt32) (widen : UInt32 → UInt64) (m : Msg)
    (cargs : List CArg) (stack : Bytes) (cap : Nat) (hwf : m.WF) (hd : Denote cargs m.args)
    (hf : ∀ v ∈ fArgs m.tags cargs, narrow (widen v) = v) (hcap : cap ≤ stack.length) :
    ∃ r, rtdataReply narrow stack cap m.addr m.tags (promote widen m.tags cargs) = some r ∧ r.oob = false ∧
      (cap < (Spec.encode m).length → r.ret = 0 ∧ r.buf = some (zeros cap ++ stack.drop cap)) ∧
      ((Spec.encode m).length ≤ cap → r.ret = (Spec.encode m).length ∧
        r.buf = some (Spec.encode m ++ stack.drop (Spec.encode m).length)) := by
  have h := rtdata_reply_fixed_buffer narrow widen m cargs stack cap hwf hd hcap
  rwa [sent_id narrow widen m cargs hd hf] at h

/-- **wrapper_overclaim_detected** — the capacity hypotheses above are not decoration: a wrapper
    that claims more than it owns (here: a 24-byte block, `len` 32, the 32-byte message below)
    sets the out-of-bounds flag of the model; and one that claims 40 for a message that does not
    fit 40 either (`memset(buffer,0,len)`) as well. -/
theorem wrapper_overclaim_detected :
    (amessageAt (some (List.replicate 24 170)) 32 [47, 97, 98] [91, 115, 98, 93, 105]
        [.str [104, 101, 108, 108, 111], .blob 3 (some [1, 2, 3]), .w32 0x7fffffff]).map (·.oob) = some true ∧
    (amessageAt (some (List.replicate 24 170)) 28 [47, 97, 98] [91, 115, 98, 93, 105]
        [.str [104, 101, 108, 108, 111], .blob 3 (some [1, 2, 3]), .w32 0x7fffffff]).map (·.oob) = some true ∧
    (amessageAt (some (List.replicate 24 170)) 24 [47, 97, 98] [91, 115, 98, 93, 105]
        [.str [104, 101, 108, 108, 111], .blob 3 (some [1, 2, 3]), .w32 0x7fffffff]).map (·.oob) = some false := by
  refine ⟨?_, ?_, ?_⟩ <;> decide +kernel

/-! ### Non-vacuity, and the record of defect F2 -/

/-- the message of C01's example: `"/ab" "[sb]i"`, 32 bytes -/
def c02Msg : Msg :=
  ⟨[47, 97, 98], [91, 115, 98, 93, 105],
   [.str [104, 101, 108, 108, 111], .blob [1, 2, 3], .w32 0x7fffffff]⟩

example : c02Msg.WF := by decide +kernel
example : (Spec.encode c02Msg).length = 32 := by decide +kernel
example : Denote (c02Msg.args.map Arg.toC) c02Msg.args := denote_toC _ (by decide)
/-- capacity 31: fails closed; capacity 32: fits exactly; capacity 0: nothing is touched -/
example : amessage (some (List.replicate 31 170)) c02Msg.addr c02Msg.tags (c02Msg.args.map Arg.toC) =
    some ⟨some (zeros 31), 0, false⟩ := by decide +kernel
example : (amessage (some (List.replicate 32 170)) c02Msg.addr c02Msg.tags (c02Msg.args.map Arg.toC)).map
    (fun r => (r.ret, r.oob)) = some (32, false) := by decide +kernel
example : amessage (some []) c02Msg.addr c02Msg.tags (c02Msg.args.map Arg.toC) = some ⟨some [], 0, false⟩ := by
  decide +kernel

/-- the `'f'`-only hypothesis of the `…_bytes` corollaries is trivially true of this message (no
    `'f'` tag: its 32-bit argument `0x7fffffff` is an `int` and is not converted) -/
example : fArgs c02Msg.tags (c02Msg.args.map Arg.toC) = [] := by decide +kernel
example : (8192 : Nat) ≤ (List.replicate 8192 (170 : UInt8)).length := by rw [List.length_replicate]; exact Nat.le_refl _
example : (rtoscMessage narrowF64 (some (List.replicate 40 170)) 32 c02Msg.addr c02Msg.tags
    (promote widenF32 c02Msg.tags (c02Msg.args.map Arg.toC))).map (fun r => (r.ret, r.oob)) = some (32, false) := by
  decide +kernel

/-- `"/a" ",if"` with the bit pattern of a signalling NaN in both arguments (the `int` is the
    review's `/a ,i 0x7f800001`): 16 bytes -/
def snanMsg : Msg := ⟨[47, 97], [105, 102], [.w32 0x7f800001, .w32 0x7f800001]⟩

example : snanMsg.WF := by decide +kernel
example : (Spec.encode snanMsg).length = 16 := by decide +kernel
example : Denote (snanMsg.args.map Arg.toC) snanMsg.args := denote_toC _ (by decide)
/-- the target's conversions quieten it: the old hypothesis `hf` (and the `'f'`-only one) is FALSE
    of this message … -/
example : narrowF64 (widenF32 0x7f800001) = 0x7fc00001 := by decide +kernel
example : fArgs snanMsg.tags (snanMsg.args.map Arg.toC) = [0x7f800001] := by decide +kernel
/-- … the message sent differs from it in the `float` only (the `int` with the same bits is
    untouched), and the theorems without float hypothesis apply: capacity 15 fails closed, 16 fits
    exactly, through `rtosc_message`, `ThreadLink::write` and `RtData::reply` alike -/
example : snanMsg.sent narrowF64 widenF32 = ⟨[47, 97], [105, 102], [.w32 0x7f800001, .w32 0x7fc00001]⟩ := by
  decide +kernel
example : vmessage narrowF64 (some (List.replicate 15 170)) snanMsg.addr snanMsg.tags
    (promote widenF32 snanMsg.tags (snanMsg.args.map Arg.toC)) = some ⟨some (zeros 15), 0, false⟩ := by
  decide +kernel
example : vmessage narrowF64 (some (List.replicate 17 170)) snanMsg.addr snanMsg.tags
    (promote widenF32 snanMsg.tags (snanMsg.args.map Arg.toC)) =
    some ⟨some [47, 97, 0, 0, 44, 105, 102, 0, 0x7f, 0x80, 0, 1, 0x7f, 0xc0, 0, 1, 170], 16, false⟩ := by
  decide +kernel
example : (tlinkWrite narrowF64 (List.replicate 20 170) 16 snanMsg.addr snanMsg.tags
    (promote widenF32 snanMsg.tags (snanMsg.args.map Arg.toC))).map (fun r => (r.ret, r.oob)) = some (16, false) := by
  decide +kernel
example : (tlinkWrite narrowF64 (List.replicate 20 170) 12 snanMsg.addr snanMsg.tags
    (promote widenF32 snanMsg.tags (snanMsg.args.map Arg.toC))) =
    some ⟨some (zeros 12 ++ List.replicate 8 170), 0, false⟩ := by
  decide +kernel
example : (rtdataReply narrowF64 (List.replicate 24 170) 24 snanMsg.addr snanMsg.tags
    (promote widenF32 snanMsg.tags (snanMsg.args.map Arg.toC))).map (fun r => (r.ret, r.oob)) = some (16, false) := by
  decide +kernel

/-- the 20-byte message `"/abcdefg" ",i" 1` -/
def f2Elem : Bytes := [47, 97, 98, 99, 100, 101, 102, 103, 0, 0, 0, 0, 44, 105, 0, 0, 0, 0, 0, 1]
def f2Msg : Msg := ⟨[47, 97, 98, 99, 100, 101, 102, 103], [105], [.w32 1]⟩

example : Spec.encode f2Msg = f2Elem := by decide +kernel
example : GoodBlocks [.msg f2Msg] [f2Elem] := by
  refine ⟨⟨⟨by decide +kernel, by decide⟩, ⟨[], by decide +kernel⟩, ?_⟩, trivial⟩
  intro h; cases h

/-- **bundle_unfixed_overflows** (defect F2, the witness of corpus/C02.ops) — the body of
    `rtosc_bundle` before fixes/C02-bundle-len.patch stores outside a 24-byte buffer when given one
    20-byte element (and claims to have written 40 bytes); the repaired function returns 0 and
    leaves 24 zero bytes. -/
theorem bundle_unfixed_overflows :
    bundleUnfixed (List.replicate 24 170) 0 [f2Elem] =
      .ok ⟨[35, 98, 117, 110, 100, 108, 101, 0, 0, 0, 0, 0, 0, 0, 0, 0, 0, 0, 0, 20, 47, 97, 98, 99], 40, true⟩ ∧
    bundle (List.replicate 24 170) 0 [f2Elem] = .ok ⟨zeros 24, 0, false⟩ := by
  constructor <;> decide +kernel

/-- with 40 bytes the same call fits exactly -/
example : (match bundle (List.replicate 40 170) 0 [f2Elem] with
    | .ok r => some (r.ret, r.oob) | _ => none) = some (40, false) := by decide +kernel

/-- `append_bundle`: a 40-byte destination holding a 16-byte empty bundle, 20-byte elements.
    The first append fits (40 = 16 + 4 + 20), the second does not: the guard fires, … -/
example : ¬ AppendFails 40 16 20 := by decide
example : AppendFails 40 40 20 := by decide
/-- … the chain returns 0, and the destination still holds the bundle with the first element -/
example : appendAll (bundleMagic ++ zeros 8 ++ List.replicate 24 170) 40 16 [(f2Elem, 20), (f2Elem, 20), (f2Elem, 20)] =
    .ok ⟨bundleMagic ++ zeros 8 ++ [0, 0, 0, 20] ++ f2Elem, 0, false⟩ := by decide +kernel

end Rtosc.Osc
