/-
  C08 — Bundles compose and decompose losslessly, including nesting.
  Property theorems only; helper lemmas live in Proofs/Bundle*.lean, the model and the
  specification (`Elem`, `Spec.encodeElem`) in Osc/Bundle.lean.

  Reading of the statement.  A packet is `e : Elem`: a message or a bundle of packets with a
  time tag, nested to any depth; `Spec.encodeElem e` is its OSC 1.0 byte string.  `rtosc_bundle`
  gets its elements as pointers: the model gets the memory blocks `blks` they point into, and
  `BlocksHold es blks` says that block `i` starts with the encoding of element `i` (anything may
  follow — a message needs no terminator).  Readers run on `Spec.encodeElem (.bundle tt es) ++ rest`;
  every read goes through `get?`, so `= some …` / `= .ok …` also says that nothing outside the
  block is read.  The theorems hold for bundles nested to any depth because `Spec.encodeElem` is
  defined by recursion over the nesting and every packet, however deep, is a whole number of
  32-bit words (`encodeElem_mod4`, by mutual structural induction): a reader applied to the element
  that `fetch_size_encode` returns is again in the scope of these theorems.

  Known finding C08-K4.  `rtosc_bundle` finds the size of an element with
  `rtosc_message_length(msg, -1)`; for an element that is itself a bundle, `bundle_ring_length`
  walks the size fields until it *reads* a zero word, i.e. one word behind the element.  If the
  element's block ends with the element (or goes on with anything but a zero word) this is a read
  outside the block / a wrong size.  The full statement `bundle_eq_spec_statement` is therefore
  false (`bundle_eq_spec_counterexample`); `bundle_eq_spec_partial` carries the decidable trigger
  predicate `NestedUnterminated` as its extra hypothesis.  A bundle written by `rtosc_bundle`
  into a buffer at least 4 bytes larger than the bundle satisfies it (the buffer is cleared first).
-/
import RtoscModel.Proofs.BundleDecompose
import RtoscModel.Proofs.BundleTerm
namespace Rtosc.Osc
open Rtosc

/-- **messageLengthU_encode** — the size `rtosc_bundle` derives for an element from the element's
    own bytes (`rtosc_message_length(msg,-1)`, every read inside the block): the exact length of
    its encoding, for a message followed by anything and for a bundle followed by a zero word. -/
theorem messageLengthU_encode (e : Elem) (blk : Bytes) (hwf : e.WF) (hh : Elem.Holds blk e)
    (ht : Elem.Terminated blk e) : messageLengthU blk = .ok (Spec.encodeElem e).length :=
  messageLengthU_elem hwf hh ht

/-- **messageLengthU_terminates** — the fuel lemma of the unbounded length walk (C07's
    `length_terminates` for `len = -1`): on *every* block shorter than 2^32 bytes, well-formed or
    not, the loops of `rtosc_message_length(msg, -1)` finish within the fuel the model gives them;
    the bundle walk in particular, since fixes/C06-bundle-length-wrap.patch, moves `pos` strictly
    forward (an element whose end is no `unsigned` position is answered with 0) and needs no size
    hypothesis (`bundleLoopU_ne_hang`).  The result is a length or `.oob` (a read behind the block:
    finding K4 and callers that pass something else than a packet), never "does not return". -/
theorem messageLengthU_terminates (blk : Bytes) (h : blk.length < 4294967296) :
    messageLengthU blk ≠ .hang :=
  messageLengthU_ne_hang blk h

/-- **bundle_terminates** — `rtosc_bundle` returns for arbitrary element blocks (each shorter
    than 2^32 bytes): both passes over the elements measure them with
    `rtosc_message_length(msg, -1)`, which returns. -/
theorem bundle_terminates (buf : Bytes) (tt : UInt64) (blks : List Bytes)
    (h : ∀ b ∈ blks, b.length < 4294967296) : bundle buf tt blks ≠ .hang :=
  bundle_ne_hang buf tt blks h

/-- an element block whose nested bundle has a size field 0xfffffffc (the unrepaired walk never
    left it): measured as 0, `rtosc_bundle` writes an empty element and returns -/
example : messageLengthU [35, 98, 117, 110, 100, 108, 101, 0, 0, 0, 0, 0, 0, 0, 0, 0, 255, 255, 255, 252,
    47, 97, 0, 0, 44, 0, 0, 0, 0, 0, 0, 0] = .ok 0 := by decide +kernel

/-- The full statement of "bundling any sequence of well-formed messages and bundles yields the
    bundle encoding": element blocks that merely *start* with the encodings.  False of the code
    (K4), see `bundle_eq_spec_counterexample`. -/
def bundle_eq_spec_statement : Prop :=
  ∀ (es : List Elem) (blks : List Bytes) (tt : UInt64) (buf : Bytes),
    Elems.WF es → BlocksHold es blks → (Spec.encodeElem (.bundle tt es)).length < 4294967296 →
    (Spec.encodeElem (.bundle tt es)).length ≤ buf.length →
    bundle buf tt blks = .ok ⟨Spec.encodeElem (.bundle tt es) ++
        zeros (buf.length - (Spec.encodeElem (.bundle tt es)).length),
      (Spec.encodeElem (.bundle tt es)).length, false⟩

/-- **bundle_eq_spec_partial** — `rtosc_bundle` on well-formed elements (messages and bundles
    nested to any depth), none of them a bundle in a block without a zero word behind it
    (¬ trigger of K4): the buffer holds exactly `"#bundle\0"`, the time tag and every element
    preceded by its size, followed by zero bytes; the return value is the length of that encoding;
    no store outside the buffer, no read outside the element blocks. -/
theorem bundle_eq_spec_partial (es : List Elem) (blks : List Bytes) (tt : UInt64) (buf : Bytes)
    (hwf : Elems.WF es) (hb : BlocksHold es blks) (hk4 : ¬ NestedUnterminated es blks)
    (hsz : (Spec.encodeElem (.bundle tt es)).length < 4294967296)
    (hfit : (Spec.encodeElem (.bundle tt es)).length ≤ buf.length) :
    bundle buf tt blks = .ok ⟨Spec.encodeElem (.bundle tt es) ++
        zeros (buf.length - (Spec.encodeElem (.bundle tt es)).length),
      (Spec.encodeElem (.bundle tt es)).length, false⟩ :=
  bundle_spec es blks tt buf (goodBlocks_of hwf hb hk4) hsz hfit

/-- the empty bundle with time tag 1, in a block of exactly its 16 bytes -/
def k4Inner : Bytes := [35, 98, 117, 110, 100, 108, 101, 0, 0, 0, 0, 0, 0, 0, 0, 1]

/-- **bundle_eq_spec_counterexample** (K4) — one element, the empty bundle in an exact-size block:
    the element is well-formed and the block holds it, but `rtosc_bundle` reads the word behind
    the block (`Rd.oob`; ASan: heap-buffer-overflow READ in `bundle_ring_length`). -/
theorem bundle_eq_spec_counterexample : ¬ bundle_eq_spec_statement := by
  intro h
  have hw : Elems.WF [.bundle 1 []] := by
    simp only [Elems.WF, Elem.WF, and_true, true_and]
    decide
  have hb : BlocksHold [.bundle 1 []] [k4Inner] := ⟨⟨[], by decide⟩, trivial⟩
  have := h [.bundle 1 []] [k4Inner] 0 (List.replicate 40 170) hw hb (by decide) (by decide)
  have hoob : bundle (List.replicate 40 170) 0 [k4Inner] = .oob := by decide +kernel
  rw [hoob] at this
  cases this

/-- the trigger holds of the counterexample, and not of the same element followed by a zero word -/
example : NestedUnterminated [.bundle 1 []] [k4Inner] := by decide
example : ¬ NestedUnterminated [.bundle 1 []] [k4Inner ++ [0, 0, 0, 0]] := by decide

/-- **bundleP_encode** — the encoding of a bundle is recognised as a bundle. -/
theorem bundleP_encode (tt : UInt64) (es : List Elem) (rest : Bytes) :
    bundleP (Spec.encodeElem (.bundle tt es) ++ rest) = some true :=
  bundleP_bundle tt es rest

/-- **elements_encode** — `rtosc_bundle_elements(buffer, len)` with `len` = the length of the
    bundle reports the number of elements, whatever follows the bundle in memory (nothing is read
    behind it). -/
theorem elements_encode (tt : UInt64) (es : List Elem) (rest : Bytes)
    (hsz : (Spec.encodeElem (.bundle tt es)).length < 4294967296) :
    bundleElements (Spec.encodeElem (.bundle tt es) ++ rest) (Spec.encodeElem (.bundle tt es)).length =
      .ok es.length :=
  bundleElements_exact tt es rest hsz

/-- **elements_encode_padded** — with a larger `len` (the capacity of the buffer) the word behind
    the last element is read; when it is the zero word `rtosc_bundle` left there, the count is
    again the number of elements. -/
theorem elements_encode_padded (tt : UInt64) (es : List Elem) (x : Bytes) (len : Nat)
    (hsz : (Spec.encodeElem (.bundle tt es)).length < 4294967296)
    (hlen : (Spec.encodeElem (.bundle tt es)).length ≤ len) :
    bundleElements (Spec.encodeElem (.bundle tt es) ++ 0 :: 0 :: 0 :: 0 :: x) len = .ok es.length := by
  have hl := encodeElem_bundle_length tt es
  have hle := elems_length_le es
  unfold bundleElements
  rw [elementsLoop_spec _ es 16 0 _ _ (drop16_bundle tt es _) (by unfold SmallElems; omega)
    (by omega) (Or.inr ⟨by omega, x, rfl⟩)]
  simp

/-- **fetch_size_encode** — for every element that exists (`i < count`), `rtosc_bundle_fetch`
    returns the offset of the element, `rtosc_bundle_size` its exact size, and the bytes there are
    the element's encoding, byte-identical — whatever follows the bundle (nothing behind element
    `i`'s size field is read).  The element may itself be a bundle: the theorems of this file
    apply to the returned bytes again. -/
theorem fetch_size_encode (tt : UInt64) (es : List Elem) (rest : Bytes) (i : Nat) (hi : i < es.length)
    (hsz : (Spec.encodeElem (.bundle tt es)).length < 4294967296) :
    bundleFetch (Spec.encodeElem (.bundle tt es) ++ rest) i = some (some (Spec.elemOffset es i)) ∧
    bundleSize (Spec.encodeElem (.bundle tt es) ++ rest) i = some (Spec.encodeElem es[i]).length ∧
    ((Spec.encodeElem (.bundle tt es) ++ rest).drop (Spec.elemOffset es i)).take
        (Spec.encodeElem es[i]).length = Spec.encodeElem es[i] := by
  obtain ⟨hf, hs, hv⟩ := elem_view tt es rest i hi hsz
  exact ⟨hf, hs, by rw [hv, List.take_left]⟩

/-- **timetag_encode** — the time tag is preserved, all 64 bits. -/
theorem timetag_encode (tt : UInt64) (es : List Elem) (rest : Bytes) :
    bundleTimetag (Spec.encodeElem (.bundle tt es) ++ rest) = some tt :=
  rd64_of_drop (drop8_bundle tt es rest)

/-- **messageLength_bundle** — `rtosc_message_length(buffer, len)` with the true `len` (the length
    of the bundle, or the capacity of the zero-filled buffer it was written into) reports the total
    length of the bundle. -/
theorem messageLength_bundle (tt : UInt64) (es : List Elem) (k : Nat)
    (hsz : (Spec.encodeElem (.bundle tt es)).length < 4294967296) :
    messageLength (Spec.encodeElem (.bundle tt es) ++ zeros k) =
      some (Spec.encodeElem (.bundle tt es)).length :=
  messageLength_bundle_spec tt es k hsz

/-- the C string `"#bundle"` -/
def bundleName : Bytes := [35, 98, 117, 110, 100, 108, 101]

/-- **message_not_bundle** — `rtosc_bundle_p` of an encoded message is true exactly when the
    address *is* the string `"#bundle"`.  `Msg.WF` does not say that an address starts with '/'
    (it says non-empty and NUL-free), hence the explicit condition; an OSC address (first byte '/')
    meets it (`message_not_bundle_osc`). -/
theorem message_not_bundle (m : Msg) (rest : Bytes) (hwf : m.WF) :
    bundleP (Spec.encode m ++ rest) = some (decide (m.addr = bundleName)) := by
  unfold bundleP
  rw [magicU_eq, List.drop_zero, encode_layout m rest]
  exact magicL_cstr m.addr bundleName _ hwf.addr_nonul (by decide)

/-- a plain message (address starting with '/') is never mistaken for a bundle -/
theorem message_not_bundle_osc (m : Msg) (rest : Bytes) (hwf : m.WF) (hosc : m.addr.head? = some 47) :
    bundleP (Spec.encode m ++ rest) = some false := by
  rw [message_not_bundle m rest hwf]
  have : m.addr ≠ bundleName := by
    intro h; rw [h] at hosc; simp [bundleName] at hosc
  simp [this]

/-- **decompose_encode** — lossless for every nesting depth: taking an encoded packet apart with
    `rtosc_bundle_p`, `rtosc_bundle_timetag`, `rtosc_bundle_elements`, `rtosc_bundle_fetch` and
    `rtosc_bundle_size`, recursively into every nested bundle, gives back exactly the structure
    that was encoded — every time tag, every element count, every message byte-identical — whatever
    follows the packet in memory.  By mutual structural induction over `Elem` / `List Elem`. -/
theorem decompose_encode (e : Elem) (rest : Bytes) (d : Nat) (hwf : e.WF) (hd : e.depth < d) :
    decompose d (Spec.encodeElem e ++ rest) (Spec.encodeElem e).length = .ok e.packet :=
  decompose_spec e rest d hwf hd

/-- **compose_decompose** — `rtosc_bundle` followed by the recursive decomposition of the `ret`
    bytes it reports is the identity on the elements (under the precondition of
    `bundle_eq_spec_partial`). -/
theorem compose_decompose (es : List Elem) (blks : List Bytes) (tt : UInt64) (buf : Bytes) (d : Nat)
    (hwf : Elems.WF es) (hb : BlocksHold es blks) (hk4 : ¬ NestedUnterminated es blks)
    (hsz : (Spec.encodeElem (.bundle tt es)).length < 4294967296)
    (hfit : (Spec.encodeElem (.bundle tt es)).length ≤ buf.length) (hd : Elems.depth es + 1 < d) :
    ∃ r, bundle buf tt blks = .ok r ∧ decompose d r.buf r.ret = .ok (.bundle tt (Elems.packets es)) := by
  refine ⟨_, bundle_eq_spec_partial es blks tt buf hwf hb hk4 hsz hfit, ?_⟩
  have := decompose_encode (.bundle tt es) (zeros (buf.length - (Spec.encodeElem (.bundle tt es)).length)) d
    (by simp only [Elem.WF]; exact ⟨hwf, hsz⟩) (by simp only [Elem.depth]; exact hd)
  simpa only [Elem.packet] using this

/-- **appendBundle_eq_spec** — `append_bundle` (the way `subtree_serialize` grows its bundle):
    if `max_len` (at most the destination block) has room for 4 + `src_len` more bytes, the
    destination afterwards holds the bundle extended by one element, the return value is its
    length, the bytes behind it are untouched; no store outside the destination. -/
theorem appendBundle_eq_spec (tt : UInt64) (es : List Elem) (e : Elem) (tail srest : Bytes) (maxLen : Nat)
    (hsz : (Spec.encodeElem e).length < 4294967296)
    (hmax : maxLen ≤ (Spec.encodeElem (.bundle tt es) ++ tail).length)
    (hfit : (Spec.encodeElem (.bundle tt es)).length + (Spec.encodeElem e).length + 4 ≤ maxLen) :
    appendBundle (Spec.encodeElem (.bundle tt es) ++ tail) (Spec.encodeElem e ++ srest) maxLen
        (Spec.encodeElem (.bundle tt es)).length (Spec.encodeElem e).length =
      .ok ⟨Spec.encodeElem (.bundle tt (es ++ [e])) ++ tail.drop (4 + (Spec.encodeElem e).length),
        (Spec.encodeElem (.bundle tt (es ++ [e]))).length, false⟩ :=
  appendBundle_spec tt es e tail srest maxLen hsz hmax hfit

/-! ### Non-vacuity: a bundle holding a message and a nested bundle that holds the same message -/

def c08Msg : Msg := ⟨[47, 97], [105, 115], [.w32 7, .str [104, 105]]⟩
def c08Inner : Elem := .bundle 0xdeadbeefcafebaad [.msg c08Msg]
def c08Outer : List Elem := [.msg c08Msg, c08Inner]

def c08MsgBytes : Bytes := [47, 97, 0, 0, 44, 105, 115, 0, 0, 0, 0, 7, 104, 105, 0, 0]
def c08InnerBytes : Bytes :=
  [35, 98, 117, 110, 100, 108, 101, 0, 222, 173, 190, 239, 202, 254, 186, 173, 0, 0, 0, 16] ++ c08MsgBytes

example : Spec.encodeElem (.msg c08Msg) = c08MsgBytes := by decide +kernel
example : Spec.encodeElem c08Inner = c08InnerBytes := by decide +kernel

theorem c08_wf : Elems.WF c08Outer := by
  have hm : c08Msg.WF := by decide +kernel
  simp only [c08Outer, c08Inner, Elems.WF, Elem.WF, and_true]
  exact ⟨⟨hm, by decide⟩, ⟨hm, by decide⟩, by decide +kernel⟩

/-- **bundle_output_composes** — bottom-up composition: what `rtosc_bundle` itself leaves in a
    buffer at least 4 bytes larger than the bundle (`r.buf`, the block a caller hands on as an
    element of the next level) holds the encoding of the bundle *and* goes on with a zero word,
    i.e. it meets the precondition of `bundle_eq_spec_partial` one level up (no K4 trigger).  By
    induction over the nesting this is why a tree built bottom-up with `rtosc_bundle`, every nested
    bundle into a block of capacity ≥ size + 4, is encoded exactly. -/
theorem bundle_output_composes (es : List Elem) (blks : List Bytes) (tt : UInt64) (buf : Bytes)
    (hwf : Elems.WF es) (hb : BlocksHold es blks) (hk4 : ¬ NestedUnterminated es blks)
    (hsz : (Spec.encodeElem (.bundle tt es)).length < 4294967296)
    (hfit : (Spec.encodeElem (.bundle tt es)).length + 4 ≤ buf.length) :
    ∃ r, bundle buf tt blks = .ok r ∧ Elem.Holds r.buf (.bundle tt es) ∧
      Elem.Terminated r.buf (.bundle tt es) ∧ Elem.WF (.bundle tt es) := by
  refine ⟨_, bundle_eq_spec_partial es blks tt buf hwf hb hk4 hsz (by omega), ⟨_, rfl⟩, ?_, ?_⟩
  · intro _
    obtain ⟨k, hk⟩ : ∃ k, buf.length - (Spec.encodeElem (.bundle tt es)).length = k + 4 :=
      ⟨buf.length - (Spec.encodeElem (.bundle tt es)).length - 4, by omega⟩
    simp only [List.drop_left, hk]
    simp [zeros, List.replicate_succ]
  · simp only [Elem.WF]; exact ⟨hwf, hsz⟩

/-- two levels, concretely: the inner bundle as `rtosc_bundle` writes it into 40 bytes is accepted
    as an element by the outer call -/
example : (match bundle (List.replicate 40 170) 0xdeadbeefcafebaad [c08MsgBytes] with
    | .ok r => (match bundle (List.replicate 80 170) 1 [c08MsgBytes, r.buf] with
               | .ok r2 => some (r2.ret, r2.oob) | _ => none)
    | _ => none) = some (76, false) := by decide +kernel

/-- the message in an exact-size block, the nested bundle in a block that goes on with a zero word -/
def c08Blocks : List Bytes := [c08MsgBytes, c08InnerBytes ++ [0, 0, 0, 0, 9]]

example : BlocksHold c08Outer c08Blocks :=
  ⟨⟨[], by decide +kernel⟩, ⟨[0, 0, 0, 0, 9], by decide +kernel⟩, trivial⟩
example : ¬ NestedUnterminated c08Outer c08Blocks := by decide +kernel
example : (Spec.encodeElem (.bundle 1 c08Outer)).length = 76 := by decide +kernel

/-- the model on this input: 76 bytes, and every reader gives back what went in -/
example : (match bundle (List.replicate 80 170) 1 c08Blocks with
    | .ok r => some (r.ret, r.oob, r.buf.drop 76) | _ => none) = some (76, false, [0, 0, 0, 0]) := by
  decide +kernel
example : bundleElements (Spec.encodeElem (.bundle 1 c08Outer)) 76 = .ok 2 := by decide +kernel
example : bundleFetch (Spec.encodeElem (.bundle 1 c08Outer)) 1 = some (some 40) := by decide +kernel
example : bundleSize (Spec.encodeElem (.bundle 1 c08Outer)) 1 = some 36 := by decide +kernel
example : Spec.elemOffset c08Outer 1 = 40 := by decide +kernel
example : bundleTimetag (Spec.encodeElem (.bundle 1 c08Outer)) = some 1 := by decide +kernel
example : messageLength (Spec.encodeElem (.bundle 1 c08Outer)) = some 76 := by decide +kernel
example : bundleP c08MsgBytes = some false := by decide +kernel
/-- one level down: the fetched element is a bundle again -/
example : bundleP ((Spec.encodeElem (.bundle 1 c08Outer)).drop 40) = some true := by decide +kernel
example : bundleElements ((Spec.encodeElem (.bundle 1 c08Outer)).drop 40) 36 = .ok 1 := by decide +kernel
/-- the whole tree comes back: depth 2, fuel 3 -/
example : Elem.depth (.bundle 1 c08Outer) = 2 := by decide +kernel
example : (match decompose 3 (Spec.encodeElem (.bundle 1 c08Outer)) 76 with
    | .ok (.bundle t1 [.msg a, .bundle t2 [.msg b]]) =>
      t1 == 1 && t2 == 0xdeadbeefcafebaad && a == c08MsgBytes && b == c08MsgBytes
    | _ => false) = true := by decide +kernel
/-- the address "#bundle" is the one message that is taken for a bundle -/
example : bundleP (Spec.encode ⟨bundleName, [], []⟩) = some true := by decide +kernel

end Rtosc.Osc
