/-
  C01 — the table obligation, in a module of its own: when the per-tag `switch` statements of
  src/rtosc.c change their classification, this module (one obligation) stops checking and the
  other C01 theorems (Props/C01.lean) are untouched.

  `Generated/OscTables.lean` is regenerated from the working tree by `translate_tables`
  (tools/props/c01.py).  If a table disagrees, the `#eval` below prints, into the build log
  that goes into the replay file, *which* table and *which* tag no longer agree.
-/
import RtoscModel.Proofs.OscTables
namespace Rtosc.Osc
open Rtosc

/-- the entries of a table that differ from the specification: (tag, class in the table, class
    according to `kind`) -/
def tabDisagreements (tab : List (Nat × Nat)) : List (Nat × Nat × Nat) :=
  (List.range 256).filterMap fun n =>
    if tabClass tab n = classOf (UInt8.ofNat n) then none
    else some (n, tabClass tab n, classOf (UInt8.ofNat n))

def reservedDisagreements : List (Nat × Nat × Nat) :=
  (List.range 256).filterMap fun n =>
    let want := if hasReserved (UInt8.ofNat n) then 1 else 0
    if tabClass Generated.hasReservedTab n = want then none
    else some (n, tabClass Generated.hasReservedTab n, want)

def tableReport : List String :=
  let one (name : String) (d : List (Nat × Nat × Nat)) : List String :=
    d.map fun (n, got, want) =>
      s!"C01 tables_agree: table {name} (src/rtosc.c) tag {n} '{Char.ofNat n}': class {got} in the source, " ++
      s!"class {want} in the specification"
  one "argSizeTab/arg_size" (tabDisagreements Generated.argSizeTab) ++
  one "sizeNullTab/vsosc_null" (tabDisagreements Generated.sizeNullTab) ++
  one "writeTab/rtosc_amessage" (tabDisagreements Generated.writeTab) ++
  one "extractTab/extract_arg" (tabDisagreements Generated.extractTab) ++
  one "ringLengthTab/rtosc_message_ring_length" (tabDisagreements Generated.ringLengthTab) ++
  one "hasReservedTab/has_reserved" reservedDisagreements

-- prints nothing when every table agrees
#eval (tableReport.forM fun l => IO.println l : IO Unit)

theorem argSizeTab_agrees : TabAgrees Generated.argSizeTab := by decide +kernel
theorem sizeNullTab_agrees : TabAgrees Generated.sizeNullTab := by decide +kernel
theorem writeTab_agrees : TabAgrees Generated.writeTab := by decide +kernel
theorem extractTab_agrees : TabAgrees Generated.extractTab := by decide +kernel
theorem ringLengthTab_agrees : TabAgrees Generated.ringLengthTab := by decide +kernel
theorem hasReservedTab_agrees :
    ∀ n, n < 256 → (tabClass Generated.hasReservedTab n = 1 ↔ hasReserved (UInt8.ofNat n) = true) := by
  decide +kernel

/-- **tables_agree** — the per-tag `switch` statements of rtosc.c (`arg_size`, `vsosc_null`,
    `rtosc_amessage`, `extract_arg`, `rtosc_message_ring_length`), regenerated from the source
    on every run, classify all 256 bytes exactly as the specification's `kind` does, and
    `has_reserved` returns 1 exactly for the payload tags — so the five passes over the type
    string cannot drift apart unnoticed. -/
theorem tables_agree :
    TabAgrees Generated.argSizeTab ∧ TabAgrees Generated.sizeNullTab ∧ TabAgrees Generated.writeTab ∧
    TabAgrees Generated.extractTab ∧ TabAgrees Generated.ringLengthTab ∧
    (∀ n, n < 256 → (tabClass Generated.hasReservedTab n = 1 ↔ hasReserved (UInt8.ofNat n) = true)) ∧
    (∀ n, n < 256 → (hasReserved (UInt8.ofNat n) = true ↔ classOf (UInt8.ofNat n) ≠ 0)) :=
  ⟨argSizeTab_agrees, sizeNullTab_agrees, writeTab_agrees, extractTab_agrees, ringLengthTab_agrees,
    hasReservedTab_agrees, by decide +kernel⟩

end Rtosc.Osc
