/- C07 — stub (theorems follow) -/
import RtoscModel.Osc.Valid
import RtoscModel.Osc.Decode
