/-
  C07 — Validation of untrusted bytes is sound.
  Property theorems only; helper lemmas live in Proofs/Valid*.lean, the models in Osc/Valid.lean
  (+ Osc/Read.lean), the reference decoder in Osc/Decode.lean; the decoder is anchored to the
  OSC 1.0 encoder `Spec.encode` of Osc/Spec.lean (`decode_encode`, `decode_eq_some_iff`).

  Reading of the statement.  `bs : Bytes` is an arbitrary byte buffer; the caller owns exactly
  these `n = bs.length` bytes and passes `len = n`.  The model functions return `Res`: `.ok v`,
  `.oob` (some byte outside the block was read) or `.spin` (a loop does not stop); the readers
  return `Option`, `none` meaning a read outside the block.  So "`= .ok …`" / "`= some …`" says at
  once: terminates, reads only inside the n bytes, returns that value.
  The only hypothesis on the buffer is `Sized bs` (`n < 2^31`: the code keeps positions in
  `unsigned` and sizes in `int`).
  The code is the repaired one (fixes/C07-*.patch): blob length and bundle element size must fit
  the remaining bytes, `len == 0`, empty type string with non-zero padding, empty string argument.
-/
import RtoscModel.Proofs.ValidAnchor
namespace Rtosc.Osc.V
open Rtosc Rtosc.Osc

/-- The buffers the property quantifies over: any bytes, fewer than 2^31 of them. -/
def Sized (bs : Bytes) : Prop := bs.length < 2147483648

instance (bs : Bytes) : Decidable (Sized bs) := by unfold Sized; exact inferInstance

/-- the validator accepts the buffer -/
def Valid (bs : Bytes) : Prop := validMessageP bs bs.length = .ok true

instance (bs : Bytes) : Decidable (Valid bs) := by unfold Valid; exact inferInstance

/-- **length_terminates** — the fuel lemma: on every buffer the loops of `rtosc_message_length`
    (path scan, type-string scan, argument walk, bundle walk) and of `rtosc_valid_message_p` finish
    within the fuel the model gives them (`len + 2` rounds each); in particular the argument walk
    never reads on behind the type string. -/
theorem length_terminates (bs : Bytes) (h : Sized bs) :
    messageLength bs bs.length ≠ .spin ∧ validMessageP bs bs.length ≠ .spin := by
  obtain ⟨v, hv, _⟩ := messageLength_ok bs h
  rw [hv, validMessageP_eq bs h]
  exact ⟨by simp, by simp⟩

/-- **length_reads_in_bounds** — `rtosc_message_length(msg, n)` reads no byte outside the n bytes. -/
theorem length_reads_in_bounds (bs : Bytes) (h : Sized bs) : messageLength bs bs.length ≠ .oob := by
  obtain ⟨v, hv, _⟩ := messageLength_ok bs h
  rw [hv]; simp

/-- **valid_reads_in_bounds** — `rtosc_valid_message_p(msg, n)` reads no byte outside the n bytes
    (for n = 0 it reads nothing at all). -/
theorem valid_reads_in_bounds (bs : Bytes) (h : Sized bs) : validMessageP bs bs.length ≠ .oob := by
  rw [validMessageP_eq bs h]; simp

/-- **length_zero_or_le** — the reported length is 0 or at most n. -/
theorem length_zero_or_le (bs : Bytes) (h : Sized bs) :
    ∃ v, messageLength bs bs.length = .ok v ∧ (v = 0 ∨ v ≤ bs.length) :=
  messageLength_ok bs h

/-- following a returned union stays inside the block -/
theorem view_extent (m : Bytes) (cv : CVal) (v : Val) (h : cv.view m = some v) :
    ∃ x, extent m cv = some x ∧ x ≤ m.length := by
  cases cv with
  | str off =>
    simp only [CVal.view, Option.map_eq_some_iff] at h
    obtain ⟨s, hs, _⟩ := h
    have key : ∀ (l : Bytes) (s : Bytes), cstr l = some s → nulIdx l = some s.length ∧ s.length < l.length := by
      intro l
      induction l with
      | nil => intro s h; simp [cstr] at h
      | cons b r ih =>
        intro s h
        simp only [cstr] at h
        split at h
        · rename_i hb; simp only [Option.some.injEq] at h; subst h; simp [nulIdx, hb]
        · rename_i hb
          simp only [Option.map_eq_some_iff] at h
          obtain ⟨s', hs', rfl⟩ := h
          obtain ⟨h1, h2⟩ := ih s' hs'
          simp [nulIdx, hb, h1]; omega
    obtain ⟨h1, h2⟩ := key _ s hs
    refine ⟨off + s.length + 1, by simp [extent, h1], ?_⟩
    simp only [List.length_drop] at h2; omega
  | blob len off =>
    simp only [CVal.view] at h
    split at h
    · rename_i hc; exact ⟨_, rfl, hc.2⟩
    · simp at h
  | zero => exact ⟨0, rfl, Nat.zero_le _⟩
  | tf b => exact ⟨0, rfl, Nat.zero_le _⟩
  | w32 x => exact ⟨0, rfl, Nat.zero_le _⟩
  | w64 x => exact ⟨0, rfl, Nat.zero_le _⟩
  | midi a b c d => exact ⟨0, rfl, Nat.zero_le _⟩

/-- what the readers return on an accepted buffer, in terms of the message `m` a decoder returns -/
def ReadersReturn (bs : Bytes) (m : Msg) : Prop :=
  (∃ a, argString bs = some a ∧ cstrAt bs a = some m.tags) ∧
  narguments bs = some (Spec.values m).length ∧
  (∀ i t v, (Spec.values m)[i]? = some (t, v) → typeAt bs i = some t ∧ argumentView bs i = some v) ∧
  iterateView bs = some (Spec.values m)

theorem valid_layout (bs : Bytes) (h : Sized bs) (hv : Valid bs) :
    ∃ s tags pad j args A, Layout bs s tags pad j args A := by
  unfold Valid at hv
  rw [validMessageP_eq bs h] at hv
  exact layout_of_valid bs h (by simpa using hv)

/-- **valid_accessors_eq_decodeLax** — whenever the validator accepts, the decoder that ignores
    the content of padding bytes (and passes unknown tags as tags without payload) decodes the
    buffer, and argument string, count, type by index, argument by index (pointers followed:
    string bytes, blob bytes) and the iterator sequence are exactly what it returns.  No
    exclusions. -/
theorem valid_accessors_eq_decodeLax (bs : Bytes) (h : Sized bs) (hv : Valid bs) :
    ∃ m, Spec.decodeLax bs = some m ∧ ReadersReturn bs m := by
  obtain ⟨s, tags, pad, j, args, A, L⟩ := valid_layout bs h hv
  obtain ⟨h1, h2, h3, h4, h5⟩ := readers_of_layout L h
  exact ⟨⟨47 :: s, tags, args⟩, decodeLax_of_layout L, ⟨_, h1, h2⟩, h3, h4, h5⟩

/-- **valid_accessors_in_bounds** — whenever the validator accepts, every reader stays inside the
    n bytes: the argument string and its terminator, the count, and for every argument index the
    type, the value (`rtosc_argument`) *and the extent a caller touches by following it* — the
    string up to and including its terminator, all `len` blob bytes — are at offsets `≤ n`; the
    same for every element the iterator yields, and the iterator yields exactly `count` elements. -/
theorem valid_accessors_in_bounds (bs : Bytes) (h : Sized bs) (hv : Valid bs) :
    ∃ a tags n, argString bs = some a ∧ cstrAt bs a = some tags ∧ a + tags.length < bs.length ∧
      narguments bs = some n ∧
      (∀ i, i < n → ∃ t cv x, typeAt bs i = some t ∧ argument bs i = some cv ∧
        extent bs cv = some x ∧ x ≤ bs.length) ∧
      ∃ l, iterate bs = some l ∧ l.length = n ∧
        ∀ p ∈ l, ∃ x, extent bs p.2 = some x ∧ x ≤ bs.length := by
  obtain ⟨m, _, ⟨a, h1, h2⟩, h3, h4, h5⟩ := valid_accessors_eq_decodeLax bs h hv
  refine ⟨a, m.tags, _, h1, h2, ?_, h3, ?_, ?_⟩
  · -- the terminator of the type string is inside
    have key : ∀ (l s : Bytes), cstr l = some s → s.length < l.length := by
      intro l
      induction l with
      | nil => intro s h; simp [cstr] at h
      | cons b r ih =>
        intro s h
        simp only [cstr] at h
        split at h
        · simp only [Option.some.injEq] at h; subst h; simp
        · simp only [Option.map_eq_some_iff] at h
          obtain ⟨s', hs', rfl⟩ := h
          have := ih s' hs'; simp; omega
    have := key _ _ h2
    simp only [List.length_drop] at this; omega
  · intro i hi
    obtain ⟨tv, htv⟩ : ∃ tv, (Spec.values m)[i]? = some tv := ⟨_, List.getElem?_eq_getElem hi⟩
    obtain ⟨ht, hav⟩ := h4 i tv.1 tv.2 htv
    simp only [argumentView] at hav
    cases hcv : argument bs i with
    | none => rw [hcv] at hav; simp at hav
    | some cv =>
      rw [hcv] at hav
      obtain ⟨x, hx1, hx2⟩ := view_extent bs cv tv.2 hav
      exact ⟨tv.1, cv, x, ht, rfl, hx1, hx2⟩
  · simp only [iterateView] at h5
    cases hl : iterate bs with
    | none => rw [hl] at h5; simp at h5
    | some l =>
      rw [hl] at h5
      refine ⟨l, rfl, (mapM_length _ l _ h5).symm, ?_⟩
      -- every viewed element has its extent inside
      have key : ∀ (l : List (UInt8 × CVal)) (r : List (UInt8 × Val)),
          l.mapM (fun x => (x.2.view bs).map (fun v => (x.1, v))) = some r →
          ∀ p ∈ l, ∃ v, p.2.view bs = some v := by
        intro l
        induction l with
        | nil => intro r _ p hp; cases hp
        | cons x xs ih =>
          intro r hr p hp
          simp only [List.mapM_cons] at hr
          cases hx : x.2.view bs with
          | none => simp [hx] at hr
          | some v =>
            cases hxs : xs.mapM (fun x => (x.2.view bs).map (fun v => (x.1, v))) with
            | none => simp [hx, hxs] at hr
            | some ys =>
              rcases List.mem_cons.mp hp with rfl | hp'
              · exact ⟨v, hx⟩
              · exact ih ys hxs p hp'
      intro p hp
      obtain ⟨v, hv'⟩ := key l _ h5 p hp
      exact view_extent bs p.2 v hv'

/-- the full statement with the *strict* OSC 1.0 decoder -/
def valid_accessors_eq_decode_statement : Prop :=
  ∀ bs : Bytes, Sized bs → Valid bs → ∃ m, Spec.decode bs = some m ∧ ReadersReturn bs m

/-- **valid_accessors_eq_decode_partial** — whenever the validator accepts and the buffer is not
    in the class of known finding C07-K1 (`NonCanonical`; by `nonCanonical_iff` below: the buffer
    is the OSC 1.0 encoding of a message up to padding content, and some padding byte is not NUL
    or some type tag is not one of the 17), the strict OSC 1.0 decoder decodes the buffer and
    every reader returns exactly what it returns. -/
theorem valid_accessors_eq_decode_partial (bs : Bytes) (h : Sized bs) (hv : Valid bs)
    (hk : ¬ NonCanonical bs) : ∃ m, Spec.decode bs = some m ∧ ReadersReturn bs m := by
  obtain ⟨m, hm, hr⟩ := valid_accessors_eq_decodeLax bs h hv
  cases hs : Spec.decode bs with
  | none => exact absurd ⟨by rw [hm]; rfl, by rw [hs]; rfl⟩ hk
  | some m' =>
    have := decode_strict_lax hs
    rw [hm] at this; cases this
    exact ⟨m, rfl, hr⟩

/-! ### The reference decoder is anchored to the OSC 1.0 encoder

  "What an independent OSC decoder returns" is only as good as the decoder.  `Spec.decode`
  (Osc/Decode.lean) is tied to `Spec.encode` (Osc/Spec.lean, the OSC 1.0 encoding C01 is stated
  against; neither is defined in terms of the other): it is exactly the inverse of the encoder on
  canonical messages (`Canon`: address starts with '/' and is printable ASCII, the 17 tags, one
  well-formed argument per payload tag). -/

/-- **decode_encode** — the strict decoder reads back the OSC 1.0 encoding of every well-formed
    message (C01's `Msg.WF`) whose address is an OSC address. -/
theorem decode_encode (m : Msg) (h : m.WF) (hs : m.addr.head? = some 47) (hp : m.addr.all printable = true) :
    Spec.decode (Spec.encode m) = some m :=
  decode_encode_canon (canon_of_wf h hs hp)

/-- **decode_eq_some_iff** — and conversely: the strict decoder returns `m` for exactly one buffer,
    the OSC 1.0 encoding of `m`, and only for canonical `m` (for buffers shorter than 2^32 bytes:
    well-formed in the sense of C01). -/
theorem decode_eq_some_iff (bs : Bytes) (m : Msg) :
    Spec.decode bs = some m ↔ Canon m ∧ Spec.encode m = bs :=
  decode_iff bs m

theorem decode_wf (bs : Bytes) (m : Msg) (h : Spec.decode bs = some m) (hsz : bs.length < 2 ^ 32) :
    m.WF ∧ m.addr.head? = some 47 ∧ m.addr.all printable = true ∧ Spec.encode m = bs := by
  obtain ⟨hc, he⟩ := (decode_iff bs m).mp h
  exact ⟨wf_of_canon hc (by rw [he]; exact hsz), hc.addr_slash, hc.addr_print, he⟩

/-- **nonCanonical_iff** — the trigger class of known finding C07-K1, syntactically: the buffer is
    the OSC 1.0 encoding of a message `m` *up to the content of bytes that are NUL in that encoding*
    (`PadEq`: same length, every differing byte is a NUL of the encoding, i.e. padding behind the
    type tag string / a string argument / blob data — the terminators themselves are NUL in the
    buffer too, or `m` would be another message), and either some such byte is not NUL in the
    buffer (`bs ≠ Spec.encode m`) or some type tag is not one of the 17 known ones. -/
theorem nonCanonical_iff (bs : Bytes) :
    NonCanonical bs ↔ ∃ m, Spec.decodeLax bs = some m ∧ LaxCanon m ∧ PadEq bs (Spec.encode m) ∧
      (bs ≠ Spec.encode m ∨ ∃ t ∈ m.tags, isTag t = false) := by
  unfold NonCanonical
  constructor
  · rintro ⟨hl, hs⟩
    cases hm : Spec.decodeLax bs with
    | none => rw [hm] at hl; cases hl
    | some m =>
      obtain ⟨h1, h2⟩ := decodeLax_padEq hm
      exact ⟨m, rfl, h1, h2, (decode_none_iff hm).mp hs⟩
  · rintro ⟨m, hm, _, _, hor⟩
    exact ⟨by rw [hm]; rfl, (decode_none_iff hm).mpr hor⟩

/-- **valid_accessors_eq_encoding** — the accessor clause without any decoder: whenever the
    validator accepts, the buffer is the OSC 1.0 encoding of some message `m` up to the content of
    padding bytes, and argument string, count, types, arguments and iterator return exactly the
    tags and values of that `m`.  If moreover the padding is clean (`bs = Spec.encode m`) and the
    tags are known, `m` is what the strict decoder returns. -/
theorem valid_accessors_eq_encoding (bs : Bytes) (h : Sized bs) (hv : Valid bs) :
    ∃ m, LaxCanon m ∧ PadEq bs (Spec.encode m) ∧ ReadersReturn bs m ∧
      (bs = Spec.encode m → m.tags.all isTag = true → Spec.decode bs = some m) := by
  obtain ⟨m, hm, hr⟩ := valid_accessors_eq_decodeLax bs h hv
  obtain ⟨h1, h2⟩ := decodeLax_padEq hm
  refine ⟨m, h1, h2, hr, fun he ht => ?_⟩
  rw [he]; exact decode_encode_canon ⟨h1, ht⟩

/-- the witness of C07-K1: `/a` `,i` with the padding byte behind the type string's terminator
    set to 1, one int -/
def k1Witness : Bytes := [47, 97, 0, 0, 44, 105, 0, 1, 0, 0, 0, 5]

/-- **valid_accessors_eq_decode_counterexample** — the statement with the strict decoder is false
    of the code: the validator accepts a buffer with a non-zero padding byte, the strict decoder
    rejects it (the buffer is in the trigger class, and the readers return what the lax decoder
    returns). -/
theorem valid_accessors_eq_decode_counterexample : ¬ valid_accessors_eq_decode_statement := by
  intro hst
  have hs : Sized k1Witness := by decide
  have hv : Valid k1Witness := by decide +kernel
  obtain ⟨m, hm, _⟩ := hst k1Witness hs hv
  have : Spec.decode k1Witness = none := by decide +kernel
  rw [this] at hm; cases hm

/-! ### Non-vacuity -/

/-- `"/ab" "[sb]i"` with a 5-byte string, a 3-byte blob and an int (the C01 example message) -/
def exBytes : Bytes :=
  [47, 97, 98, 0, 44, 91, 115, 98, 93, 105, 0, 0, 104, 101, 108, 108, 111, 0, 0, 0,
   0, 0, 0, 3, 1, 2, 3, 0, 127, 255, 255, 255]

example : Sized exBytes := by decide
example : Valid exBytes := by decide +kernel
example : ¬ NonCanonical exBytes := by decide +kernel
example : messageLength exBytes exBytes.length = .ok 32 := by decide +kernel
example : Spec.decode exBytes = some ⟨[47, 97, 98], [91, 115, 98, 93, 105],
    [.str [104, 101, 108, 108, 111], .blob [1, 2, 3], .w32 0x7fffffff]⟩ := by decide +kernel
example : iterateView exBytes = some [(115, .arg (.str [104, 101, 108, 108, 111])),
    (98, .arg (.blob [1, 2, 3])), (105, .arg (.w32 0x7fffffff))] := by decide +kernel
/-- the example message is canonical and well-formed: `decode_encode` / `decode_eq_some_iff` are not vacuous -/
def exMsg : Msg := ⟨[47, 97, 98], [91, 115, 98, 93, 105],
    [.str [104, 101, 108, 108, 111], .blob [1, 2, 3], .w32 0x7fffffff]⟩
example : exMsg.WF ∧ exMsg.addr.head? = some 47 ∧ exMsg.addr.all printable = true := by decide +kernel
example : Canon exMsg := ⟨⟨by decide, by decide, by decide, by decide, by decide⟩, by decide⟩
example : Spec.encode exMsg = exBytes := by decide +kernel
/-- the K1 witness differs from the encoding of `/a ,i 5` in one byte, which is NUL in the encoding -/
example : PadEq k1Witness (Spec.encode ⟨[47, 97], [105], [.w32 5]⟩) ∧ k1Witness ≠ Spec.encode ⟨[47, 97], [105], [.w32 5]⟩ := by
  refine ⟨?_, by decide +kernel⟩
  have : Spec.encode ⟨[47, 97], [105], [.w32 5]⟩ = [47, 97, 0, 0, 44, 105, 0, 0, 0, 0, 0, 5] := by decide +kernel
  rw [this]
  unfold k1Witness
  exact .cons (.inl rfl) <| .cons (.inl rfl) <| .cons (.inl rfl) <| .cons (.inl rfl) <| .cons (.inl rfl) <|
    .cons (.inl rfl) <| .cons (.inl rfl) <| .cons (.inr rfl) <| .cons (.inl rfl) <| .cons (.inl rfl) <|
    .cons (.inl rfl) <| .cons (.inl rfl) .nil
/-- the K1 witness is accepted, is in the trigger class, and the lax decoder reads it as `/a ,i 5` -/
example : Valid k1Witness ∧ NonCanonical k1Witness ∧
    Spec.decodeLax k1Witness = some ⟨[47, 97], [105], [.w32 5]⟩ := by decide +kernel
/-- a buffer with an unknown tag `x` and dirty blob padding is accepted too -/
example : Valid [47, 97, 0, 0, 44, 120, 98, 0, 0, 0, 0, 1, 9, 7, 7, 7] := by decide +kernel
/-- the witnesses of the repaired defects are rejected, and nothing is read outside:
    blob length 0xfffffff8 (F7), the empty buffer (F7b), the bundle whose element size is
    0xfffffffc (hang), `\0abc` as a string argument (K3) -/
example : validMessageP [47, 97, 0, 0, 44, 98, 105, 105, 0, 0, 0, 0, 255, 255, 255, 248] 16 = .ok false := by
  decide +kernel
example : validMessageP [] 0 = .ok false := by decide
example : messageLength ([35, 98, 117, 110, 100, 108, 101, 0] ++ [0, 0, 0, 0, 0, 0, 0, 1] ++ [255, 255, 255, 252]) 20
    = .ok 0 := by decide +kernel
example : validMessageP [47, 97, 0, 0, 44, 115, 105, 0, 0, 97, 98, 99, 0, 0, 0, 0, 0, 0, 0, 7] 20 = .ok false := by
  decide +kernel
/-- an empty type string followed by non-zero padding is accepted, and the iterator stays inside -/
example : Valid [47, 97, 0, 0, 44, 0, 88, 89] ∧ iterate [47, 97, 0, 0, 44, 0, 88, 89] = some [] := by
  decide +kernel

end Rtosc.Osc.V
